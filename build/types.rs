use vstd::prelude::*;
verus! {
// 16-bit quantities on the wire: big-endian (Modbus data) and little-endian (RTU CRC trailer)
pub open spec fn be16(s: Seq<u8>, i: int) -> int { s[i] as int * 256 + s[i + 1] as int }
pub open spec fn le16(s: Seq<u8>, i: int) -> int { s[i] as int + s[i + 1] as int * 256 }

// ---- std shims shared by all units (each assume_specification restates the std documentation) ----
#[verifier::external_type_specification]
pub struct ExIoErrorKind(std::io::ErrorKind);

pub assume_specification<'a, T: Copy>[ Option::<&'a T>::copied ](o: Option<&'a T>) -> (r: Option<T>)
    ensures r == (match o { Some(x) => Some(*x), None => None });

pub assume_specification[ usize::div_ceil ](a: usize, b: usize) -> (r: usize)
    requires b != 0
    ensures r as int == (a as int + b as int - 1) / (b as int);
// ---- std::io::Error / ErrorKind: opaque values with an uninterpreted `kind` ----
#[verifier::external_type_specification]
#[verifier::external_body]
pub struct ExIoError(std::io::Error);

pub uninterp spec fn io_error_kind(e: std::io::Error) -> std::io::ErrorKind;

pub assume_specification[ std::io::Error::kind ](e: &std::io::Error) -> (r: std::io::ErrorKind)
    ensures r == io_error_kind(*e);

pub assume_specification[ <std::io::Error as From<std::io::ErrorKind>>::from ](k: std::io::ErrorKind) -> (r: std::io::Error)
    ensures io_error_kind(r) == k;

pub uninterp spec fn nz_value(n: std::num::NonZeroUsize) -> usize;

pub assume_specification<T, const N: usize> [<[T; N] as AsMut<[T]>>::as_mut] (a: &mut [T; N]) -> (r: &mut [T])
    ensures r@ == old(a)@, final(a)@ == final(r)@;

pub assume_specification<Idx: Clone> [<core::ops::Range<Idx> as Clone>::clone] (a: &core::ops::Range<Idx>) -> (r: core::ops::Range<Idx>)
    ensures call_ensures(Idx::clone, (&a.start,), r.start), call_ensures(Idx::clone, (&a.end,), r.end);

pub mod shims_nondet {
    use vstd::prelude::*;
    // R3: which select! arm completes first is not modelled - every choice is verified
    #[verifier::external_body]
    pub fn nondet() -> bool { unimplemented!() }
}

// (vstd already declares core::time::Duration as an external type)
pub uninterp spec fn nanos(d: std::time::Duration) -> int;
#[verifier::external_body]
pub broadcast proof fn axiom_nanos_nonneg(d: std::time::Duration) ensures #[trigger] nanos(d) >= 0 { }

pub assume_specification<T> [std::mem::drop] (_0: T);
pub assume_specification<T: Default> [core::mem::take] (dest: &mut T) -> (r: T) ensures r == *old(dest);

// R28: the text written by `write!` is opaque; formatting into a Formatter can fail (fmt::Error) and has no other effect visible here
#[verifier::external_body]
pub fn fmt_write(f: &mut std::fmt::Formatter) -> (r: std::fmt::Result) { unimplemented!() }

// module tree of the rodbus crate (contents are fragments; every item text comes from /repo)
pub mod error {
use vstd::prelude::*;
use vstd::std_specs::convert::FromSpecImpl;

#[derive(Clone, Copy, PartialEq, Eq)]
pub struct Shutdown;
#[derive(Clone, Copy)]
pub enum RequestError {
    
    Io(::std::io::ErrorKind),
    
    Exception(crate::exception::ExceptionCode),
    
    BadRequest(InvalidRequest),
    
    BadFrame(FrameParseError),
    
    BadResponse(AduParseError),

    Internal(InternalError),
    
    ResponseTimeout,
    
    NoConnection,
    
    Shutdown,
}
impl vstd::std_specs::cmp::PartialEqSpecImpl for RequestError {
    open spec fn obeys_eq_spec() -> bool { true }
    open spec fn eq_spec(&self, other: &Self) -> bool { *self == *other }
}
impl PartialEq for RequestError { #[verifier::external_body] fn eq(&self, other: &Self) -> bool { unimplemented!() } }

#[derive(Copy, Clone, PartialEq, Eq)]
pub enum InvalidRange {
    
    CountOfZero,
    
    AddressOverflow(u16, u16),
    
    CountTooLargeForType(u16, u16), // actual and limit
}
#[derive(Clone, Copy, PartialEq, Eq)]
pub enum InternalError {
    
    InsufficientWriteSpace(usize, usize), // written vs remaining space
    
    FrameTooBig(usize, usize), // calculate size vs allowed maximum
    
    InsufficientBytesForRead(usize, usize), // requested vs remaining
    
    BadSeekOperation,
    
    BadByteCount(usize),
}
#[derive(Clone, Copy, PartialEq, Eq)]
pub enum FrameParseError {
    
    MbapLengthZero,
    
    FrameLengthTooBig(usize, usize), // actual size and the maximum size
    
    UnknownProtocolId(u16),
    
    UnknownFunctionCode(u8),
    
    CrcValidationFailure(u16, u16), // received CRC, expected CRC
}
#[derive(Clone, Copy, PartialEq, Eq)]
pub enum AduParseError {
    
    InsufficientBytes,
    
    InsufficientBytesForByteCount(usize, usize), // count / remaining
    
    TrailingBytes(usize),
    
    ReplyEchoMismatch,
    
    UnknownResponseFunction(u8, u8, u8), // actual, expected, expected error
    
    UnknownCoilState(u16),
}
#[derive(Clone, Copy, PartialEq, Eq)]
pub enum InvalidRequest {
    
    BadRange(InvalidRange),
    
    CountTooBigForU16(usize),
    
    CountTooBigForType(u16, u16),
}

impl FromSpecImpl<std::io::Error> for RequestError {
    open spec fn obeys_from_spec() -> bool { true }
    open spec fn from_spec(err: std::io::Error) -> Self { RequestError::Io(crate::io_error_kind(err)) }
}
impl From<std::io::Error> for RequestError {
fn from(err: std::io::Error) -> (r: Self)
{
        RequestError::Io(err.kind())
    }
}
impl FromSpecImpl<InvalidRequest> for RequestError {
    open spec fn obeys_from_spec() -> bool { true }
    open spec fn from_spec(err: InvalidRequest) -> Self { RequestError::BadRequest(err) }
}
impl From<InvalidRequest> for RequestError {
fn from(err: InvalidRequest) -> (r: Self)
{
        RequestError::BadRequest(err)
    }
}
impl FromSpecImpl<InternalError> for RequestError {
    open spec fn obeys_from_spec() -> bool { true }
    open spec fn from_spec(err: InternalError) -> Self { RequestError::Internal(err) }
}
impl From<InternalError> for RequestError {
fn from(err: InternalError) -> (r: Self)
{
        RequestError::Internal(err)
    }
}
impl FromSpecImpl<AduParseError> for RequestError {
    open spec fn obeys_from_spec() -> bool { true }
    open spec fn from_spec(err: AduParseError) -> Self { RequestError::BadResponse(err) }
}
impl From<AduParseError> for RequestError {
fn from(err: AduParseError) -> (r: Self)
{
        RequestError::BadResponse(err)
    }
}
impl FromSpecImpl<crate::exception::ExceptionCode> for RequestError {
    open spec fn obeys_from_spec() -> bool { true }
    open spec fn from_spec(err: crate::exception::ExceptionCode) -> Self { RequestError::Exception(err) }
}
impl From<crate::exception::ExceptionCode> for RequestError {
fn from(err: crate::exception::ExceptionCode) -> (r: Self)
{
        RequestError::Exception(err)
    }
}
impl FromSpecImpl<FrameParseError> for RequestError {
    open spec fn obeys_from_spec() -> bool { true }
    open spec fn from_spec(err: FrameParseError) -> Self { RequestError::BadFrame(err) }
}
impl From<FrameParseError> for RequestError {
fn from(err: FrameParseError) -> (r: Self)
{
        RequestError::BadFrame(err)
    }
}
impl FromSpecImpl<InvalidRange> for InvalidRequest {
    open spec fn obeys_from_spec() -> bool { true }
    open spec fn from_spec(x: InvalidRange) -> Self { InvalidRequest::BadRange(x) }
}
impl From<InvalidRange> for InvalidRequest {
fn from(x: InvalidRange) -> (r: Self)
{
        InvalidRequest::BadRange(x)
    }
}
impl FromSpecImpl<InvalidRange> for RequestError {
    open spec fn obeys_from_spec() -> bool { true }
    open spec fn from_spec(x: InvalidRange) -> Self { RequestError::BadRequest(InvalidRequest::BadRange(x)) }
}
impl From<InvalidRange> for RequestError {
fn from(x: InvalidRange) -> (r: Self)
{
        RequestError::BadRequest(x.into())
    }
}

use crate::shims::scursor;
use crate::shims::scursor::WriteError;

impl FromSpecImpl<WriteError> for RequestError {
    open spec fn obeys_from_spec() -> bool { true }
    open spec fn from_spec(err: WriteError) -> Self {
        match err {
            WriteError::WriteOverflow { remaining, written } => RequestError::Internal(InternalError::InsufficientWriteSpace(written, remaining)),
            WriteError::NumericOverflow => RequestError::Internal(InternalError::BadSeekOperation),
            WriteError::BadSeek { length, pos } => RequestError::Internal(InternalError::BadSeekOperation),
        }
    }
}
impl From<WriteError> for RequestError {
fn from(err: WriteError) -> (r: Self)
{
        match err {
            WriteError::WriteOverflow { remaining, written } => {
                RequestError::Internal(InternalError::InsufficientWriteSpace(written, remaining))
            }
            WriteError::NumericOverflow | WriteError::BadSeek { .. } => {
                RequestError::Internal(InternalError::BadSeekOperation)
            }
        }
    }
}
impl FromSpecImpl<scursor::ReadError> for RequestError {
    open spec fn obeys_from_spec() -> bool { true }
    open spec fn from_spec(e: scursor::ReadError) -> Self { RequestError::BadResponse(AduParseError::InsufficientBytes) }
}
impl From<scursor::ReadError> for RequestError {
fn from(_p0: scursor::ReadError) -> (r: Self)
{
        RequestError::BadResponse(AduParseError::InsufficientBytes)
    }
}
impl FromSpecImpl<scursor::TrailingBytes> for RequestError {
    open spec fn obeys_from_spec() -> bool { true }
    open spec fn from_spec(x: scursor::TrailingBytes) -> Self { RequestError::BadResponse(AduParseError::TrailingBytes(x.count.v)) }
}
impl From<scursor::TrailingBytes> for RequestError {
fn from(x: scursor::TrailingBytes) -> (r: Self)
{
        RequestError::BadResponse(AduParseError::TrailingBytes(x.count.get()))
    }
}

}
pub mod constants {
    pub mod coil {
    pub const ON: u16 = 0xFF00;
    pub const OFF: u16 = 0x0000;
    }
    pub mod limits {
    pub const MAX_READ_COILS_COUNT: u16 = 0x07D0;
    pub const MAX_READ_REGISTERS_COUNT: u16 = 0x007D;
    pub const MAX_WRITE_COILS_COUNT: u16 = 0x07B0;
    pub const MAX_WRITE_REGISTERS_COUNT: u16 = 0x007B;
    }
    pub mod exceptions {
    pub const ILLEGAL_FUNCTION: u8 = 0x01;
    pub const ILLEGAL_DATA_ADDRESS: u8 = 0x02;
    pub const ILLEGAL_DATA_VALUE: u8 = 0x03;
    pub const SERVER_DEVICE_FAILURE: u8 = 0x04;
    pub const ACKNOWLEDGE: u8 = 0x05;
    pub const SERVER_DEVICE_BUSY: u8 = 0x06;
    pub const MEMORY_PARITY_ERROR: u8 = 0x08;
    pub const GATEWAY_PATH_UNAVAILABLE: u8 = 0x0A;
    pub const GATEWAY_TARGET_DEVICE_FAILED_TO_RESPOND: u8 = 0x0B;
    }

}
pub mod exception {
use vstd::prelude::*;
use vstd::std_specs::convert::FromSpecImpl;

#[derive(Clone, Copy, PartialEq, Eq)]
pub enum ExceptionCode {
    
    IllegalFunction,
    
    IllegalDataAddress,
    
    IllegalDataValue,

    ServerDeviceFailure,

    Acknowledge,

    ServerDeviceBusy,

    MemoryParityError,

    GatewayPathUnavailable,

    GatewayTargetDeviceFailedToRespond,
    
    Unknown(u8),
}

// the protocol's exception table, written from the Modbus specification (not from constants.rs)
pub open spec fn spec_exception_of(v: u8) -> ExceptionCode {
    if v == 1 { ExceptionCode::IllegalFunction }
    else if v == 2 { ExceptionCode::IllegalDataAddress }
    else if v == 3 { ExceptionCode::IllegalDataValue }
    else if v == 4 { ExceptionCode::ServerDeviceFailure }
    else if v == 5 { ExceptionCode::Acknowledge }
    else if v == 6 { ExceptionCode::ServerDeviceBusy }
    else if v == 8 { ExceptionCode::MemoryParityError }
    else if v == 10 { ExceptionCode::GatewayPathUnavailable }
    else if v == 11 { ExceptionCode::GatewayTargetDeviceFailedToRespond }
    else { ExceptionCode::Unknown(v) }
}
pub open spec fn spec_exception_value(e: ExceptionCode) -> u8 {
    match e {
        ExceptionCode::IllegalFunction => 1,
        ExceptionCode::IllegalDataAddress => 2,
        ExceptionCode::IllegalDataValue => 3,
        ExceptionCode::ServerDeviceFailure => 4,
        ExceptionCode::Acknowledge => 5,
        ExceptionCode::ServerDeviceBusy => 6,
        ExceptionCode::MemoryParityError => 8,
        ExceptionCode::GatewayPathUnavailable => 10,
        ExceptionCode::GatewayTargetDeviceFailedToRespond => 11,
        ExceptionCode::Unknown(v) => v,
    }
}
// what goes on the wire comes back as the same code (C04: "yields exactly that exception code")
pub proof fn lemma_exception_roundtrip(v: u8)
    ensures spec_exception_value(spec_exception_of(v)) == v
{}

impl FromSpecImpl<u8> for ExceptionCode {
    open spec fn obeys_from_spec() -> bool { true }
    open spec fn from_spec(value: u8) -> Self { spec_exception_of(value) }
}
impl From<u8> for ExceptionCode {
fn from(value: u8) -> (r: Self)
{
        match value {
            crate::constants::exceptions::ILLEGAL_FUNCTION => ExceptionCode::IllegalFunction,
            crate::constants::exceptions::ILLEGAL_DATA_ADDRESS => ExceptionCode::IllegalDataAddress,
            crate::constants::exceptions::ILLEGAL_DATA_VALUE => ExceptionCode::IllegalDataValue,
            crate::constants::exceptions::SERVER_DEVICE_FAILURE => {
                ExceptionCode::ServerDeviceFailure
            }
            crate::constants::exceptions::ACKNOWLEDGE => ExceptionCode::Acknowledge,
            crate::constants::exceptions::SERVER_DEVICE_BUSY => ExceptionCode::ServerDeviceBusy,
            crate::constants::exceptions::MEMORY_PARITY_ERROR => ExceptionCode::MemoryParityError,
            crate::constants::exceptions::GATEWAY_PATH_UNAVAILABLE => {
                ExceptionCode::GatewayPathUnavailable
            }
            crate::constants::exceptions::GATEWAY_TARGET_DEVICE_FAILED_TO_RESPOND => {
                ExceptionCode::GatewayTargetDeviceFailedToRespond
            }
            _ => ExceptionCode::Unknown(value),
        }
    }
}
impl FromSpecImpl<ExceptionCode> for u8 {
    open spec fn obeys_from_spec() -> bool { true }
    open spec fn from_spec(ex: ExceptionCode) -> Self { spec_exception_value(ex) }
}
impl From<ExceptionCode> for u8 {
fn from(ex: ExceptionCode) -> (r: Self)
{
        match ex {
            ExceptionCode::IllegalFunction => crate::constants::exceptions::ILLEGAL_FUNCTION,
            ExceptionCode::IllegalDataAddress => crate::constants::exceptions::ILLEGAL_DATA_ADDRESS,
            ExceptionCode::IllegalDataValue => crate::constants::exceptions::ILLEGAL_DATA_VALUE,
            ExceptionCode::ServerDeviceFailure => {
                crate::constants::exceptions::SERVER_DEVICE_FAILURE
            }
            ExceptionCode::Acknowledge => crate::constants::exceptions::ACKNOWLEDGE,
            ExceptionCode::ServerDeviceBusy => crate::constants::exceptions::SERVER_DEVICE_BUSY,
            ExceptionCode::MemoryParityError => crate::constants::exceptions::MEMORY_PARITY_ERROR,
            ExceptionCode::GatewayPathUnavailable => {
                crate::constants::exceptions::GATEWAY_PATH_UNAVAILABLE
            }
            ExceptionCode::GatewayTargetDeviceFailedToRespond => {
                crate::constants::exceptions::GATEWAY_TARGET_DEVICE_FAILED_TO_RESPOND
            }
            ExceptionCode::Unknown(value) => value,
        }
    }
}

}
pub mod types {
use vstd::prelude::*;
use crate::error::*;
use crate::shims::scursor::ReadCursor;
use crate::be16;

#[derive(Clone, Copy)]
pub struct UnitId {
    
    pub value: u8,
}
impl vstd::std_specs::cmp::PartialEqSpecImpl for UnitId {
    open spec fn obeys_eq_spec() -> bool { true }
    open spec fn eq_spec(&self, other: &Self) -> bool { self.value == other.value }
}
impl PartialEq for UnitId { fn eq(&self, other: &Self) -> bool { self.value == other.value } }

#[derive(Clone, Copy)]
pub struct AddressRange {
    
    pub start: u16,
    
    pub count: u16,
}
impl vstd::std_specs::cmp::PartialEqSpecImpl for AddressRange {
    open spec fn obeys_eq_spec() -> bool { true }
    open spec fn eq_spec(&self, other: &Self) -> bool { self.start == other.start && self.count == other.count }
}
impl PartialEq for AddressRange { fn eq(&self, other: &Self) -> bool { self.start == other.start && self.count == other.count } }

#[derive(Clone, Copy, PartialEq)]
pub struct ReadBitsRange {
    pub inner: AddressRange,
}
#[derive(Clone, Copy, PartialEq)]
pub struct ReadRegistersRange {
    pub inner: AddressRange,
}
#[derive(Clone, Copy)]
pub struct Indexed<T> {
    
    pub index: u16,
    
    pub value: T,
}
impl<T: PartialEq> vstd::std_specs::cmp::PartialEqSpecImpl for Indexed<T> {
    open spec fn obeys_eq_spec() -> bool { true }
    open spec fn eq_spec(&self, other: &Self) -> bool { *self == *other }
}
impl<T: PartialEq> PartialEq for Indexed<T> { #[verifier::external_body] fn eq(&self, other: &Self) -> bool { unimplemented!() } }

#[derive(Copy, Clone)]
pub struct BitIterator<'a> {
    pub bytes: &'a [u8],
    pub range: AddressRange,
    pub pos: u16,
}
pub struct AddressIterator {
    pub current: u16,
    pub remain: u16,
}
#[derive(Default, Clone, Copy, PartialEq, Eq)]
pub enum ChannelLoggingMode {

    #[default]
    Verbose,

    StateChanges,
}
#[derive(Copy, Clone)]
pub struct RegisterIterator<'a> {
    pub bytes: &'a [u8],
    pub range: AddressRange,
    pub pos: u16,
}

// ---- specification vocabulary (from the property statements) ----
// a range is valid iff it is non-empty and does not run past address 0xFFFF
pub open spec fn valid_range(start: u16, count: u16) -> bool {
    count != 0 && start as int + count as int <= 65536
}
// LSB-first bit numbering: bit b of a byte has the value 2^b
pub open spec fn spec_bit_of_byte(byte: u8, b: u8) -> bool { byte & (1u8 << b) != 0 }
pub open spec fn spec_bit(bytes: Seq<u8>, i: int) -> bool { spec_bit_of_byte(bytes[i / 8], (i % 8) as u8) }
// (the same thing in arithmetic, so that the bitwise definition cannot hide a different numbering)
pub proof fn lemma_bit_is_lsb_first(byte: u8, b: u8)
    requires b < 8
    ensures spec_bit_of_byte(byte, b) == ((byte >> b) & 1u8 == 1u8)
{
    assert((byte & (1u8 << b) != 0) == ((byte >> b) & 1u8 == 1u8)) by (bit_vector) requires b < 8;
}

impl ReadBitsRange {
    pub fn get(self) -> (r: AddressRange)
    ensures r == self.inner,
{
        self.inner
    }
}
impl ReadRegistersRange {
    pub fn get(self) -> (r: AddressRange)
    ensures r == self.inner,
{
        self.inner
    }
}

impl<T> Indexed<T> {
    pub fn new(index: u16, value: T) -> (r: Self)
    ensures r.index == index, r.value == value,
{
        Indexed { index, value }
    }
}

impl UnitId {
    pub fn new(value: u8) -> (r: Self)
    ensures r.value == value,
{
        Self { value }
    }
    pub fn broadcast() -> (r: Self)
    ensures r.value == 0,
{
        Self { value: 0x00 }
    }
    
    pub fn is_rtu_reserved(&self) -> (r: bool)
    ensures r == (self.value >= 248),
{
        self.value >= 248
    }
}

pub fn coil_from_u16(value: u16) -> (r: Result<bool, AduParseError>)
    ensures value == 0xFF00 ==> r == Ok::<bool, AduParseError>(true),
            value == 0x0000 ==> r == Ok::<bool, AduParseError>(false),
            (value != 0xFF00 && value != 0) ==> r == Err::<bool, AduParseError>(AduParseError::UnknownCoilState(value)),
{
    match value {
        crate::constants::coil::ON => Ok(true),
        crate::constants::coil::OFF => Ok(false),
        _ => Err(AduParseError::UnknownCoilState(value)),
    }
}
pub fn coil_to_u16(value: bool) -> (r: u16)
    ensures r == (if value { 0xFF00u16 } else { 0u16 }),
{
    if value {
        crate::constants::coil::ON
    } else {
        crate::constants::coil::OFF
    }
}

impl AddressRange {
    pub open spec fn wf(&self) -> bool { valid_range(self.start, self.count) }

    pub fn try_from(start: u16, count: u16) -> (r: Result<Self, InvalidRange>)
    ensures
        r is Ok <==> valid_range(start, count),
        r is Ok ==> r->Ok_0.start == start && r->Ok_0.count == count && r->Ok_0.wf(),
        count == 0 ==> r == Err::<AddressRange, InvalidRange>(InvalidRange::CountOfZero),
        (count != 0 && !valid_range(start, count)) ==> r == Err::<AddressRange, InvalidRange>(InvalidRange::AddressOverflow(start, count)),
{
        if count == 0 {
            return Err(InvalidRange::CountOfZero);
        }

        let max_start = u16::MAX - (count - 1);

        if start > max_start {
            return Err(InvalidRange::AddressOverflow(start, count));
        }

        Ok(Self { start, count })
    }

    pub fn to_std_range(self) -> (r: std::ops::Range<usize>)
    ensures r.start == self.start as usize, r.end == self.start as usize + self.count as usize,
{
        let start = self.start as usize;
        let end = start + (self.count as usize);
        start..end
    }

pub fn iter(&self) -> (r: AddressIterator)
    requires self.wf(),
    ensures r.current == self.start, r.remain == self.count, r.wf(),
{
        AddressIterator::new(self.start, self.count)
    }

// [C03] empty or address-overflowing ranges are rejected here too: the fields of AddressRange are public, so a value that did not come
// from try_from may reach the request API
pub fn of_read_bits(self) -> (r: Result<ReadBitsRange, InvalidRange>)
    ensures
        r is Ok <==> self.wf() && self.count <= 2000,   // limit taken from the property text, not from constants.rs
        r is Ok ==> r->Ok_0.inner == self,
        (self.wf() && r is Err) ==> r->Err_0 == InvalidRange::CountTooLargeForType(self.count, 2000),
{
        Ok(ReadBitsRange {
            inner: (match self.limited_count(crate::constants::limits::MAX_READ_COILS_COUNT) { Ok(v__) => v__, Err(e__) => { return Err(e__) } }),
        })
    }

pub fn of_read_registers(self) -> (r: Result<ReadRegistersRange, InvalidRange>)
    ensures
        r is Ok <==> self.wf() && self.count <= 125,
        r is Ok ==> r->Ok_0.inner == self,
        (self.wf() && r is Err) ==> r->Err_0 == InvalidRange::CountTooLargeForType(self.count, 125),
{
        Ok(ReadRegistersRange {
            inner: (match self.limited_count(crate::constants::limits::MAX_READ_REGISTERS_COUNT) { Ok(v__) => v__, Err(e__) => { return Err(e__) } }),
        })
    }

pub fn limited_count(self, limit: u16) -> (r: Result<Self, InvalidRange>)
    ensures
        r is Ok <==> self.wf() && self.count <= limit,
        r is Ok ==> r->Ok_0 == self,
        (self.wf() && r is Err) ==> r->Err_0 == InvalidRange::CountTooLargeForType(self.count, limit),
{
        // the fields are public, so a range built as a struct literal was never validated
        let range = (match Self::try_from(self.start, self.count) { Ok(v__) => v__, Err(e__) => { return Err(e__) } });
        if range.count > limit {
            return Err(InvalidRange::CountTooLargeForType(range.count, limit));
        }
        Ok(range)
    }
}

impl AddressIterator {
    // the addresses still to be produced do not run past 0xFFFF
    pub open spec fn wf(&self) -> bool { self.current as int + self.remain as int <= 65536 }

pub fn new(current: u16, remain: u16) -> (r: Self)
    ensures r.current == current, r.remain == remain,
{
        Self { current, remain }
    }

// R5: `impl Iterator for AddressIterator { fn next }` emitted as an inherent method (Verus forbids `requires` on trait impls);
// an inherent method shadows the trait method at every call site, so `it.next()` in the callers is unchanged.
pub fn next(&mut self) -> (r: Option<u16>)
    requires old(self).wf(),
    ensures
        final(self).wf(),
        old(self).remain == 0 ==> r is None && *final(self) == *old(self),
        old(self).remain > 0 ==> r == Some(old(self).current)
            && final(self).remain == old(self).remain - 1
            && final(self).current as int == (old(self).current as int + 1) % 65536,
{
        match self.remain.checked_sub(1) {
            Some(x) => {
                let ret = self.current;
                self.current = self.current.wrapping_add(1);
                self.remain = x;
                Some(ret)
            }
            None => None,
        }
    }
}

impl<'a> RegisterIterator<'a> {
    // established by parse_all: a valid range, exactly 2*count bytes
    pub open spec fn wf(&self) -> bool {
        self.range.wf() && self.pos <= self.range.count && self.bytes@.len() as int == 2 * self.range.count as int
    }
    // the k-th register of the payload, big-endian, at address start+k
    pub open spec fn spec_item(&self, k: int) -> Indexed<u16> {
        Indexed { index: (self.range.start as int + k) as u16, value: be16(self.bytes@, 2 * k) as u16 }
    }
    // all values, in order (what the handler / the caller of the client API receives)
    pub open spec fn spec_values(&self) -> Seq<u16> { Seq::new(self.range.count as nat, |k: int| be16(self.bytes@, 2 * k) as u16) }

// exact-length parse: the body must be exactly 2*count bytes [C01,C04]
pub fn parse_all(
        range: AddressRange,
        cursor: &'a mut ReadCursor,
    ) -> (r: Result<Self, RequestError>)
    requires old(cursor).wf(),
    ensures final(cursor).wf(),
        r is Ok <==> old(cursor).rest().len() == 2 * range.count as int,
        r is Ok ==> r->Ok_0.range == range && r->Ok_0.pos == 0 && r->Ok_0.bytes@ == old(cursor).rest() && (range.wf() ==> r->Ok_0.wf()),
        r is Err ==> r->Err_0 is BadResponse,
{
        let bytes = (match cursor.read_bytes(2 * (range.count as usize)) { Ok(v__) => v__, Err(e__) => { return Err(From::from(e__)) } });
        (match cursor.expect_empty() { Ok(v__) => v__, Err(e__) => { return Err(From::from(e__)) } });
        Ok(Self {
            bytes,
            range,
            pos: 0,
        })
    }

// (slice pattern `Some([high, low])` is outside the Verus subset: the body is decided by Kani, harness k_register_iterator_next
//  [complete for every payload of 1..=125 registers and every position]; only the contract is used by Verus callers)
#[verifier::external_body]
pub fn next(&mut self) -> (r: Option<Indexed<u16>>)
    requires old(self).wf(),
    ensures
        final(self).wf(),
        final(self).bytes@ == old(self).bytes@, final(self).range == old(self).range,
        old(self).pos == old(self).range.count ==> r is None && final(self).pos == old(self).pos,
        old(self).pos < old(self).range.count ==> r == Some(old(self).spec_item(old(self).pos as int))
            && final(self).pos == old(self).pos + 1,
{ unimplemented!() }
}

impl<'a> BitIterator<'a> {
    pub open spec fn spec_values(&self) -> Seq<bool> { Seq::new(self.range.count as nat, |k: int| spec_bit(self.bytes@, k)) }

// exact-length parse: the body must be exactly ceil(count/8) bytes [C01,C04]
pub fn parse_all(
        range: AddressRange,
        cursor: &'a mut ReadCursor,
    ) -> (r: Result<Self, RequestError>)
    requires old(cursor).wf(),
    ensures final(cursor).wf(),
        r is Ok <==> old(cursor).rest().len() == (range.count as int + 7) / 8,
        r is Ok ==> r->Ok_0.range == range && r->Ok_0.pos == 0 && r->Ok_0.bytes@ == old(cursor).rest() && (range.wf() ==> r->Ok_0.wf()),
        r is Err ==> r->Err_0 is BadResponse,
{
        let bytes = (match cursor.read_bytes(crate::common::bits::num_bytes_for_bits(range.count)) { Ok(v__) => v__, Err(e__) => { return Err(From::from(e__)) } });
        (match cursor.expect_empty() { Ok(v__) => v__, Err(e__) => { return Err(From::from(e__)) } });
        Ok(Self {
            bytes,
            range,
            pos: 0,
        })
    }

    // established by parse_all: a valid range, exactly ceil(count/8) bytes
    pub open spec fn wf(&self) -> bool {
        self.range.wf() && self.pos <= self.range.count
        && self.bytes@.len() as int == (self.range.count as int + 7) / 8
    }
    // the values still to be yielded, in order: (start+pos+k, bit pos+k of the body)
    pub open spec fn spec_item(&self, k: int) -> Indexed<bool> {
        Indexed { index: (self.range.start as int + k) as u16, value: spec_bit(self.bytes@, k) }
    }

pub fn next(&mut self) -> (r: Option<Indexed<bool>>)
    requires old(self).wf(),
    ensures
        final(self).wf(),
        final(self).bytes@ == old(self).bytes@, final(self).range == old(self).range,
        old(self).pos == old(self).range.count ==> r is None && final(self).pos == old(self).pos,
        old(self).pos < old(self).range.count ==> r == Some(old(self).spec_item(old(self).pos as int))
            && final(self).pos == old(self).pos + 1,
{
        if self.pos == self.range.count {
            return None;
        }
        let byte = self.pos / 8;
        let bit = (self.pos % 8) as u8;

        match self.bytes.get(byte as usize) {
            Some(value) => {
                let bit = (*value & (1 << bit)) != 0;
                let address = self.range.start + self.pos;
                self.pos += 1;
                Some(Indexed::new(address, bit))
            }
            None => None,
        }
    }
}

}

pub mod shims {
    pub mod scursor {
// ---- shim of the `scursor` crate (trusted model of its documented behaviour; cross-checked against the real crate by the Kani
// conformance harnesses, and every Kani harness of rodbus functions runs on the REAL scursor) ----
use vstd::prelude::*;
use vstd::slice::slice_subrange;

pub struct ReadError;
pub struct Count { pub v: usize }
impl Count { pub fn get(self) -> (r: usize) ensures r == self.v, { self.v } }
pub struct TrailingBytes { pub count: Count }

// a read cursor over a byte slice: `rest` = the bytes not yet consumed
pub struct ReadCursor<'a> { pub input: &'a [u8], pub pos: usize }
impl<'a> ReadCursor<'a> {
    pub open spec fn wf(&self) -> bool { self.pos <= self.input@.len() }
    pub open spec fn rest(&self) -> Seq<u8> { self.input@.subrange(self.pos as int, self.input@.len() as int) }

    pub fn new(input: &'a [u8]) -> (r: Self) ensures r.wf(), r.rest() == input@, { Self { pos: 0, input } }

    pub fn read_u8(&mut self) -> (r: Result<u8, ReadError>)
        requires old(self).wf(),
        ensures final(self).wf(), final(self).input == old(self).input,
            r is Ok <==> old(self).rest().len() >= 1,
            r is Ok ==> r->Ok_0 == old(self).rest()[0] && final(self).rest() == old(self).rest().subrange(1, old(self).rest().len() as int),
            r is Err ==> final(self).rest() == old(self).rest(),
    {
        if self.pos < self.input.len() { let v = self.input[self.pos]; self.pos = self.pos + 1; Ok(v) } else { Err(ReadError) }
    }
    pub fn read_u16_be(&mut self) -> (r: Result<u16, ReadError>)
        requires old(self).wf(),
        ensures final(self).wf(), final(self).input == old(self).input,
            r is Ok <==> old(self).rest().len() >= 2,
            r is Ok ==> r->Ok_0 as int == old(self).rest()[0] as int * 256 + old(self).rest()[1] as int
                && final(self).rest() == old(self).rest().subrange(2, old(self).rest().len() as int),
            r is Err ==> final(self).rest() == old(self).rest(),
    {
        if self.input.len() - self.pos >= 2 {
            let hi = self.input[self.pos] as u16; let lo = self.input[self.pos + 1] as u16;
            self.pos = self.pos + 2;
            assert((hi << 8) | lo == hi * 256 + lo) by (bit_vector) requires hi < 256, lo < 256;
            Ok((hi << 8) | lo)
        } else { Err(ReadError) }
    }
    pub fn read_bytes(&mut self, count: usize) -> (r: Result<&'a [u8], ReadError>)
        requires old(self).wf(),
        ensures final(self).wf(), final(self).input == old(self).input,
            r is Ok <==> count <= old(self).rest().len(),
            r is Ok ==> r->Ok_0@ == old(self).rest().subrange(0, count as int)
                && final(self).rest() == old(self).rest().subrange(count as int, old(self).rest().len() as int),
            r is Err ==> final(self).rest() == old(self).rest(),
    {
        if count <= self.input.len() - self.pos {
            let ret = slice_subrange(self.input, self.pos, self.pos + count);
            self.pos = self.pos + count;
            Ok(ret)
        } else { Err(ReadError) }
    }
    pub fn expect_empty(&self) -> (r: Result<(), TrailingBytes>)
        requires self.wf(),
        ensures r is Ok <==> self.rest().len() == 0,
            r is Err ==> r->Err_0.count.v == self.rest().len(),
    {
        if self.input.len() - self.pos == 0 { Ok(()) } else { Err(TrailingBytes { count: Count { v: self.input.len() - self.pos } }) }
    }
    pub fn remaining(&self) -> (r: usize) requires self.wf(), ensures r == self.rest().len(), { self.input.len() - self.pos }
    pub fn is_empty(&self) -> (r: bool) requires self.wf(), ensures r == (self.rest().len() == 0), { self.input.len() - self.pos == 0 }
}

pub enum WriteError {
    NumericOverflow,
    WriteOverflow { remaining: usize, written: usize },
    BadSeek { length: usize, pos: usize },
}

// a write cursor over a mutable byte slice.  `buf()` is the whole underlying buffer, `pos` the write position;
// the last clause of every contract says the cursor keeps writing into the same borrowed memory (prophecy of the &mut)
pub struct WriteCursor<'a> { pub dest: &'a mut [u8], pub pos: usize }
impl<'a> WriteCursor<'a> {
    pub open spec fn wf(&self) -> bool { self.pos <= self.dest@.len() }
    pub open spec fn buf(&self) -> Seq<u8> { self.dest@ }
    pub open spec fn cap(&self) -> nat { self.dest@.len() }

    pub fn new(dest: &'a mut [u8]) -> (r: WriteCursor<'a>)
        ensures r.pos == 0, r.wf(), r.buf() == old(dest)@, final(r.dest)@ == final(dest)@,
    { WriteCursor { dest, pos: 0 } }

    pub fn position(&self) -> (r: usize) ensures r == self.pos, { self.pos }

    pub fn get(&self, range: core::ops::Range<usize>) -> (r: Option<&[u8]>)
        ensures r is Some <==> (range.start <= range.end && range.end <= self.cap()),
            r is Some ==> r->Some_0@ == self.buf().subrange(range.start as int, range.end as int),
    {
        if range.start <= range.end && range.end <= self.dest.len() { Some(slice_subrange(self.dest, range.start, range.end)) } else { None }
    }

    pub fn skip(&mut self, count: usize) -> (r: Result<(), WriteError>)
        requires old(self).wf(),
        ensures final(self).wf(), final(self).buf() == old(self).buf(), final(final(self).dest)@ == final(old(self).dest)@,
            r is Ok <==> old(self).pos + count <= old(self).cap(),
            r is Ok ==> final(self).pos == old(self).pos + count,
            r is Err ==> final(self).pos == old(self).pos,
    {
        if count <= self.dest.len() - self.pos { self.pos = self.pos + count; Ok(()) } else { Err(WriteError::NumericOverflow) }
    }
    pub fn seek_to(&mut self, pos: usize) -> (r: Result<(), WriteError>)
        ensures final(self).buf() == old(self).buf(), final(final(self).dest)@ == final(old(self).dest)@,
            r is Ok <==> pos <= old(self).cap(),
            r is Ok ==> final(self).pos == pos,
            r is Err ==> final(self).pos == old(self).pos,
    {
        if pos <= self.dest.len() { self.pos = pos; Ok(()) } else { Err(WriteError::BadSeek { length: self.dest.len(), pos }) }
    }
    pub fn write_u8(&mut self, value: u8) -> (r: Result<(), WriteError>)
        requires old(self).wf(),
        ensures final(self).wf(), final(self).cap() == old(self).cap(), final(final(self).dest)@ == final(old(self).dest)@,
            r is Ok <==> old(self).pos < old(self).cap(),
            r is Ok ==> final(self).pos == old(self).pos + 1 && final(self).buf() == old(self).buf().update(old(self).pos as int, value),
            r is Err ==> final(self).pos == old(self).pos && final(self).buf() == old(self).buf(),   // a failed write has no effect
    {
        if self.pos < self.dest.len() { self.dest[self.pos] = value; self.pos = self.pos + 1; Ok(()) }
        else { Err(WriteError::WriteOverflow { remaining: 0, written: 1 }) }
    }
    pub fn write_u16_be(&mut self, value: u16) -> (r: Result<(), WriteError>)
        requires old(self).wf(),
        ensures final(self).wf(), final(self).cap() == old(self).cap(), final(final(self).dest)@ == final(old(self).dest)@,
            r is Ok <==> old(self).pos + 2 <= old(self).cap(),
            r is Ok ==> final(self).pos == old(self).pos + 2
                && final(self).buf() == old(self).buf().update(old(self).pos as int, (value / 256) as u8).update(old(self).pos + 1, (value % 256) as u8),
            r is Err ==> final(self).pos == old(self).pos && final(self).buf() == old(self).buf(),
    {
        if self.dest.len() - self.pos >= 2 {
            self.dest[self.pos] = (value / 256) as u8; self.dest[self.pos + 1] = (value % 256) as u8; self.pos = self.pos + 2; Ok(())
        } else { Err(WriteError::WriteOverflow { remaining: self.dest.len() - self.pos, written: 2 }) }
    }
    pub fn write_u16_le(&mut self, value: u16) -> (r: Result<(), WriteError>)
        requires old(self).wf(),
        ensures final(self).wf(), final(self).cap() == old(self).cap(), final(final(self).dest)@ == final(old(self).dest)@,
            r is Ok <==> old(self).pos + 2 <= old(self).cap(),
            r is Ok ==> final(self).pos == old(self).pos + 2
                && final(self).buf() == old(self).buf().update(old(self).pos as int, (value % 256) as u8).update(old(self).pos + 1, (value / 256) as u8),
            r is Err ==> final(self).pos == old(self).pos && final(self).buf() == old(self).buf(),
    {
        if self.dest.len() - self.pos >= 2 {
            self.dest[self.pos] = (value % 256) as u8; self.dest[self.pos + 1] = (value / 256) as u8; self.pos = self.pos + 2; Ok(())
        } else { Err(WriteError::WriteOverflow { remaining: self.dest.len() - self.pos, written: 2 }) }
    }
}
// "cursor `n` extends cursor `o` by exactly the bytes `out`" - the frame condition of every serializer
pub open spec fn appended(o: &WriteCursor, n: &WriteCursor, out: Seq<u8>) -> bool {
    n.wf() && n.cap() == o.cap() && n.pos == o.pos + out.len()
    && (forall|i: int| 0 <= i < o.pos ==> #[trigger] n.buf()[i] == o.buf()[i])
    && (forall|i: int| 0 <= i < out.len() ==> #[trigger] n.buf()[o.pos + i] == out[i])
}
// updating a byte outside [a, b) does not change that sub-range (pure sequence fact)
pub broadcast proof fn lemma_subrange_update_outside(s: Seq<u8>, i: int, v: u8, a: int, b: int)
    requires 0 <= a <= b <= s.len(), 0 <= i < s.len(), i < a || b <= i,
    ensures #[trigger] s.update(i, v).subrange(a, b) == s.subrange(a, b)
{
    assert(s.update(i, v).subrange(a, b) =~= s.subrange(a, b));
}

    }
}
pub mod common {
    pub mod bits {
use vstd::prelude::*;
pub fn num_bytes_for_bits(count: u16) -> (r: usize)
    ensures r as int == (count as int + 7) / 8, r <= 8192,
{
    (count as usize).div_ceil(8)
}

    }
    pub mod function {
use vstd::prelude::*;
pub mod constants {
pub const READ_COILS: u8 = 1;
pub const READ_DISCRETE_INPUTS: u8 = 2;
pub const READ_HOLDING_REGISTERS: u8 = 3;
pub const READ_INPUT_REGISTERS: u8 = 4;
pub const WRITE_SINGLE_COIL: u8 = 5;
pub const WRITE_SINGLE_REGISTER: u8 = 6;
pub const WRITE_MULTIPLE_COILS: u8 = 15;
pub const WRITE_MULTIPLE_REGISTERS: u8 = 16;
}
#[derive(Copy, Clone, PartialEq)]
#[repr(u8)]
pub enum FunctionCode {
    ReadCoils = constants::READ_COILS,
    ReadDiscreteInputs = constants::READ_DISCRETE_INPUTS,
    ReadHoldingRegisters = constants::READ_HOLDING_REGISTERS,
    ReadInputRegisters = constants::READ_INPUT_REGISTERS,
    WriteSingleCoil = constants::WRITE_SINGLE_COIL,
    WriteSingleRegister = constants::WRITE_SINGLE_REGISTER,
    WriteMultipleCoils = constants::WRITE_MULTIPLE_COILS,
    WriteMultipleRegisters = constants::WRITE_MULTIPLE_REGISTERS,
}

// the eight public function codes of the Modbus application protocol (from the specification)
pub open spec fn spec_fc_value(f: FunctionCode) -> u8 {
    match f {
        FunctionCode::ReadCoils => 1,
        FunctionCode::ReadDiscreteInputs => 2,
        FunctionCode::ReadHoldingRegisters => 3,
        FunctionCode::ReadInputRegisters => 4,
        FunctionCode::WriteSingleCoil => 5,
        FunctionCode::WriteSingleRegister => 6,
        FunctionCode::WriteMultipleCoils => 15,
        FunctionCode::WriteMultipleRegisters => 16,
    }
}
pub open spec fn spec_fc_of(v: u8) -> Option<FunctionCode> {
    if v == 1 { Some(FunctionCode::ReadCoils) }
    else if v == 2 { Some(FunctionCode::ReadDiscreteInputs) }
    else if v == 3 { Some(FunctionCode::ReadHoldingRegisters) }
    else if v == 4 { Some(FunctionCode::ReadInputRegisters) }
    else if v == 5 { Some(FunctionCode::WriteSingleCoil) }
    else if v == 6 { Some(FunctionCode::WriteSingleRegister) }
    else if v == 15 { Some(FunctionCode::WriteMultipleCoils) }
    else if v == 16 { Some(FunctionCode::WriteMultipleRegisters) }
    else { None }
}
impl FunctionCode {
pub const fn get_value(self) -> (r: u8)
    ensures r == spec_fc_value(self),
{
        self as u8
    }
pub const fn as_error(self) -> (r: u8)
    ensures r == spec_fc_value(self) | 0x80,
{
        self.get_value() | 0x80
    }
pub fn get(value: u8) -> (r: Option<Self>)
    ensures r == spec_fc_of(value),
{
        match value {
            constants::READ_COILS => Some(FunctionCode::ReadCoils),
            constants::READ_DISCRETE_INPUTS => Some(FunctionCode::ReadDiscreteInputs),
            constants::READ_HOLDING_REGISTERS => Some(FunctionCode::ReadHoldingRegisters),
            constants::READ_INPUT_REGISTERS => Some(FunctionCode::ReadInputRegisters),
            constants::WRITE_SINGLE_COIL => Some(FunctionCode::WriteSingleCoil),
            constants::WRITE_SINGLE_REGISTER => Some(FunctionCode::WriteSingleRegister),
            constants::WRITE_MULTIPLE_COILS => Some(FunctionCode::WriteMultipleCoils),
            constants::WRITE_MULTIPLE_REGISTERS => Some(FunctionCode::WriteMultipleRegisters),
            _ => None,
        }
    }
}

    }
}
} // verus!
fn main() {}

