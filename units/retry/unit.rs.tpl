use vstd::prelude::*;
use vstd::arithmetic::power2::*;
verus! {
// C14, arithmetic part.  The single-step behaviour of the real `Doubling` strategy
//   after_failed_connect: returns `current`, then current := min(2*current, max)      reset: current := min
// is decided on the real code, for every Duration, by the Kani harnesses k_doubling_* (complete).
// This unit proves what the property states about the whole sequence from that step function.

pub open spec fn step(c: nat, max: nat) -> nat { if 2 * c <= max { 2 * c } else { max } }

// the delay returned by the k-th consecutive after_failed_connect since the last reset (k >= 1)
pub open spec fn kth_delay(min: nat, max: nat, k: nat) -> nat
    decreases k
{
    if k <= 1 { min } else { step(kth_delay(min, max, (k - 1) as nat), max) }
}

pub open spec fn capped(x: nat, max: nat) -> nat { if x <= max { x } else { max } }

// [C14] after the k-th consecutive failed connect the wait is min * 2^(k-1), capped at max
pub proof fn lemma_kth_delay(min: nat, max: nat, k: nat)
    requires min <= max, k >= 1,
    ensures kth_delay(min, max, k) == capped(min * pow2((k - 1) as nat), max),
            min <= kth_delay(min, max, k) <= max,
    decreases k
{
    if k == 1 {
        lemma2_to64();
        assert(pow2(0) == 1);
        assert(min * pow2(0) == min) by (nonlinear_arith) requires pow2(0) == 1;
    } else {
        lemma_kth_delay(min, max, (k - 1) as nat);
        let p = pow2((k - 2) as nat);
        lemma_pow2_unfold((k - 1) as nat);
        assert(pow2((k - 1) as nat) == 2 * p);
        assert(min * (2 * p) == 2 * (min * p)) by (nonlinear_arith);
    }
}
} // verus!
fn main() {}
