use vstd::prelude::*;
verus! {
//@include frag/std.tpl
//@include frag/core_modules.tpl
pub mod client {
    pub mod task {
//@include frag/client_task_core.tpl
    }
}
} // verus!
fn main() {}
