use vstd::prelude::*;
verus! {
//@include frag/std.tpl
//@include frag/core_modules.tpl
pub mod common {
    pub mod bits {
//@include frag/common_bits.tpl
    }
    pub mod function {
//@include frag/common_function.tpl
    }
}
pub mod shims {
    pub mod scursor {
//@include frag/scursor_shim.tpl
    }
}
pub mod client {
    pub mod task {
//@include frag/client_task_core.tpl
    }
}
} // verus!
fn main() {}
