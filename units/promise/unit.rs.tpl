use vstd::prelude::*;
verus! {
//@set promise
// C10 (and the `completion callback fires exactly once` clause of C18): the three real promise types of the client -
// client/message.rs Promise<T>, client/requests/read_bits.rs Promise, client/requests/read_registers.rs Promise - under contract.
// A promise owns its completion sink (a oneshot sender or a boxed callback) in `inner: Option<..>`.  The sink is consumed BY VALUE
// when it is used (oneshot::Sender::send(self, ..), FnOnce), so "at most once" is enforced by ownership, which the verifier's
// type / borrow checker re-checks on the extracted text; what the contracts add is
//   - a fresh promise is pending (inner is Some) with the sink it was given,
//   - failure / success / complete on a pending promise hand exactly the stated value to exactly that sink and leave the
//     promise completed (inner is None); on a completed promise they do nothing (first completion wins),
//   - Drop completes a still-pending promise with RequestError::Shutdown - the backstop that makes "never left pending" hold
//     for every path that merely drops a request.
// This is the proved counterpart of the ASSUMED `outcome()` contract of the promise shims in the client unit:
//   outcome() is None  <=>  inner is Some;   outcome() == Some(v)  <=>  the sink was handed v by the first completing call.
//@include frag/std.tpl
//@include frag/core_modules.tpl
pub mod common {
    pub mod bits {
//@include frag/common_bits.tpl
    }
    pub mod function {
//@include frag/common_function.tpl
    }
}
pub mod shims {
    pub mod scursor {
//@include frag/scursor_shim.tpl
    }
    pub mod tokio { pub mod sync { pub mod oneshot {
        use vstd::prelude::*;
        pub struct Sender<T> { pub ghost chan: int, pub _p: core::marker::PhantomData<T> }
        impl<T> Sender<T> {
            // fact: the value was handed to this channel; established only by `send`
            pub uninterp spec fn sent_with(&self, v: T) -> bool;
            #[verifier::external_body]
            pub fn send(self, t: T) -> (r: Result<(), T>)
                ensures self.sent_with(t),
            { unimplemented!() }
        }
    } } }
}
//@trusted tokio::sync::oneshot::Sender::send: consumes the sender and hands the value to the channel (whether the receiver still listens is not modelled)
//@trusted Box<dyn FnOnce(..)> callbacks: opaque shim values (R29); calling one consumes it and hands it the argument - what the application's callback then does is outside rodbus
pub mod client {
    pub mod message {
        use vstd::prelude::*;
        use crate::error::*;
        use crate::shims::tokio;
        // marker traits (trait aliases for `FnOnce(Result<T, RequestError>) + Send + Sync + 'static`; no behaviour)
        pub trait Callback<T> {}
        impl<F, T> Callback<T> for F {}
        pub struct BoxedCallback<T> { pub ghost id: int, pub _p: core::marker::PhantomData<T> }
        impl<T> BoxedCallback<T> {
            pub uninterp spec fn invoked_with(&self, v: Result<T, RequestError>) -> bool;
            #[verifier::external_body]
            pub fn new<F>(f: F) -> (r: Self) { unimplemented!() }
            #[verifier::external_body]
            pub fn invoke(self, v: Result<T, RequestError>)
                ensures self.invoked_with(v),
            { unimplemented!() }
        }
        pub type DynBox__<T> = BoxedCallback<T>;
//@item rodbus/src/client/message.rs | PromiseInner | sub=Box<dyn Callback<T>>=>BoxedCallback<T>
//@item rodbus/src/client/message.rs | Promise
        impl<T> PromiseInner<T> where T: Send + 'static {
            // the sink was handed exactly this value
            pub open spec fn fired(&self, v: Result<T, RequestError>) -> bool {
                match self {
                    PromiseInner::Oneshot(tx) => tx.sent_with(v),
                    PromiseInner::Boxed(cb) => cb.invoked_with(v),
                }
            }
        }
        impl<T> Promise<T> where T: Send + 'static {
            pub open spec fn pending(&self) -> bool { self.inner is Some }
// [C10] a fresh promise is pending
//@fn rodbus/src/client/message.rs | Promise<T>::new | tags=C10,C18 | r29
//@|    ensures r.pending(), r.inner->0 is Boxed,
//@fn rodbus/src/client/message.rs | Promise<T>::channel | tags=C10
//@|    ensures r.pending(), r.inner == Some(PromiseInner::Oneshot(tx)),
// [C10] first completion wins: a pending promise hands the value to its sink and becomes completed; a completed one does nothing
//@fn rodbus/src/client/message.rs | Promise<T>::complete | tags=C10,C18 | r29=callback
//@|    ensures !final(self).pending(),
//@|        old(self).pending() ==> old(self).inner->0.fired(result),
//@fn rodbus/src/client/message.rs | Promise<T>::failure | tags=C10,C18
//@|    ensures !final(self).pending(),
//@|        old(self).pending() ==> old(self).inner->0.fired(Err(err)),
//@fn rodbus/src/client/message.rs | Promise<T>::success | tags=C10,C18
//@|    ensures !final(self).pending(),
//@|        old(self).pending() ==> old(self).inner->0.fired(Ok(value)),
// [C10] the backstop: dropping a pending promise completes it with Shutdown (emitted as an inherent method: Verus cannot take a
// contract on Drop::drop)
//@fn rodbus/src/client/message.rs | Drop for Promise<T>::drop | tags=C10,C18 | inherent
//@|    ensures !final(self).pending(),
//@|        old(self).pending() ==> old(self).inner->0.fired(Err(RequestError::Shutdown)),
        }
    }
    pub mod requests {
        pub mod read_bits {
            use vstd::prelude::*;
            use crate::error::RequestError;
            use crate::types::{AddressRange, BitIterator, Indexed};
            use crate::shims::tokio;
            pub trait BitsCallback {}
            impl<T> BitsCallback for T {}
            pub struct BoxedBitsCallback { pub ghost id: int }
            impl BoxedBitsCallback {
                pub uninterp spec fn invoked_with(&self, v: Result<BitIterator, RequestError>) -> bool;
                #[verifier::external_body]
                pub fn new<F>(f: F) -> (r: Self) { unimplemented!() }
                #[verifier::external_body]
                pub fn invoke<'a>(self, v: Result<BitIterator<'a>, RequestError>)
                    ensures self.invoked_with(v),
                { unimplemented!() }
            }
            pub type DynBox__ = BoxedBitsCallback;
//@item rodbus/src/client/requests/read_bits.rs | PromiseInner | sub=Box<dyn BitsCallback>=>BoxedBitsCallback
//@item rodbus/src/client/requests/read_bits.rs | Promise
            impl Promise {
                pub open spec fn pending(&self) -> bool { self.inner is Some }
//@fn rodbus/src/client/requests/read_bits.rs | Promise::new | tags=C10,C18 | r29
//@|    ensures r.pending(), r.inner->0 is Boxed,
//@fn rodbus/src/client/requests/read_bits.rs | Promise::oneshot | tags=C10
//@|    ensures r.pending(), r.inner == Some(PromiseInner::Oneshot(tx)),
//@fn rodbus/src/client/requests/read_bits.rs | Promise::failure | tags=C10,C18 | r29=callback
//@|    ensures !final(self).pending(),
//@|        old(self).inner matches Some(PromiseInner::Oneshot(tx)) ==> tx.sent_with(Err(err)),
//@|        old(self).inner matches Some(PromiseInner::Boxed(cb)) ==> cb.invoked_with(Err(err)),
// [C04,C10] the future-style caller receives every value of the reply, indexed from the requested start; the callback-style
// caller receives the iterator itself
//@fn rodbus/src/client/requests/read_bits.rs | Promise::success | tags=C04,C10,C18 | r29=callback
//@|    requires iter.wf(), iter.pos == 0,
//@|    ensures !final(self).pending(),
//@|        old(self).inner matches Some(PromiseInner::Oneshot(tx)) ==> exists|v: Vec<Indexed<bool>>| #[trigger] tx.sent_with(Ok(v))
//@|            && v@ == Seq::new(iter.range.count as nat, |k: int| iter.spec_item(k)),
//@|        old(self).inner matches Some(PromiseInner::Boxed(cb)) ==> cb.invoked_with(Ok(iter)),
//@fn rodbus/src/client/requests/read_bits.rs | Drop for Promise::drop | tags=C10,C18 | inherent
//@|    ensures !final(self).pending(),
//@|        old(self).inner matches Some(PromiseInner::Oneshot(tx)) ==> tx.sent_with(Err(RequestError::Shutdown)),
//@|        old(self).inner matches Some(PromiseInner::Boxed(cb)) ==> cb.invoked_with(Err(RequestError::Shutdown)),
            }
        }
        pub mod read_registers {
            use vstd::prelude::*;
            use crate::error::RequestError;
            use crate::types::{AddressRange, RegisterIterator, Indexed};
            use crate::shims::tokio;
            pub trait RegistersCallback {}
            impl<T> RegistersCallback for T {}
            pub struct BoxedRegistersCallback { pub ghost id: int }
            impl BoxedRegistersCallback {
                pub uninterp spec fn invoked_with(&self, v: Result<RegisterIterator, RequestError>) -> bool;
                #[verifier::external_body]
                pub fn new<F>(f: F) -> (r: Self) { unimplemented!() }
                #[verifier::external_body]
                pub fn invoke<'a>(self, v: Result<RegisterIterator<'a>, RequestError>)
                    ensures self.invoked_with(v),
                { unimplemented!() }
            }
            pub type DynBox__ = BoxedRegistersCallback;
//@item rodbus/src/client/requests/read_registers.rs | PromiseInner | sub=Box<dyn RegistersCallback>=>BoxedRegistersCallback
//@item rodbus/src/client/requests/read_registers.rs | Promise
            impl Promise {
                pub open spec fn pending(&self) -> bool { self.inner is Some }
//@fn rodbus/src/client/requests/read_registers.rs | Promise::new | tags=C10,C18 | r29
//@|    ensures r.pending(), r.inner->0 is Boxed,
//@fn rodbus/src/client/requests/read_registers.rs | Promise::oneshot | tags=C10
//@|    ensures r.pending(), r.inner == Some(PromiseInner::Oneshot(tx)),
//@fn rodbus/src/client/requests/read_registers.rs | Promise::failure | tags=C10,C18 | r29=callback
//@|    ensures !final(self).pending(),
//@|        old(self).inner matches Some(PromiseInner::Oneshot(tx)) ==> tx.sent_with(Err(err)),
//@|        old(self).inner matches Some(PromiseInner::Boxed(cb)) ==> cb.invoked_with(Err(err)),
//@fn rodbus/src/client/requests/read_registers.rs | Promise::success | tags=C04,C10,C18 | r29=callback
//@|    requires iter.wf(), iter.pos == 0,
//@|    ensures !final(self).pending(),
//@|        old(self).inner matches Some(PromiseInner::Oneshot(tx)) ==> exists|v: Vec<Indexed<u16>>| #[trigger] tx.sent_with(Ok(v))
//@|            && v@ == Seq::new(iter.range.count as nat, |k: int| iter.spec_item(k)),
//@|        old(self).inner matches Some(PromiseInner::Boxed(cb)) ==> cb.invoked_with(Ok(iter)),
//@fn rodbus/src/client/requests/read_registers.rs | Drop for Promise::drop | tags=C10,C18 | inherent
//@|    ensures !final(self).pending(),
//@|        old(self).inner matches Some(PromiseInner::Oneshot(tx)) ==> tx.sent_with(Err(RequestError::Shutdown)),
//@|        old(self).inner matches Some(PromiseInner::Boxed(cb)) ==> cb.invoked_with(Err(RequestError::Shutdown)),
            }
        }
    }
}
} // verus!
fn main() {}
