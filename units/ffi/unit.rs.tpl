#![feature(allocator_api)]
use vstd::prelude::*;
use vstd::future::*;
verus! {
//@include frag/std.tpl
//@include frag/core_modules.tpl
pub mod shims {
    pub mod scursor {
//@include frag/scursor_shim.tpl
    }
}
pub mod common {
    pub mod bits {
//@include frag/common_bits.tpl
    }
    pub mod function {
//@include frag/common_function.tpl
    }
}
pub mod decode {
//@include frag/decode.tpl
}
// facade: the public paths of the rodbus crate as the FFI crate sees them
pub mod rodbus {
    pub use crate::exception::ExceptionCode;
    pub use crate::error::*;
    pub use crate::decode::*;
    pub use crate::types::*;
    pub use crate::server_types::*;
    pub mod server { pub use crate::ffi_server::Authorization; pub use crate::rodbus_server::*; }
    pub mod client { pub use crate::rodbus_client::*; }
    pub use crate::rodbus_client::doubling_retry_strategy;
    pub use crate::rodbus_serial::*;
}
// rodbus::SerialSettings (rodbus/src/serial/mod.rs) and the serialport enums it re-exports (verbatim from the cargo registry)
pub mod rodbus_serial {
    use vstd::prelude::*;
//@item @registry/serialport-4.9.0/src/lib.rs | DataBits | derive=Copy,Clone
//@item @registry/serialport-4.9.0/src/lib.rs | FlowControl | derive=Copy,Clone
//@item @registry/serialport-4.9.0/src/lib.rs | Parity | derive=Copy,Clone
//@item @registry/serialport-4.9.0/src/lib.rs | StopBits | derive=Copy,Clone
//@item rodbus/src/serial/mod.rs | SerialSettings | derive=Copy,Clone
}
pub mod rodbus_client {
//@include frag/ffi_rodbus_client_shim.tpl
}
// sfio-promise: wraps a C completion callback so that dropping it still completes it; opaque here
pub mod sfio_promise {
    use vstd::prelude::*;
    pub struct Wrapped<T> { pub t: T }
    #[verifier::external_body]
    pub fn wrap<T>(t: T) -> (r: Wrapped<T>) { unimplemented!() }
    impl<T> Wrapped<T> {
        #[verifier::external_body]
        pub fn complete<R>(self, res: R) { unimplemented!() }
    }
}
//@trusted sfio_promise::wrap / complete: opaque (that every completion callback fires exactly once is not decided)
pub mod client {
//@include frag/ffi_client.tpl
}
pub use client::{ClientChannel, BitList, RegisterList};
pub mod server_types {
//@include frag/server_types.tpl
}
pub mod rodbus_server {
//@include frag/ffi_rodbus_server_shim.tpl
}
// the generated runtime.rs (oo-bindgen) as the constructors use it
pub struct Runtime { pub x: u8 }
pub struct RuntimeHandle { pub x: u8 }
pub enum RuntimeError { RuntimeDestroyed, CannotBlockWithinAsync, FailedToCreateRuntime }
impl Runtime {
    #[verifier::external_body]
    pub fn handle(&self) -> (r: RuntimeHandle) { unimplemented!() }
}
impl RuntimeHandle {
    // runs the future to completion on the runtime and returns its output
    #[verifier::external_body]
    pub fn block_on<F: core::future::Future>(&self, future: F) -> (r: Result<F::Output, RuntimeError>)
        ensures future.awaited(), r matches Ok(v) ==> v == future@,
    { unimplemented!() }
}
//@trusted Runtime::handle / RuntimeHandle::block_on (generated runtime.rs): block_on returns the output of the future it ran to completion, or a RuntimeError
pub mod runtime { pub use crate::RuntimeError; }
impl vstd::std_specs::convert::FromSpecImpl<crate::runtime::RuntimeError> for crate::ffi::ParamError {
    open spec fn obeys_from_spec() -> bool { true }
    open spec fn from_spec(err: crate::runtime::RuntimeError) -> Self {
        match err {
            crate::runtime::RuntimeError::RuntimeDestroyed => crate::ffi::ParamError::RuntimeDestroyed,
            crate::runtime::RuntimeError::CannotBlockWithinAsync => crate::ffi::ParamError::RuntimeCannotBlockWithinAsync,
            crate::runtime::RuntimeError::FailedToCreateRuntime => crate::ffi::ParamError::RuntimeCreationFailure,
        }
    }
}
impl From<crate::runtime::RuntimeError> for crate::ffi::ParamError {
//@fn ffi/rodbus-ffi/src/lib.rs | From<crate::runtime::RuntimeError> for crate::ffi::ParamError::from | tags=C18
}
pub use ffi_server::{Server, DeviceMap, AddressFilter, BitValueIterator, RegisterValueIterator};
pub mod ffi {
//@include frag/ffi_generated.tpl
}
pub mod helpers {
    pub mod conversions {
//@include frag/ffi_conversions.tpl
    }
    pub mod ext {
//@include frag/ffi_ext.tpl
    }
}
pub mod database {
//@include frag/ffi_database.tpl
}
pub mod ffi_server {
//@include frag/ffi_server.tpl
}
pub use database::Database;
} // verus!
fn main() {}
