use vstd::prelude::*;
verus! {
//@include frag/std.tpl
//@include frag/core_modules.tpl
pub mod shims {
    pub mod scursor {
//@include frag/scursor_shim.tpl
    }
}
pub mod common {
    pub mod bits {
//@include frag/common_bits.tpl
    }
    pub mod function {
//@include frag/common_function.tpl
    }
}
pub mod decode {
//@include frag/decode.tpl
}
// facade: the public paths of the rodbus crate as the FFI crate sees them
pub mod rodbus {
    pub use crate::exception::ExceptionCode;
    pub use crate::error::*;
    pub use crate::decode::*;
    pub use crate::types::*;
    pub mod server { pub use crate::ffi_server::Authorization; }
}
pub mod ffi {
//@include frag/ffi_generated.tpl
}
pub mod helpers {
    pub mod conversions {
//@include frag/ffi_conversions.tpl
    }
    pub mod ext {
//@include frag/ffi_ext.tpl
    }
}
pub mod database {
//@include frag/ffi_database.tpl
}
pub mod ffi_server {
//@include frag/ffi_server.tpl
}
pub use database::Database;
} // verus!
fn main() {}
