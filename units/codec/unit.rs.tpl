use vstd::prelude::*;
verus! {
//@include frag/std.tpl
//@include frag/core_modules.tpl
pub mod decode {
//@include frag/decode.tpl
}
pub mod spec {
//@include frag/stream_spec.tpl
}
pub mod shims {
    pub mod scursor {
//@include frag/scursor_shim.tpl
    }
}
pub mod common {
    pub mod bits {
//@include frag/common_bits.tpl
    }
    pub mod function {
//@include frag/common_function.tpl
    }
    pub mod traits {
//@include frag/common_traits.tpl
    }
    pub mod parse {
//@include frag/common_parse.tpl
    }
    pub mod frame {
        use vstd::prelude::*;
        use crate::types::UnitId;
//@item rodbus/src/common/frame.rs | FrameDestination
    }
}
pub mod server {
    pub mod types {
//@include frag/server_types.tpl
    }
    pub mod request {
//@include frag/server_request_parse.tpl
    }
}
} // verus!
fn main() {}
