use vstd::prelude::*;
verus! {
// C09, version clause: the set of TLS protocol versions rodbus hands to the TLS library for a configured minimum.
pub mod sfio_rustls_config {
    use vstd::prelude::*;
    // verbatim from the dependency (cargo registry, version pinned by Cargo.lock)
//@item @registry/sfio-rustls-config-0.4.0/src/versions.rs | ProtocolVersions | derive=Copy,Clone
    // R13: derive(Default) replaced by its expansion (all fields Default::default(), i.e. false)
    impl Default for ProtocolVersions {
        fn default() -> (r: Self) ensures !r.v1_2, !r.v1_3 { ProtocolVersions { v1_2: false, v1_3: false } }
    }
    impl ProtocolVersions {
//@fn @registry/sfio-rustls-config-0.4.0/src/versions.rs | ProtocolVersions::new | tags=C09
//@|    ensures !r.v1_2, !r.v1_3,
//@fn @registry/sfio-rustls-config-0.4.0/src/versions.rs | ProtocolVersions::v12_only | tags=C09
//@|    ensures r.v1_2, !r.v1_3,
//@fn @registry/sfio-rustls-config-0.4.0/src/versions.rs | ProtocolVersions::v13_only | tags=C09
//@|    ensures !r.v1_2, r.v1_3,
//@fn @registry/sfio-rustls-config-0.4.0/src/versions.rs | ProtocolVersions::enable_v12 | tags=C09
//@|    ensures r.v1_2, r.v1_3 == self.v1_3,
//@fn @registry/sfio-rustls-config-0.4.0/src/versions.rs | ProtocolVersions::enable_v13 | tags=C09
//@|    ensures r.v1_3, r.v1_2 == self.v1_2,
    }
}
pub mod tcp { pub mod tls {
    use vstd::prelude::*;
//@item rodbus/src/tcp/tls/mod.rs | MinTlsVersion
//@item rodbus/src/tcp/tls/mod.rs | CertificateMode
    pub mod client {
        use vstd::prelude::*;
        use vstd::std_specs::convert::FromSpecImpl;
        use crate::sfio_rustls_config::ProtocolVersions;
        use crate::tcp::tls::MinTlsVersion;
        // [C09] never a protocol version below the configured minimum, and every version at or above it:
        //   minimum 1.2 -> {1.2, 1.3};   minimum 1.3 -> {1.3}
        impl FromSpecImpl<MinTlsVersion> for ProtocolVersions {
            open spec fn obeys_from_spec() -> bool { true }
            open spec fn from_spec(value: MinTlsVersion) -> Self {
                match value {
                    MinTlsVersion::V1_2 => ProtocolVersions { v1_2: true, v1_3: true },
                    MinTlsVersion::V1_3 => ProtocolVersions { v1_2: false, v1_3: true },
                }
            }
        }
        impl From<MinTlsVersion> for ProtocolVersions {
//@fn rodbus/src/tcp/tls/client.rs | From<MinTlsVersion> for ProtocolVersions::from | tags=C09
        }
    }
}}
} // verus!
fn main() {}
