use vstd::prelude::*;
verus! {
//@include frag/std.tpl
// C09, version clause: the set of TLS protocol versions rodbus hands to the TLS library for a configured minimum.
pub mod sfio_rustls_config {
    use vstd::prelude::*;
    use crate::tls_env::Path;
    use crate::tls_env::*;
    pub struct Error { pub x: u8 }
    pub enum ServerNameVerification { SanExtOnly, SanOrCommonName, DisableNameVerification }
    pub enum ClientNameVerification { None, SanExtOnly(crate::rustls::pki_types::ServerName<'static>), SanOrCommonName(crate::rustls::pki_types::ServerName<'static>) }
    pub open spec fn client_name_check(v: ClientNameVerification) -> NameCheck {
        match v { ClientNameVerification::None => NameCheck::NoNameCheck, ClientNameVerification::SanExtOnly(_) => NameCheck::SanExtOnly, ClientNameVerification::SanOrCommonName(_) => NameCheck::SanOrCommonName }
    }
    pub open spec fn server_name_check(v: ServerNameVerification) -> NameCheck {
        match v { ServerNameVerification::DisableNameVerification => NameCheck::NoNameCheck, ServerNameVerification::SanExtOnly => NameCheck::SanExtOnly, ServerNameVerification::SanOrCommonName => NameCheck::SanOrCommonName }
    }
    pub mod server {
        use vstd::prelude::*;
        use crate::tls_env::Path;
        use crate::tls_env::*;
        use super::{ProtocolVersions, ClientNameVerification, Error, client_name_check};
        #[verifier::external_body]
        pub fn self_signed(versions: ProtocolVersions, peer_cert_path: &Path, local_cert_path: &Path, private_key_path: &Path, private_key_password: Option<&str>) -> (r: Result<crate::rustls::ServerConfig, Error>)
            ensures r matches Ok(c) ==> c.e == (Enforced { peer: PeerCheck::SelfSignedMatch, name: NameCheck::NoNameCheck, versions, peer_cert: path_id(peer_cert_path), local_cert: path_id(local_cert_path), key: path_id(private_key_path), password: pw(private_key_password) }),
        { unimplemented!() }
        #[verifier::external_body]
        pub fn authority(versions: ProtocolVersions, name_verification: ClientNameVerification, ca_cert_path: &Path, local_cert_chain_path: &Path, private_key_path: &Path, private_key_password: Option<&str>) -> (r: Result<crate::rustls::ServerConfig, Error>)
            ensures r matches Ok(c) ==> c.e == (Enforced { peer: PeerCheck::ChainToAuthority, name: client_name_check(name_verification), versions, peer_cert: path_id(ca_cert_path), local_cert: path_id(local_cert_chain_path), key: path_id(private_key_path), password: pw(private_key_password) }),
        { unimplemented!() }
    }
    pub mod client {
        use vstd::prelude::*;
        use crate::tls_env::Path;
        use crate::tls_env::*;
        use super::{ProtocolVersions, ServerNameVerification, Error, server_name_check};
        #[verifier::external_body]
        pub fn self_signed(versions: ProtocolVersions, peer_cert_path: &Path, local_cert_path: &Path, private_key_path: &Path, private_key_password: Option<&str>) -> (r: Result<crate::rustls::ClientConfig, Error>)
            ensures r matches Ok(c) ==> c.e == (Enforced { peer: PeerCheck::SelfSignedMatch, name: NameCheck::NoNameCheck, versions, peer_cert: path_id(peer_cert_path), local_cert: path_id(local_cert_path), key: path_id(private_key_path), password: pw(private_key_password) }),
        { unimplemented!() }
        #[verifier::external_body]
        pub fn authority(versions: ProtocolVersions, name_verification: ServerNameVerification, ca_cert_path: &Path, local_cert_chain_path: &Path, private_key_path: &Path, private_key_password: Option<&str>) -> (r: Result<crate::rustls::ClientConfig, Error>)
            ensures r matches Ok(c) ==> c.e == (Enforced { peer: PeerCheck::ChainToAuthority, name: server_name_check(name_verification), versions, peer_cert: path_id(ca_cert_path), local_cert: path_id(local_cert_chain_path), key: path_id(private_key_path), password: pw(private_key_password) }),
        { unimplemented!() }
    }
//@trusted sfio_rustls_config::{server,client}::{self_signed,authority}: assumed contracts - the configuration enforces the peer check of that constructor, the given name verification and protocol versions, with the given files and password; rustls / webpki certificate validation itself is outside the verifier's reach
    // verbatim from the dependency (cargo registry, version pinned by Cargo.lock)
//@item @registry/sfio-rustls-config-0.4.0/src/versions.rs | ProtocolVersions | derive=Copy,Clone
    // R13: derive(Default) replaced by its expansion (all fields Default::default(), i.e. false)
    impl Default for ProtocolVersions {
        fn default() -> (r: Self) ensures !r.v1_2, !r.v1_3 { ProtocolVersions { v1_2: false, v1_3: false } }
    }
    impl ProtocolVersions {
//@fn @registry/sfio-rustls-config-0.4.0/src/versions.rs | ProtocolVersions::new | tags=C09
//@|    ensures !r.v1_2, !r.v1_3,
//@fn @registry/sfio-rustls-config-0.4.0/src/versions.rs | ProtocolVersions::v12_only | tags=C09
//@|    ensures r.v1_2, !r.v1_3,
//@fn @registry/sfio-rustls-config-0.4.0/src/versions.rs | ProtocolVersions::v13_only | tags=C09
//@|    ensures !r.v1_2, r.v1_3,
//@fn @registry/sfio-rustls-config-0.4.0/src/versions.rs | ProtocolVersions::enable_v12 | tags=C09
//@|    ensures r.v1_2, r.v1_3 == self.v1_3,
//@fn @registry/sfio-rustls-config-0.4.0/src/versions.rs | ProtocolVersions::enable_v13 | tags=C09
//@|    ensures r.v1_3, r.v1_2 == self.v1_2,
    }
}
// what a TLS configuration built by sfio-rustls-config enforces (assumed contracts on the dependency; the certificate validation itself
// - chain building, validity period, name matching - is inside rustls / webpki and not decided here)
pub mod tls_env {
    use vstd::prelude::*;
    use crate::sfio_rustls_config::ProtocolVersions;
    // std::path::Path stands for itself by name (the installed Verus cannot declare it: trait-conflict check on ToOwned); only passed through
    pub struct Path { pub x: u8 }
    pub uninterp spec fn path_id(p: &Path) -> int;
    pub enum PeerCheck { SelfSignedMatch, ChainToAuthority }
    pub enum NameCheck { NoNameCheck, SanExtOnly, SanOrCommonName }
    pub ghost struct Enforced { pub peer: PeerCheck, pub name: NameCheck, pub versions: ProtocolVersions, pub peer_cert: int, pub local_cert: int, pub key: int, pub password: Option<Seq<char>> }
    pub open spec fn pw(p: Option<&str>) -> Option<Seq<char>> { match p { Some(s) => Some(s@), None => None } }
}
pub mod rustls {
    use vstd::prelude::*;
    pub struct ServerConfig { pub ghost e: crate::tls_env::Enforced }
    pub struct ClientConfig { pub ghost e: crate::tls_env::Enforced }
    pub mod pki_types {
        use vstd::prelude::*;
        pub struct InvalidDnsNameError { pub x: u8 }
        // a DNS name or an IP address (an IP address makes the client send no SNI extension)
        pub struct Ipv4Addr { pub x: u8 }
        pub enum IpAddr { V4(Ipv4Addr), V6 }
        pub enum ServerName<'a> { DnsName(String), IpAddress(IpAddr), Borrowed(&'a u8) }
        impl<'a> Clone for ServerName<'a> {
            #[verifier::external_body]
            fn clone(&self) -> (r: Self) ensures r == *self { unimplemented!() }
        }
        impl ServerName<'static> {
            #[verifier::external_body]
            pub fn try_from(x: String) -> (r: Result<ServerName<'static>, InvalidDnsNameError>) ensures r matches Ok(n) ==> n == ServerName::<'static>::DnsName(x) { unimplemented!() }
        }
        impl From<crate::std_net::Ipv4Addr> for Ipv4Addr {
            #[verifier::external_body]
            fn from(a: crate::std_net::Ipv4Addr) -> (r: Self) { unimplemented!() }
        }
        impl vstd::std_specs::convert::FromSpecImpl<crate::std_net::Ipv4Addr> for Ipv4Addr {
            open spec fn obeys_from_spec() -> bool { false }
            open spec fn from_spec(a: crate::std_net::Ipv4Addr) -> Self { Ipv4Addr { x: 0 } }
        }
    }
}
// std::net::Ipv4Addr as used for the "unspecified" placeholder server name
pub mod std_net {
    pub struct Ipv4Addr { pub x: u8 }
    impl Ipv4Addr { pub const UNSPECIFIED: Ipv4Addr = Ipv4Addr { x: 0 }; }
}
// std::io::Error::new(kind, text) (its bound mentions `dyn Error + Send + Sync`, outside the Verus subset - R30): an opaque error of that kind
#[verifier::external_body]
pub fn io_error_new(k: std::io::ErrorKind, text: String) -> (r: std::io::Error) ensures crate::io_error_kind(r) == k { unimplemented!() }
// R27: the text of error messages is not specified by any property
#[verifier::external_body]
pub fn format_opaque() -> (r: String) { unimplemented!() }
// ---- TLS accept path (tokio-rustls / rustls / rx509): opaque environment with a ghost view of what the peer presented ----
pub mod tokio_rustls {
    use vstd::prelude::*;
    use std::sync::Arc;
    pub struct TcpStream { pub x: u8 }
    pub struct CertificateDer { pub x: u8 }
    pub struct ServerConnection { pub ghost presented: Option<Seq<CertificateDer>> }
    impl ServerConnection {
        // the certificates the peer sent, its own (end-entity) certificate first (rustls documentation)
        #[verifier::external_body]
        pub fn peer_certificates(&self) -> (r: Option<&[CertificateDer]>)
            ensures (r is Some) == (self.presented is Some), r matches Some(s) ==> s@ == self.presented->Some_0 { unimplemented!() }
    }
    pub mod server {
        use vstd::prelude::*;
        pub struct TlsStream { pub io: super::TcpStream, pub conn: super::ServerConnection }
        impl TlsStream {
            #[verifier::external_body]
            pub fn get_ref(&self) -> (r: (&super::TcpStream, &super::ServerConnection)) ensures *r.1 == self.conn { unimplemented!() }
        }
    }
    // a client-side session: established under this configuration, with this expected server name
    pub ghost struct ClientSession { pub cfg: crate::tls_env::Enforced, pub name: crate::rustls::pki_types::ServerName<'static> }
    pub mod client {
        use vstd::prelude::*;
        pub struct TlsStream { pub io: super::TcpStream, pub ghost session: super::ClientSession }
    }
    pub struct TlsStream { pub ghost conn: ServerConnection, pub ghost client: Option<ClientSession> }
    impl From<server::TlsStream> for TlsStream {
        #[verifier::external_body]
        fn from(s: server::TlsStream) -> (r: Self) ensures r.conn == s.conn, r.client is None { unimplemented!() }
    }
    impl vstd::std_specs::convert::FromSpecImpl<server::TlsStream> for TlsStream {
        open spec fn obeys_from_spec() -> bool { false }
        open spec fn from_spec(s: server::TlsStream) -> Self { TlsStream { conn: s.conn, client: None } }
    }
    impl From<client::TlsStream> for TlsStream {
        #[verifier::external_body]
        fn from(s: client::TlsStream) -> (r: Self) ensures r.client == Some(s.session) { unimplemented!() }
    }
    impl vstd::std_specs::convert::FromSpecImpl<client::TlsStream> for TlsStream {
        open spec fn obeys_from_spec() -> bool { false }
        open spec fn from_spec(s: client::TlsStream) -> Self { TlsStream { conn: ServerConnection { presented: None }, client: Some(s.session) } }
    }
    pub struct TlsConnector { pub ghost cfg: crate::tls_env::Enforced }
    impl From<Arc<crate::rustls::ClientConfig>> for TlsConnector {
        #[verifier::external_body]
        fn from(c: Arc<crate::rustls::ClientConfig>) -> (r: Self) ensures r.cfg == (*c).e { unimplemented!() }
    }
    impl vstd::std_specs::convert::FromSpecImpl<Arc<crate::rustls::ClientConfig>> for TlsConnector {
        open spec fn obeys_from_spec() -> bool { false }
        open spec fn from_spec(c: Arc<crate::rustls::ClientConfig>) -> Self { TlsConnector { cfg: (*c).e } }
    }
    impl TlsConnector {
        // the handshake: Ok only when the server was validated under the connector's configuration against the given name
        // (rustls / webpki, not decided here)
        #[verifier::external_body]
        pub async fn connect(&self, domain: crate::rustls::pki_types::ServerName<'static>, socket: TcpStream) -> (r: Result<client::TlsStream, std::io::Error>)
            ensures r matches Ok(s) ==> s.session == (ClientSession { cfg: self.cfg, name: domain }),
        { unimplemented!() }
    }
    pub struct TlsAcceptor { pub ghost cfg: crate::tls_env::Enforced }
    impl From<Arc<crate::rustls::ServerConfig>> for TlsAcceptor {
        #[verifier::external_body]
        fn from(c: Arc<crate::rustls::ServerConfig>) -> (r: Self) ensures r.cfg == (*c).e { unimplemented!() }
    }
    impl vstd::std_specs::convert::FromSpecImpl<Arc<crate::rustls::ServerConfig>> for TlsAcceptor {
        open spec fn obeys_from_spec() -> bool { false }
        open spec fn from_spec(c: Arc<crate::rustls::ServerConfig>) -> Self { TlsAcceptor { cfg: (*c).e } }
    }
    impl TlsAcceptor {
        // the handshake: Ok only when the peer was validated under the acceptor's configuration (rustls, not decided here)
        #[verifier::external_body]
        pub async fn accept(&self, socket: TcpStream) -> (r: Result<server::TlsStream, std::io::Error>) { unimplemented!() }
    }
}
//@trusted tokio_rustls::{TlsAcceptor, server::TlsStream, ServerConnection::peer_certificates}: opaque; peer_certificates() lists what the peer sent with its own certificate first (rustls documentation)
pub mod rx509 { pub mod x509 {
    use vstd::prelude::*;
    pub struct ASNError { pub x: u8 }
    // the part of a parsed certificate that the role extraction walks: tbs_certificate.value.extensions, a lazily parsed extension list
    pub struct Constructed<T> { pub value: T }
    pub struct TbsCertificate { pub extensions: Option<Extensions> }
    pub struct Certificate { pub tbs_certificate: Constructed<TbsCertificate> }
    pub uninterp spec fn spec_parse(der: crate::tokio_rustls::CertificateDer) -> Option<Certificate>;
    impl Certificate {
        #[verifier::external_body]
        pub fn parse(der: &crate::tokio_rustls::CertificateDer) -> (r: Result<Certificate, ASNError>)
            ensures r matches Ok(c) ==> spec_parse(*der) == Some(c), r is Err ==> spec_parse(*der) is None { unimplemented!() }
    }
    // `exts`: the extensions the raw content parses to (None: it does not parse)
    pub struct Extensions { pub ghost exts: Option<Seq<ext::Extension>> }
    pub struct ExtensionList { pub ghost items: Seq<ext::Extension> }
    pub struct ExtensionIter { pub ghost rest: Seq<ext::Extension> }
    // (`ks`: how many items each call of next() skipped - ghost history, so that proofs can name the positions)
    pub struct FilterMapped<F> { pub ghost rest: Seq<ext::Extension>, pub ghost ks: Seq<int>, pub f: F }
    impl Extensions {
        #[verifier::external_body]
        pub fn parse(&self) -> (r: Result<ExtensionList, ASNError>)
            ensures r matches Ok(l) ==> self.exts == Some(l.items), r is Err ==> self.exts is None { unimplemented!() }
    }
    impl ExtensionList {
        #[verifier::external_body]
        pub fn into_iter(self) -> (r: ExtensionIter) ensures r.rest == self.items { unimplemented!() }
    }
    impl ExtensionIter {
        // Iterator::filter_map over the extension list (std documentation): the adapter keeps the closure and the items still to be visited
        #[verifier::external_body]
        pub fn filter_map<F: Fn(ext::Extension) -> Option<&'static str>>(self, f: F) -> (r: FilterMapped<F>)
            ensures r.rest == self.rest, r.f == f, r.ks.len() == 0 { unimplemented!() }
    }
    impl<F: Fn(ext::Extension) -> Option<&'static str>> FilterMapped<F> {
        // next(): skips the items the closure maps to None, yields the first it maps to Some(v) (or None at the end)
        #[verifier::external_body]
        pub fn next(&mut self) -> (r: Option<&'static str>)
            requires forall|e: ext::Extension| old(self).f.requires((e,)),
            ensures final(self).f == old(self).f, final(self).ks.len() == old(self).ks.len() + 1, final(self).ks.drop_last() == old(self).ks,
                ({ let k = final(self).ks.last();
                   0 <= k <= old(self).rest.len()
                   && (forall|i: int| 0 <= i < k ==> old(self).f.ensures((#[trigger] old(self).rest[i],), None))
                   && (if k < old(self).rest.len() { r is Some && old(self).f.ensures((old(self).rest[k],), r) && final(self).rest == old(self).rest.skip(k + 1) }
                       else { r is None && final(self).rest.len() == 0 }) }),
        { unimplemented!() }
    }
    pub mod ext {
        pub struct ModbusRole { pub role: &'static str }
        pub enum SpecificExtension { ModbusRole(ModbusRole), Other(u8) }
        pub struct Extension { pub content: SpecificExtension }
    }
}}
//@trusted rx509::x509::Certificate::parse / Extensions::parse: opaque DER parsers (`spec_parse`, `exts`); Vec::into_iter().filter_map(f).next() on the extension list: std semantics of filter_map restated for this element type
pub mod common { pub mod phys {
    use vstd::prelude::*;
    pub struct PhysLayer { pub ghost tls: Option<crate::tokio_rustls::ServerConnection>, pub ghost client_tls: Option<crate::tokio_rustls::ClientSession> }
    impl PhysLayer {
        #[verifier::external_body]
        pub fn new_tls(s: crate::tokio_rustls::TlsStream) -> (r: Self) ensures r.tls == Some(s.conn), r.client_tls == s.client { unimplemented!() }
        // a plain TCP layer: no TLS session of either kind
        #[verifier::external_body]
        pub fn new_tcp(s: crate::tokio_rustls::TcpStream) -> (r: Self) ensures r.tls is None, r.client_tls is None { unimplemented!() }
    }
}}
pub mod server {
    pub trait AuthorizationHandler {}
    pub mod task {
        use std::sync::Arc;
        use crate::server::AuthorizationHandler;
//@item rodbus/src/server/task.rs | AuthorizationType
    }
}
pub mod tcp { pub mod tls {
    use vstd::prelude::*;
//@item rodbus/src/tcp/tls/mod.rs | MinTlsVersion
//@item rodbus/src/tcp/tls/mod.rs | CertificateMode
//@item rodbus/src/tcp/tls/mod.rs | TlsError
    impl From<crate::sfio_rustls_config::Error> for TlsError {
        #[verifier::external_body]
        fn from(err: crate::sfio_rustls_config::Error) -> (r: Self) ensures r is BadConfig { unimplemented!() }
    }
    impl vstd::std_specs::convert::FromSpecImpl<crate::sfio_rustls_config::Error> for TlsError {
        open spec fn obeys_from_spec() -> bool { false }
        open spec fn from_spec(err: crate::sfio_rustls_config::Error) -> Self { TlsError::InvalidDnsName }
    }
    pub mod server {
        use vstd::prelude::*;
        use crate::tls_env::Path;
        use std::sync::Arc;
        use crate::sfio_rustls_config;
        use crate::sfio_rustls_config::ClientNameVerification;
        use crate::rustls;
        use crate::tls_env::*;
        use crate::tcp::tls::{CertificateMode, MinTlsVersion, TlsError};
//@item rodbus/src/tcp/tls/server.rs | TlsServerConfig | derive=
        use crate::tokio_rustls;
        use crate::tokio_rustls::TcpStream;
        use crate::rx509;
        use crate::common::phys::PhysLayer;
        use crate::server::task::AuthorizationType;
        use crate::server::AuthorizationHandler;
        // the role of a certificate: its single Modbus role extension (None when the extensions are absent or do not parse, or when
        // there is no role extension or more than one)
        pub open spec fn role_of(e: rx509::x509::ext::Extension) -> Option<&'static str> {
            match e.content { rx509::x509::ext::SpecificExtension::ModbusRole(r) => Some(r.role), _ => None }
        }
        pub open spec fn roles(s: Seq<rx509::x509::ext::Extension>) -> Seq<&'static str>
            decreases s.len()
        {
            if s.len() == 0 { Seq::empty() } else { (match role_of(s[0]) { Some(r) => seq![r], None => Seq::empty() }) + roles(s.skip(1)) }
        }
        pub open spec fn spec_role(cert: rx509::x509::Certificate) -> Option<Seq<char>> {
            match cert.tbs_certificate.value.extensions {
                Some(x) => match x.exts { Some(items) => if roles(items).len() == 1 { Some(roles(items)[0]@) } else { None }, None => None },
                None => None,
            }
        }
        pub open spec fn first_role_at(s: Seq<rx509::x509::ext::Extension>, k: int) -> bool {
            0 <= k < s.len() && (forall|i: int| 0 <= i < k ==> role_of(#[trigger] s[i]) is None) && role_of(s[k]) is Some
        }
        pub open spec fn has_role(s: Seq<rx509::x509::ext::Extension>) -> bool { exists|k: int| #[trigger] first_role_at(s, k) }
        pub open spec fn no_roles(s: Seq<rx509::x509::ext::Extension>) -> bool { forall|i: int| 0 <= i < s.len() ==> role_of(#[trigger] s[i]) is None }
        // skipping a prefix of role-less extensions does not change the roles; a role at position k is the first role
        pub proof fn lemma_roles_skip(s: Seq<rx509::x509::ext::Extension>, k: int)
            requires 0 <= k <= s.len(), forall|i: int| 0 <= i < k ==> role_of(#[trigger] s[i]) is None,
            ensures roles(s) == roles(s.skip(k)),
            decreases k
        {
            if k > 0 {
                lemma_roles_skip(s.skip(1), k - 1);
                assert(s.skip(1).skip(k - 1) == s.skip(k));
                assert(roles(s) == Seq::<&'static str>::empty() + roles(s.skip(1)));
            } else { assert(s.skip(0) == s); }
        }
        pub proof fn lemma_roles_head(s: Seq<rx509::x509::ext::Extension>, k: int)
            requires 0 <= k < s.len(), forall|i: int| 0 <= i < k ==> role_of(#[trigger] s[i]) is None, role_of(s[k]) is Some,
            ensures roles(s) == seq![role_of(s[k])->0] + roles(s.skip(k + 1)),
        {
            lemma_roles_skip(s, k);
            assert(s.skip(k).skip(1) == s.skip(k + 1));
            assert(s.skip(k)[0] == s[k]);
        }
// [C09] Ok(role) exactly for a certificate with a single Modbus role extension, and then that role
//@fn rodbus/src/tcp/tls/server.rs | extract_modbus_role | tags=C08,C09 | r10 r10id=0,1,2 r27
//@|    ensures r matches Ok(role) ==> spec_role(*cert) == Some(role@), r is Err ==> spec_role(*cert) is None,
//@closure 0| || -> (e: String)
//@closure 1| |err: rx509::x509::ASNError| -> (e: String)
//@closure 2| |ext: rx509::x509::ext::Extension| -> (o: Option<&'static str>) ensures o == role_of(ext)
//@closure 3| || -> (e: String)
//@tryexit 2| let items = extensions.items;
//@tryexit 2| assert(forall|i: int| 0 <= i < items.len() ==> role_of(#[trigger] items[i]) is None);
//@tryexit 2| lemma_roles_skip(items, items.len() as int);
//@tryexit 2| assert(items.skip(items.len() as int).len() == 0);
//@exit 0| let items = extensions.items; let k1 = it.ks[0]; let k2 = it.ks[1];
//@exit 0| assert(first_role_at(items, k1)); assert(first_role_at(items.skip(k1 + 1), k2));
//@exit 0| lemma_roles_head(items, k1); lemma_roles_head(items.skip(k1 + 1), k2);
//@exit 1| let items = extensions.items; let k1 = it.ks[0];
//@exit 1| assert(first_role_at(items, k1) && role_of(items[k1]) == Some(role)); assert(no_roles(items.skip(k1 + 1)));
//@exit 1| lemma_roles_head(items, k1); lemma_roles_skip(items.skip(k1 + 1), items.skip(k1 + 1).len() as int);
//@exit 1| assert(items.skip(k1 + 1).skip(items.skip(k1 + 1).len() as int).len() == 0);
        impl TlsServerConfig {
// [C09] no Modbus layer exists before the handshake succeeded; in authorization mode the session's role is the role extension of the
// client's OWN certificate (the first one it presented), and a client whose certificate parses to no role is refused
//@fn rodbus/src/tcp/tls/server.rs | TlsServerConfig::handle_connection | tags=C08,C09 | r10 r10id=0,1,2 r27
//@|    ensures
//@|        (auth_handler is None && r is Ok) ==> r->Ok_0.1 is None,
//@|        (auth_handler is Some && r is Ok) ==> ({
//@|            let a = r->Ok_0.1; let l = r->Ok_0.0;
//@|            a is Handler && a->Handler_0 == auth_handler->Some_0
//@|            && l.tls is Some && l.tls->Some_0.presented is Some && l.tls->Some_0.presented->Some_0.len() > 0
//@|            && rx509::x509::spec_parse(l.tls->Some_0.presented->Some_0[0]) is Some
//@|            && spec_role(rx509::x509::spec_parse(l.tls->Some_0.presented->Some_0[0])->Some_0) == Some(a->Handler_1@) }),
//@closure 0|  |x: &[tokio_rustls::CertificateDer]| -> (o: Option<&tokio_rustls::CertificateDer>) ensures o == (if x@.len() > 0 { Some(&x@[0]) } else { None::<&tokio_rustls::CertificateDer> })
//@closure 1|  || -> (e: String)
//@closure 2|  |err: rx509::x509::ASNError| -> (e: String)
// [C09] certificate mode -> verifier construction, minimum version -> enabled versions; paths and password forwarded unchanged
//@fn rodbus/src/tcp/tls/server.rs | TlsServerConfig::new | tags=C09 | r10
//@|    ensures r matches Ok(c) ==> (*c.inner).e == (Enforced {
//@|            peer: match certificate_mode { CertificateMode::SelfSigned => PeerCheck::SelfSignedMatch, CertificateMode::AuthorityBased => PeerCheck::ChainToAuthority },
//@|            name: NameCheck::NoNameCheck,          // mutual TLS: the client is identified by its certificate chain / role, not by a name
//@|            versions: crate::tcp::tls::client::spec_versions(min_tls_version),
//@|            peer_cert: path_id(peer_cert_path), local_cert: path_id(local_cert_path), key: path_id(private_key_path), password: pw(password) }),
        }
    }
    pub mod client {
        use vstd::prelude::*;
        use vstd::std_specs::convert::FromSpecImpl;
        use crate::sfio_rustls_config::ProtocolVersions;
        use crate::tcp::tls::MinTlsVersion;
        // [C09] never a protocol version below the configured minimum, and every version at or above it:
        //   minimum 1.2 -> {1.2, 1.3};   minimum 1.3 -> {1.3}
        pub open spec fn spec_versions(value: MinTlsVersion) -> ProtocolVersions {
            match value {
                MinTlsVersion::V1_2 => ProtocolVersions { v1_2: true, v1_3: true },
                MinTlsVersion::V1_3 => ProtocolVersions { v1_2: false, v1_3: true },
            }
        }
        impl FromSpecImpl<MinTlsVersion> for ProtocolVersions {
            open spec fn obeys_from_spec() -> bool { true }
            open spec fn from_spec(value: MinTlsVersion) -> Self { spec_versions(value) }
        }
        impl From<MinTlsVersion> for ProtocolVersions {
//@fn rodbus/src/tcp/tls/client.rs | From<MinTlsVersion> for ProtocolVersions::from | tags=C09
        }
        use crate::tls_env::Path;
        use std::sync::Arc;
        use crate::sfio_rustls_config;
        use crate::sfio_rustls_config::ServerNameVerification;
        use crate::rustls;
        use crate::tls_env::*;
        use crate::tcp::tls::{CertificateMode, TlsError};
        use crate::rustls::pki_types::InvalidDnsNameError;
        use crate::std_net::Ipv4Addr;
        use crate::tokio_rustls;
        use crate::tokio_rustls::TcpStream;
        use crate::common::phys::PhysLayer;
        // client::HostAddr: only printed in the error text (R27)
        pub struct HostAddr { pub x: u8 }
        impl FromSpecImpl<rustls::pki_types::InvalidDnsNameError> for TlsError {
            open spec fn obeys_from_spec() -> bool { true }
            open spec fn from_spec(e: rustls::pki_types::InvalidDnsNameError) -> Self { TlsError::InvalidDnsName }
        }
        impl From<rustls::pki_types::InvalidDnsNameError> for TlsError {
//@fn rodbus/src/tcp/tls/client.rs | From<InvalidDnsNameError> for TlsError::from | tags=C09
        }
//@item rodbus/src/tcp/tls/client.rs | TlsClientConfig | derive=
        impl TlsClientConfig {
// [C09] authority mode: chain to the configured authority and - when a subject name is given - that name must match;
// self-signed mode: the configured certificate itself; never a version below the configured minimum
//@fn rodbus/src/tcp/tls/client.rs | TlsClientConfig::full_pki | tags=C09| r10
//@|    ensures r matches Ok(c) ==> (*c.config).e == (Enforced { peer: PeerCheck::ChainToAuthority,
//@|            name: (if server_subject_name is Some { NameCheck::SanOrCommonName } else { NameCheck::NoNameCheck }),
//@|            versions: spec_versions(min_tls_version),
//@|            peer_cert: path_id(peer_cert_path), local_cert: path_id(local_cert_path), key: path_id(private_key_path), password: pw(password) })
//@|        && (server_subject_name matches Some(n) ==> c.server_name == rustls::pki_types::ServerName::<'static>::DnsName(n)),
// [C09] client side: the only layer handed to the Modbus session is a TLS session established under exactly the stored configuration
// and expected server name; a failed handshake yields an error, never a plain-text layer
//@fn rodbus/src/tcp/tls/client.rs | TlsClientConfig::handle_connection | tags=C09 | r27 | bsub=std::io::Error::new(=>crate::io_error_new(
//@|    ensures r matches Ok(l) ==> l.client_tls == Some(crate::tokio_rustls::ClientSession { cfg: (*old(self).config).e, name: old(self).server_name }),
//@|        *final(self) == *old(self),
// [C09] the deprecated dispatcher: the certificate mode selects the constructor, the given name is the expected subject name
//@fn rodbus/src/tcp/tls/client.rs | TlsClientConfig::new | tags=C09
//@|    ensures r matches Ok(c) ==> (*c.config).e == (Enforced {
//@|            peer: (if certificate_mode is AuthorityBased { PeerCheck::ChainToAuthority } else { PeerCheck::SelfSignedMatch }),
//@|            name: (if certificate_mode is AuthorityBased { NameCheck::SanOrCommonName } else { NameCheck::NoNameCheck }),
//@|            versions: spec_versions(min_tls_version),
//@|            peer_cert: path_id(peer_cert_path), local_cert: path_id(local_cert_path), key: path_id(private_key_path), password: pw(password) }),
//@fn rodbus/src/tcp/tls/client.rs | TlsClientConfig::self_signed | tags=C09 | r10
//@|    ensures r matches Ok(c) ==> (*c.config).e == (Enforced { peer: PeerCheck::SelfSignedMatch, name: NameCheck::NoNameCheck,
//@|            versions: spec_versions(min_tls_version),
//@|            peer_cert: path_id(peer_cert_path), local_cert: path_id(local_cert_path), key: path_id(private_key_path), password: pw(password) }),
        }
    }
}}
} // verus!
fn main() {}
