use vstd::prelude::*;
verus! {
//@include frag/std.tpl
//@include frag/core_modules.tpl
pub mod decode {
//@include frag/decode.tpl
}
pub mod spec {
//@include frag/stream_spec.tpl
}
pub mod shims {
    pub mod crc {
//@include frag/crc_shim.tpl
    }
}
pub mod common {
    pub mod bits {
//@include frag/common_bits.tpl
    }
    pub mod function {
//@include frag/common_function.tpl
    }
    pub mod phys {
//@include frag/phys_shim.tpl
    }
    pub mod buffer {
//@include frag/common_buffer.tpl
    }
    pub mod frame {
//@include frag/common_frame_types.tpl
//@include frag/common_frame_reader.tpl
    }
}
pub mod tcp {
    pub mod frame {
//@include frag/tcp_frame.tpl
    }
}
pub mod serial {
    pub mod frame {
//@include frag/serial_frame.tpl
    }
}
} // verus!
fn main() {}
