use vstd::prelude::*;
verus! {
// C17 / C01: the real `ServerHandlerMap` of server/handler.rs (a BTreeMap from unit id to handler cell) against an abstract map.
// In the proto unit the map is a shim with ghost handler states; this unit proves that the real methods are what that shim assumes:
// `get` finds exactly the handler configured for the unit id, `add` / `single` / `new` build the map, and `iter_mut` - the broadcast
// fan-out - visits every configured handler exactly once (whatever its unit id, 0 and 255 included).
//@include frag/std.tpl
//@include frag/core_modules.tpl
pub mod common {
    pub mod bits {
//@include frag/common_bits.tpl
    }
    pub mod function {
//@include frag/common_function.tpl
    }
}
pub mod shims {
    pub mod scursor {
//@include frag/scursor_shim.tpl
    }
}
pub mod server { pub mod handler {
    use vstd::prelude::*;
    use std::sync::Arc;
    use crate::types::UnitId;
    // std::collections::BTreeMap as used by the handler map (trusted: restates the std documentation)
    pub struct BTreeMap<K, V> { pub ghost m: Map<K, V>, pub _p: core::marker::PhantomData<(K, V)> }
    impl<K, V> View for BTreeMap<K, V> {
        type V = Map<K, V>;
        open spec fn view(&self) -> Map<K, V> { self.m }
    }
    // values_mut(): every value exactly once (`ks`: the keys still to be visited, without duplicates)
    pub struct ValuesMut<'a, K, V> { pub ghost ks: Seq<K>, pub _p: core::marker::PhantomData<&'a mut (K, V)> }
    impl<K, V> BTreeMap<K, V> {
        #[verifier::external_body]
        pub fn new() -> (r: Self) ensures r@ == Map::<K, V>::empty() { unimplemented!() }
        #[verifier::external_body]
        pub fn insert(&mut self, k: K, v: V) -> (r: Option<V>)
            ensures final(self)@ == old(self)@.insert(k, v),
                    r == (if old(self)@.contains_key(k) { Some(old(self)@[k]) } else { None::<V> }),
        { unimplemented!() }
        #[verifier::external_body]
        pub fn get_mut(&mut self, k: &K) -> (r: Option<&mut V>)
            ensures (r is Some) == old(self)@.contains_key(*k),
                r matches Some(v) ==> *v == old(self)@[*k] && final(self)@ == old(self)@.insert(*k, *final(v)),
                r is None ==> final(self)@ == old(self)@,
        { unimplemented!() }
        #[verifier::external_body]
        pub fn values_mut(&mut self) -> (it: ValuesMut<'_, K, V>)
            ensures it.ks.no_duplicates(), it.ks.to_set() == old(self)@.dom(), final(self)@.dom() == old(self)@.dom(),
        { unimplemented!() }
    }
    impl<K, V: Clone> Clone for BTreeMap<K, V> {
        #[verifier::external_body]
        fn clone(&self) -> (r: Self) ensures r@.dom() == self@.dom() { unimplemented!() }
    }
//@trusted std::collections::BTreeMap::{new,insert,get_mut,values_mut,clone} (handler map unit): map semantics; values_mut() yields every value exactly once; clone keeps the key set (the Arc'd handler cells are shared)
    pub struct Mutex<T> { pub t: T }
    pub trait RequestHandler {}
//@item rodbus/src/server/handler.rs | ServerHandlerType
//@item rodbus/src/server/handler.rs | ServerHandlerMap | derive=
    impl<T> Clone for ServerHandlerMap<T> where T: RequestHandler {
//@fn rodbus/src/server/handler.rs | Clone for ServerHandlerMap<T>::clone | tags=C15,C17
//@|    ensures r.handlers@.dom() == self.handlers@.dom(),
    }
    impl<T> ServerHandlerMap<T> where T: RequestHandler {
//@fn rodbus/src/server/handler.rs | ServerHandlerMap<T>::new | tags=C17
//@|    ensures r.handlers@.dom() == Set::<UnitId>::empty(),
//@fn rodbus/src/server/handler.rs | ServerHandlerMap<T>::single | tags=C01,C17
//@|    ensures r.handlers@ == Map::<UnitId, ServerHandlerType<T>>::empty().insert(id, handler),
// [C01,C17] a frame is served by exactly the handler configured for its unit id, or by none
//@fn rodbus/src/server/handler.rs | ServerHandlerMap<T>::get | tags=C01,C17
//@|    ensures (r is Some) == old(self).handlers@.contains_key(id),
//@|        r matches Some(h) ==> *h == old(self).handlers@[id] && final(self).handlers@.dom() == old(self).handlers@.dom(),
//@|        r is None ==> final(self).handlers@ == old(self).handlers@,
//@fn rodbus/src/server/handler.rs | ServerHandlerMap<T>::add | tags=C01,C17
//@|    ensures final(self).handlers@ == old(self).handlers@.insert(id, server),
//@|        (r is Some) == old(self).handlers@.contains_key(id),
// [C17] the broadcast fan-out visits every configured unit exactly once
//@fn rodbus/src/server/handler.rs | ServerHandlerMap<T>::iter_mut | tags=C02,C17 | sub=impl Iterator<Item = &mut ServerHandlerType<T>>=>ValuesMut<'_, UnitId, ServerHandlerType<T>>
//@|    ensures r.ks.no_duplicates(), r.ks.to_set() == old(self).handlers@.dom(), final(self).handlers@.dom() == old(self).handlers@.dom(),
    }
}}
} // verus!
fn main() {}
