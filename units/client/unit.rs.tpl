use vstd::prelude::*;
verus! {
//@set client
//@include frag/proto_modules.tpl
} // verus!
fn main() {}
