use vstd::prelude::*;
verus! {
//@include frag/proto_modules.tpl
} // verus!
fn main() {}
