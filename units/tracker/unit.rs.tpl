use vstd::prelude::*;
verus! {
//@set accept
//@include frag/std.tpl
//@include frag/core_modules.tpl
pub mod common {
    pub mod bits {
//@include frag/common_bits.tpl
    }
    pub mod function {
//@include frag/common_function.tpl
    }
}
pub mod decode {
//@include frag/decode.tpl
}
pub mod shims {
    pub mod scursor {
//@include frag/scursor_shim.tpl
    }
    pub mod btree {
//@include frag/btree_shim.tpl
    }
    pub mod net2 {
//@include frag/net2_shim.tpl
    }
    pub mod tokio {
//@include frag/tokio_shim.tpl
    }
}
pub mod server {
    pub mod task {
        use crate::decode::DecodeLevel;
//@item rodbus/src/server/task.rs | ServerCommand
    }
    pub mod types {
//@include frag/server_types.tpl
    }
    pub mod handler {
//@include frag/server_handler_min.tpl
    }
    pub mod address_filter {
//@include frag/server_address_filter.tpl
    }
//@include frag/server_mod.tpl
}
pub mod serial {
    pub mod server {
        use vstd::prelude::*;
        // the RTU server task is opaque in this unit (it is under contract in the client/proto units)
        pub struct RtuServerTask<T> { pub p: core::marker::PhantomData<T> }
        impl<T> RtuServerTask<T> {
            #[verifier::external_body]
            pub async fn run(&mut self) -> (r: crate::error::Shutdown) { unimplemented!() }
        }
    }
}
pub mod tcp {
    pub mod tls {
        // opaque TLS configuration (its construction is the subject of the tls unit)
        pub struct TlsServerConfig { pub x: u8 }
    }
    pub mod server {
//@include frag/tcp_server_tracker.tpl
//@include frag/tcp_server_task.tpl
    }
}
} // verus!
fn main() {}
