use vstd::prelude::*;
verus! {
//@set accept
//@include frag/std.tpl
//@include frag/core_modules.tpl
pub mod common {
    pub mod bits {
//@include frag/common_bits.tpl
    }
    pub mod function {
//@include frag/common_function.tpl
    }
    // the framing halves and the physical layer as the session start sees them: opaque values that remember which framing they
    // speak, under which TLS configuration the layer was established and which authorization was established for it
    pub mod frame {
        use vstd::prelude::*;
        pub struct FrameWriter { pub ghost is_tcp: bool }
        pub struct FramedReader { pub ghost is_tcp: bool }
        impl FrameWriter {
            #[verifier::external_body]
            pub fn tcp() -> (r: Self) ensures r.is_tcp { unimplemented!() }
            #[verifier::external_body]
            pub fn rtu() -> (r: Self) ensures !r.is_tcp { unimplemented!() }
        }
        impl FramedReader {
            #[verifier::external_body]
            pub fn tcp() -> (r: Self) ensures r.is_tcp { unimplemented!() }
            #[verifier::external_body]
            pub fn rtu_request() -> (r: Self) ensures !r.is_tcp { unimplemented!() }
        }
    }
    pub mod phys {
        use vstd::prelude::*;
        use crate::server::task::AuthorizationType;
        pub struct PhysLayer { pub ghost tls_by: Option<int>, pub ghost auth: AuthorizationType }
        impl PhysLayer {
            // a plain TCP layer: no TLS, and no authorization was established for it
            #[verifier::external_body]
            pub fn new_tcp(socket: crate::shims::net2::TcpStream) -> (r: Self) ensures r.tls_by is None, r.auth is None { unimplemented!() }
        }
    }
}
//@trusted FrameWriter::tcp / FramedReader::tcp / PhysLayer::new_tcp in the accept-loop unit: opaque constructors (the real ones are under contract in the framing / proto units)
pub mod decode {
//@include frag/decode.tpl
}
pub mod shims {
    pub mod scursor {
//@include frag/scursor_shim.tpl
    }
    pub mod btree {
//@include frag/btree_shim.tpl
    }
    pub mod net2 {
//@include frag/net2_shim.tpl
    }
    pub mod tokio {
//@include frag/tokio_shim.tpl
    }
}
pub mod server {
    pub mod task {
        use vstd::prelude::*;
        use std::sync::Arc;
        use crate::decode::DecodeLevel;
        use crate::server::handler::{AuthorizationHandler, RequestHandler, ServerHandlerMap};
        use crate::common::frame::{FrameWriter, FramedReader};
        use crate::common::phys::PhysLayer;
        use crate::error::RequestError;
        use crate::shims::tokio;
//@item rodbus/src/server/task.rs | ServerCommand
//@item rodbus/src/server/task.rs | AuthorizationType
        // the session task as the session start sees it (its real code is under contract in the proto unit).  The preconditions of
        // `run` ARE the session-start policy [C05, C08, C09]: a session speaks MBAP on both halves and runs over a layer only with the
        // authorization that was established for that very layer (none for plain TCP; for TLS whatever the handshake produced)
        pub struct SessionTask<T> { pub ghost auth: AuthorizationType, pub ghost writer_tcp: bool, pub ghost reader_tcp: bool, pub _p: core::marker::PhantomData<T> }
        impl<T> SessionTask<T> where T: RequestHandler {
            #[verifier::external_body]
            pub fn new(handlers: ServerHandlerMap<T>, auth: AuthorizationType, writer: FrameWriter, reader: FramedReader,
                       commands: tokio::sync::mpsc::Receiver<ServerCommand>, decode: DecodeLevel) -> (r: Self)
                ensures r.auth == auth, r.writer_tcp == writer.is_tcp, r.reader_tcp == reader.is_tcp,
            { unimplemented!() }
            #[verifier::external_body]
            pub async fn run(&mut self, io: &mut PhysLayer) -> (r: RequestError)
                requires old(self).writer_tcp, old(self).reader_tcp, old(io).auth == old(self).auth,
            { unimplemented!() }
        }
    }
    pub mod types {
//@include frag/server_types.tpl
    }
    pub mod handler {
//@include frag/server_handler_min.tpl
    }
    pub mod address_filter {
//@include frag/server_address_filter.tpl
    }
//@include frag/server_mod.tpl
}
pub mod serial {
    pub mod server {
        use vstd::prelude::*;
        // the RTU server task is opaque in this unit (it is under contract in the client/proto units)
        pub struct RtuServerTask<T> { pub p: core::marker::PhantomData<T> }
        impl<T> RtuServerTask<T> {
            #[verifier::external_body]
            pub async fn run(&mut self) -> (r: crate::error::Shutdown) { unimplemented!() }
        }
    }
}
pub mod tcp {
    pub mod tls {
        use vstd::prelude::*;
        use std::sync::Arc;
        use crate::server::handler::AuthorizationHandler;
        use crate::server::task::AuthorizationType;
        use crate::common::phys::PhysLayer;
        // opaque TLS configuration (its construction and its handle_connection are the subject of the tls unit)
        pub struct TlsServerConfig { pub ghost id: int }
        impl TlsServerConfig {
            // assumed here, proved in the tls unit: a layer comes only out of a handshake under this configuration, and the
            // authorization returned with it is none without a handler, else that handler with the role of the peer's certificate
            #[verifier::external_body]
            pub async fn handle_connection(&mut self, socket: crate::shims::net2::TcpStream, auth_handler: Option<Arc<dyn AuthorizationHandler>>)
                -> (r: Result<(PhysLayer, AuthorizationType), String>)
                ensures final(self).id == old(self).id,
                    r matches Ok(p) ==> p.0.tls_by == Some(old(self).id) && p.0.auth == p.1
                        && (auth_handler is None ==> p.1 is None)
                        && (auth_handler matches Some(h) ==> p.1 is Handler && p.1->Handler_0 == h),
            { unimplemented!() }
        }
    }
    pub mod server {
//@include frag/tcp_server_tracker.tpl
//@include frag/tcp_server_task.tpl
    }
}
} // verus!
fn main() {}
