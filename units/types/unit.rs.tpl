use vstd::prelude::*;
verus! {
//@include frag/std.tpl
//@include frag/error.tpl
//@include frag/constants.tpl
//@include frag/exception.tpl
//@include frag/bits_function.tpl
//@include frag/types.tpl
} // verus!
fn main() {}
