use vstd::prelude::*;
// ---- sockets, name resolution, TLS connector: the environment (trusted, no behaviour assumed beyond the types) ----
pub struct SocketAddr { pub x: u8 }
pub struct TcpStream { pub x: u8 }
impl TcpStream {
    #[verifier::external_body]
    pub fn peer_addr(&self) -> (r: Result<SocketAddr, std::io::Error>) { unimplemented!() }
    #[verifier::external_body]
    pub fn set_nodelay(&self, v: bool) -> (r: Result<(), std::io::Error>) { unimplemented!() }
}
impl crate::common::phys::PhysLayer {
    #[verifier::external_body]
    pub fn new_tcp(socket: TcpStream) -> (r: crate::common::phys::PhysLayer) ensures r.sent.len() == 0, r.tls_by is None, { unimplemented!() }
}
// serial ports
pub struct SerialStream { pub x: u8 }
#[derive(Clone, Copy)]
pub struct SerialSettings { pub x: u8 }
#[verifier::external_body]
pub fn open(path: &str, settings: SerialSettings) -> (r: Result<SerialStream, std::io::Error>) { unimplemented!() }
impl crate::common::phys::PhysLayer {
    #[verifier::external_body]
    pub fn new_serial(stream: SerialStream) -> (r: crate::common::phys::PhysLayer) ensures r.sent.len() == 0, { unimplemented!() }
}
pub struct HostAddr { pub x: u8 }
impl HostAddr {
    #[verifier::external_body]
    pub async fn connect(&self) -> (r: Result<TcpStream, std::io::Error>) { unimplemented!() }
}
pub struct TlsClientConfig { pub ghost id: int }
impl TlsClientConfig {
    // the TLS handshake: Ok only for a peer the TLS library accepted (not modelled, see C09)
    #[verifier::external_body]
    pub async fn handle_connection(&mut self, socket: TcpStream, endpoint: &HostAddr) -> (r: Result<crate::common::phys::PhysLayer, std::io::Error>)
        ensures r is Ok ==> r->Ok_0.sent.len() == 0 && r->Ok_0.tls_by == Some(old(self).id), final(self).id == old(self).id,
    { unimplemented!() }
}
//@trusted tokio::net::TcpStream, HostAddr::connect: opaque environment; TlsClientConfig::handle_connection: assumed contract here (the layer it returns was established under this configuration) - its real body is under contract in the tls unit
