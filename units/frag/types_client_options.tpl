// ---- client options (types.rs): builder-style configuration handed to the channel constructors ----
use crate::decode::DecodeLevel;
use std::num::NonZeroUsize;
//@item rodbus/src/types.rs | ClientOptions | derive=Clone,Copy
impl ClientOptions {
// each builder method sets its own field and nothing else [C12: the consecutive-timeout limit; C20: the decode level]
//@fn rodbus/src/types.rs | ClientOptions::channel_logging | tags=C10,C12,C13,C20
//@|    ensures r == (ClientOptions { channel_logging, ..self }),
//@fn rodbus/src/types.rs | ClientOptions::max_queued_requests | tags=C10,C12,C13,C20
//@|    ensures r == (ClientOptions { max_queued_requests, ..self }),
//@fn rodbus/src/types.rs | ClientOptions::decode_level | tags=C10,C12,C13,C20
//@|    ensures r == (ClientOptions { decode_level, ..self }),
//@fn rodbus/src/types.rs | ClientOptions::max_response_timeouts | tags=C10,C12,C13,C20
//@|    ensures r == (ClientOptions { max_timeouts, ..self }),
}
impl Default for ClientOptions {
// (the default values themselves are not specified by any property: the function is only checked for the implicit obligations)
//@fn rodbus/src/types.rs | Default for ClientOptions::default | tags=C12
}
