use crate::client::message::Promise;
use crate::decode::AppDecodeLevel;

//@item rodbus/src/client/requests/write_multiple.rs | MultipleWriteRequest

impl<T> MultipleWriteRequest<T> where WriteMultiple<T>: Serialize {
//@fn rodbus/src/client/requests/write_multiple.rs | MultipleWriteRequest<T>::new | tags=C03
//@|    ensures r.request == request, r.promise == promise,
//@fn rodbus/src/client/requests/write_multiple.rs | MultipleWriteRequest<T>::serialize | tags=C03
//@|    requires old(cursor).wf(), self.request.ser_pre(),
//@|    ensures final(cursor).wf(), final(cursor).cap() == old(cursor).cap(), final(cursor).pos >= old(cursor).pos,
//@|        final(final(cursor).dest)@ == final(old(cursor).dest)@,
//@|        (forall|i: int| 0 <= i < old(cursor).pos ==> #[trigger] final(cursor).buf()[i] == old(cursor).buf()[i]),
//@|        r is Ok ==> self.request.ser_ok(final(cursor).buf().subrange(old(cursor).pos as int, final(cursor).pos as int)),
//@|        r matches Err(RequestError::Exception(e)) ==> self.request.ser_exc(e),
//@|        r is Err ==> (r->Err_0 is Exception || r->Err_0 is Internal || (r->Err_0 is BadRequest && self.request.ser_may_reject())),
//@fn rodbus/src/client/requests/write_multiple.rs | MultipleWriteRequest<T>::failure | tags=C10
//@|    ensures final(self).request == old(self).request,
//@|        final(self).promise.outcome() == (if old(self).promise.outcome() is None { Some(Err::<AddressRange, RequestError>(err)) } else { old(self).promise.outcome() }),
// [C04] a write-multiple succeeds only if the reply is exactly 4 bytes and echoes start address and quantity
//@fn rodbus/src/client/requests/write_multiple.rs | MultipleWriteRequest<T>::handle_response | tags=C04,C10,C20 | r10 r10id=0
//@|    requires cursor.wf(),
//@|    ensures final(self).request == old(self).request,
//@|        r is Ok <==> (cursor.rest().len() == 4 && <AddressRange as Parse>::spec_parse(cursor.rest()) == Some(old(self).request.range)),
//@|        r is Err ==> final(self).promise.outcome() == old(self).promise.outcome() && (r->Err_0 is BadResponse || r->Err_0 is BadRequest),
//@|        r is Ok ==> final(self).promise.outcome() == (if old(self).promise.outcome() is None { Some(Ok::<AddressRange, RequestError>(old(self).request.range)) } else { old(self).promise.outcome() }),
//@fn rodbus/src/client/requests/write_multiple.rs | MultipleWriteRequest<T>::parse_all | tags=C04,C07 | r10 r10id=0
//@|    requires cursor.wf(),
//@|    ensures
//@|        r is Ok <==> (cursor.rest().len() == 4 && <AddressRange as Parse>::spec_parse(cursor.rest()) == Some(self.request.range)),
//@|        r is Ok ==> r->Ok_0 == self.request.range,
//@|        r is Err ==> (r->Err_0 is BadResponse || r->Err_0 is BadRequest),
}
