// ---- serializers that query the application's point handlers (BitWriter / RegisterWriter) ----
use crate::server::response::{BitWriter, RegisterWriter};

pub open spec fn bit(b: u8, k: int) -> bool { (b >> (k as u8)) & 1u8 == 1u8 }
pub open spec fn pow2_8(n: int) -> int {
    if n <= 0 { 1 } else if n == 1 { 2 } else if n == 2 { 4 } else if n == 3 { 8 } else if n == 4 { 16 } else if n == 5 { 32 } else if n == 6 { 64 } else if n == 7 { 128 } else { 256 }
}
pub proof fn lemma_pow2_8(n: u8) requires n <= 8 ensures pow2_8(n as int) == (1u16 << (n as u16)) as int {
    assert((1u16 << 0u16) == 1 && (1u16 << 1u16) == 2 && (1u16 << 2u16) == 4 && (1u16 << 3u16) == 8 && (1u16 << 4u16) == 16 && (1u16 << 5u16) == 32 && (1u16 << 6u16) == 64 && (1u16 << 7u16) == 128 && (1u16 << 8u16) == 256) by (bit_vector);
}
pub proof fn lemma_set_bit(acc: u8, n: u8)
    requires n < 8, (acc as int) < pow2_8(n as int)
    ensures
        forall|k: u8| k < n ==> #[trigger] bit((acc | (1u8 << n)), k as int) == bit(acc, k as int),
        bit((acc | (1u8 << n)), n as int),
        !bit(acc, n as int),
        ((acc | (1u8 << n)) as int) < pow2_8(n as int + 1),
        (acc as int) < pow2_8(n as int + 1),
        forall|k: u8| n <= k < 8 ==> !#[trigger] bit(acc, k as int),
{
    assert(pow2_8(n as int) == (1u16 << (n as u16)) as int) by { lemma_pow2_8(n); }
    assert(pow2_8(n as int + 1) == (1u16 << ((n + 1) as u16)) as int) by { lemma_pow2_8((n + 1) as u8); }
    assert(forall|k: u8| k < n ==> ((acc | (1u8 << n)) >> k) & 1u8 == (acc >> k) & 1u8) by (bit_vector) requires n < 8;
    assert(((acc | (1u8 << n)) >> n) & 1u8 == 1u8) by (bit_vector) requires n < 8;
    assert(forall|k: u8| n <= k < 8 ==> (acc >> k) & 1u8 == 0u8) by (bit_vector) requires n < 8, (acc as u16) < (1u16 << (n as u16));
    assert(((acc | (1u8 << n)) as u16) < (1u16 << ((n + 1) as u16))) by (bit_vector) requires n < 8, (acc as u16) < (1u16 << (n as u16));
    assert((acc as u16) < (1u16 << ((n + 1) as u16))) by (bit_vector) requires n < 8, (acc as u16) < (1u16 << (n as u16));
}
pub proof fn lemma_zero_bits()
    ensures forall|k: u8| k < 8 ==> !#[trigger] bit(0u8, k as int)
{
    assert(forall|k: u8| k < 8 ==> (0u8 >> k) & 1u8 == 0u8) by (bit_vector);
}
// `bit` is the LSB-first numbering of the property text (bit k has value 2^k)
pub proof fn lemma_bit_is_spec_bit(b: u8, k: u8) requires k < 8 ensures bit(b, k as int) == crate::types::spec_bit_of_byte(b, k)
{
    assert(((b >> k) & 1u8 == 1u8) == (b & (1u8 << k) != 0)) by (bit_vector) requires k < 8;
}

// the point handler reported value `b` for address start+i  /  refused it with exception e
pub open spec fn reported<T: Fn(u16) -> Result<bool, ExceptionCode>>(g: T, start: u16, i: int, b: bool) -> bool {
    g.ensures(((start + i) as u16,), Ok(b))
}
pub open spec fn refused<T: Fn(u16) -> Result<bool, ExceptionCode>>(g: T, start: u16, i: int, e: ExceptionCode) -> bool {
    g.ensures(((start + i) as u16,), Err(e))
}
// value of output bit i while the loop runs: in a flushed byte or still in the accumulator
pub open spec fn out_bit(w: Seq<u8>, base: int, j: int, acc: u8, i: int) -> bool {
    if i / 8 < j { bit(w[base + 1 + i / 8], i % 8) } else { bit(acc, i % 8) }
}

impl<T> Serialize for BitWriter<T> where T: Fn(u16) -> Result<bool, ExceptionCode> {
    // [C02] the getter may be consulted for addresses inside the requested range only: nothing is promised to it elsewhere
    open spec fn ser_pre(&self) -> bool {
        self.range.inner.wf() && self.range.inner.count <= 2000
        && forall|a: u16| self.range.inner.start <= a && (a as int) < self.range.inner.start + self.range.inner.count ==> self.getter.requires((a,))
    }
    // [C01] byte count, then the values the handler supplied, packed LSB-first, padding bits zero
    open spec fn ser_ok(&self, out: Seq<u8>) -> bool {
        let n = self.range.inner.count as int;
        &&& out.len() == 1 + (n + 7) / 8
        &&& out[0] as int == (n + 7) / 8
        &&& (forall|i: int| 0 <= i < n ==> #[trigger] reported(self.getter, self.range.inner.start, i, bit(out[1 + i / 8], i % 8)))
        &&& (n % 8 != 0 ==> forall|k: u8| n % 8 <= k < 8 ==> !#[trigger] bit(out[out.len() - 1], k as int))
    }
    // ... or the exception a handler raised for an address of the range
    open spec fn ser_exc(&self, e: ExceptionCode) -> bool {
        exists|i: int| 0 <= i < self.range.inner.count && #[trigger] refused(self.getter, self.range.inner.start, i, e)
    }
    open spec fn ser_may_reject(&self) -> bool { false }
//@fn rodbus/src/common/serialize.rs | Serialize for BitWriter<T>::serialize | tags=C01,C02,C07 | r10 r4
//@entry| lemma_zero_bits();
//@loop 0|            invariant
//@loop 0|                self.ser_pre(), range == self.range.inner,
//@loop 0|                cursor.wf(), cursor.cap() == old(cursor).cap(), final(cursor.dest)@ == final(old(cursor).dest)@,
//@loop 0|                it__0.remain <= range.count, it__0.wf(),
//@loop 0|                it__0.remain > 0 ==> it__0.current == range.start + (range.count - it__0.remain),
//@loop 0|                num_bits == (range.count - it__0.remain) % 8,
//@loop 0|                (acc as int) < pow2_8(num_bits as int),
//@loop 0|                cursor.pos == old(cursor).pos + 1 + (range.count - it__0.remain) / 8,
//@loop 0|                forall|k: int| 0 <= k < old(cursor).pos ==> #[trigger] cursor.buf()[k] == old(cursor).buf()[k],
//@loop 0|                cursor.buf()[old(cursor).pos as int] as int == (range.count as int + 7) / 8,
//@loop 0|                forall|i: int| 0 <= i < range.count - it__0.remain ==>
//@loop 0|                    #[trigger] reported(self.getter, range.start, i,
//@loop 0|                        out_bit(cursor.buf(), old(cursor).pos as int, (range.count - it__0.remain) / 8, acc, i)),
//@loop 0|                forall|k: u8| num_bits <= k < 8 ==> !#[trigger] bit(acc, k as int),
//@loop 0|            ensures it__0.remain == 0,
//@loop 0|            decreases it__0.remain
//@loopstart 0| let ghost w0 = cursor.buf(); let ghost acc0 = acc; let ghost done0 = range.count - it__0.remain; lemma_set_bit(acc, num_bits as u8);
//@tryexit 2| assert(refused(self.getter, range.start, done0 as int, e__));
//@loopend 0| let base = old(cursor).pos as int; let j0 = done0 / 8; let n0 = done0 % 8; let done1 = done0 + 1; let j1 = done1 / 8; let w1 = cursor.buf();
//@loopend 0| let cur = if n0 == 7 { w1[base + 1 + j0] } else { acc };
//@loopend 0| if n0 < 7 { lemma_set_bit(acc, (n0 + 1) as u8); } else { lemma_zero_bits(); }
//@loopend 0| assert forall|i: int| 0 <= i < done1 implies #[trigger] reported(self.getter, range.start, i, out_bit(w1, base, j1, acc, i)) by {
//@loopend 0|     if i < done0 {
//@loopend 0|         assert(reported(self.getter, range.start, i, out_bit(w0, base, j0, acc0, i)));
//@loopend 0|         if i / 8 < j0 { assert(w1[base + 1 + i / 8] == w0[base + 1 + i / 8]); } else { assert(i / 8 == j0 && i % 8 < n0); assert(bit(cur, i % 8) == bit(acc0, i % 8)); }
//@loopend 0|     } else { assert(i == done0 && i / 8 == j0 && i % 8 == n0); }
//@loopend 0| }
//@afterloop 0| let ghost w_loop = cursor.buf(); let ghost acc_loop = acc;
//@exit 0| let base = old(cursor).pos as int; let n = range.count as int; let w = cursor.buf(); let out = w.subrange(base, cursor.pos as int);
//@exit 0| assert forall|i: int| 0 <= i < n implies #[trigger] reported(self.getter, range.start, i, bit(out[1 + i / 8], i % 8)) by {
//@exit 0|     assert(reported(self.getter, range.start, i, out_bit(w_loop, base, n / 8, acc_loop, i)));
//@exit 0|     if i / 8 < n / 8 { assert(w[base + 1 + i / 8] == w_loop[base + 1 + i / 8]); }
//@exit 0| }
}
impl<T> Loggable for BitWriter<T> where T: Fn(u16) -> Result<bool, ExceptionCode> {}
impl<T> BitWriter<T> where T: Fn(u16) -> Result<bool, ExceptionCode> {
// [C20] (as for the register writer below: no access to the handler from the decoding path)
//@fn rodbus/src/common/serialize.rs | Loggable for BitWriter<T>::log | tags=C07,C20 | inherent r28 r10 r10id=0
//@|    requires self.range.inner.wf() && self.range.inner.count <= 2000,      // the writer holds a validated, limited range (of_read_bits)
}

pub open spec fn reported_reg<T: Fn(u16) -> Result<u16, ExceptionCode>>(g: T, start: u16, i: int, v: u16) -> bool {
    g.ensures(((start + i) as u16,), Ok(v))
}
pub open spec fn refused_reg<T: Fn(u16) -> Result<u16, ExceptionCode>>(g: T, start: u16, i: int, e: ExceptionCode) -> bool {
    g.ensures(((start + i) as u16,), Err(e))
}
pub open spec fn be16_at(w: Seq<u8>, i: int) -> u16 { (w[i] as int * 256 + w[i + 1] as int) as u16 }

impl<T> Serialize for RegisterWriter<T> where T: Fn(u16) -> Result<u16, ExceptionCode> {
    open spec fn ser_pre(&self) -> bool {
        self.range.inner.wf() && self.range.inner.count <= 125
        && forall|a: u16| self.range.inner.start <= a && (a as int) < self.range.inner.start + self.range.inner.count ==> self.getter.requires((a,))
    }
    // [C01] byte count, then the values the handler supplied, big-endian
    open spec fn ser_ok(&self, out: Seq<u8>) -> bool {
        let n = self.range.inner.count as int;
        &&& out.len() == 1 + 2 * n
        &&& out[0] as int == 2 * n
        &&& (forall|i: int| 0 <= i < n ==> #[trigger] reported_reg(self.getter, self.range.inner.start, i, be16_at(out, 1 + 2 * i)))
    }
    open spec fn ser_exc(&self, e: ExceptionCode) -> bool {
        exists|i: int| 0 <= i < self.range.inner.count && #[trigger] refused_reg(self.getter, self.range.inner.start, i, e)
    }
    open spec fn ser_may_reject(&self) -> bool { false }
//@fn rodbus/src/common/serialize.rs | Serialize for RegisterWriter<T>::serialize | tags=C01,C02,C07 | r10 r4
//@loop 0|            invariant
//@loop 0|                self.ser_pre(),
//@loop 0|                cursor.wf(), cursor.cap() == old(cursor).cap(), final(cursor.dest)@ == final(old(cursor).dest)@,
//@loop 0|                it__0.remain <= self.range.inner.count, it__0.wf(),
//@loop 0|                it__0.remain > 0 ==> it__0.current == self.range.inner.start + (self.range.inner.count - it__0.remain),
//@loop 0|                cursor.pos == old(cursor).pos + 1 + 2 * (self.range.inner.count - it__0.remain),
//@loop 0|                forall|k: int| 0 <= k < old(cursor).pos ==> #[trigger] cursor.buf()[k] == old(cursor).buf()[k],
//@loop 0|                cursor.buf()[old(cursor).pos as int] as int == 2 * self.range.inner.count as int,
//@loop 0|                forall|i: int| 0 <= i < self.range.inner.count - it__0.remain ==>
//@loop 0|                    #[trigger] reported_reg(self.getter, self.range.inner.start, i, be16_at(cursor.buf(), old(cursor).pos + 1 + 2 * i)),
//@loop 0|            ensures it__0.remain == 0,
//@loop 0|            decreases it__0.remain
//@loopstart 0| let ghost w0 = cursor.buf(); let ghost done0 = self.range.inner.count - it__0.remain;
//@tryexit 2| assert(refused_reg(self.getter, self.range.inner.start, done0 as int, e__));
//@loopend 0| let base = old(cursor).pos as int; let w1 = cursor.buf();
//@loopend 0| assert forall|i: int| 0 <= i < done0 + 1 implies #[trigger] reported_reg(self.getter, self.range.inner.start, i, be16_at(w1, base + 1 + 2 * i)) by {
//@loopend 0|     if i < done0 { assert(reported_reg(self.getter, self.range.inner.start, i, be16_at(w0, base + 1 + 2 * i))); assert(w1[base + 1 + 2 * i] == w0[base + 1 + 2 * i]); assert(w1[base + 2 + 2 * i] == w0[base + 2 + 2 * i]); }
//@loopend 0| }
//@exit 0| let base = old(cursor).pos as int; let n = self.range.inner.count as int; let w = cursor.buf(); let out = w.subrange(base, cursor.pos as int);
//@exit 0| assert forall|i: int| 0 <= i < n implies #[trigger] reported_reg(self.getter, self.range.inner.start, i, be16_at(out, 1 + 2 * i)) by {
//@exit 0|     assert(reported_reg(self.getter, self.range.inner.start, i, be16_at(w, base + 1 + 2 * i)));
//@exit 0| }
}
impl<T> Loggable for RegisterWriter<T> where T: Fn(u16) -> Result<u16, ExceptionCode> {}
impl<T> RegisterWriter<T> where T: Fn(u16) -> Result<u16, ExceptionCode> {
// [C20] decoding (logging) never consults the application handler: the precondition of the getter is deliberately NOT available here,
// so a call of `(self.getter)(..)` in this function cannot be proved
//@fn rodbus/src/common/serialize.rs | Loggable for RegisterWriter<T>::log | tags=C07,C20 | inherent r28 r10 r10id=0
//@|    requires self.range.inner.wf() && self.range.inner.count <= 125,      // the writer holds a validated, limited range (of_read_registers)
}
