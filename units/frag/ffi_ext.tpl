use vstd::prelude::*;
use crate::ffi;
use crate::rodbus;

// [C18] the result of an application write callback: success, the same-named standard exception, or the raw code
pub open spec fn spec_write_result(w: ffi::WriteResult) -> Result<(), rodbus::ExceptionCode> {
    if w.success { Ok(()) } else { Err(match ffi::modbus_exception_of(w.exception) {
        ffi::ModbusException::Acknowledge => rodbus::ExceptionCode::Acknowledge,
        ffi::ModbusException::GatewayPathUnavailable => rodbus::ExceptionCode::GatewayPathUnavailable,
        ffi::ModbusException::GatewayTargetDeviceFailedToRespond => rodbus::ExceptionCode::GatewayTargetDeviceFailedToRespond,
        ffi::ModbusException::IllegalDataAddress => rodbus::ExceptionCode::IllegalDataAddress,
        ffi::ModbusException::IllegalDataValue => rodbus::ExceptionCode::IllegalDataValue,
        ffi::ModbusException::IllegalFunction => rodbus::ExceptionCode::IllegalFunction,
        ffi::ModbusException::MemoryParityError => rodbus::ExceptionCode::MemoryParityError,
        ffi::ModbusException::ServerDeviceBusy => rodbus::ExceptionCode::ServerDeviceBusy,
        ffi::ModbusException::ServerDeviceFailure => rodbus::ExceptionCode::ServerDeviceFailure,
        ffi::ModbusException::Unknown => rodbus::ExceptionCode::Unknown(w.raw_exception),
    }) }
}
impl ffi::WriteResult {
//@fn ffi/rodbus-ffi/src/helpers/ext.rs | ffi::WriteResult::convert_to_result | tags=C18
//@|    ensures r == spec_write_result(self),
}
