// ---- shim of the `crc` crate (trusted; cross-checked by Kani against the bit-serial CRC-16/MODBUS definition) ----
use vstd::prelude::*;
// CRC-16/MODBUS of a byte string: uninterpreted here (the contracts only need "the same function on both sides")
pub uninterp spec fn crc16(s: Seq<u8>) -> u16;

// crc16 is a function of the byte string up to extensional equality (provable: =~= implies ==)
pub broadcast proof fn lemma_crc16_ext(a: Seq<u8>, b: Seq<u8>)
    requires a =~= b
    ensures #[trigger] crc16(a) == #[trigger] crc16(b)
{}

pub struct Algorithm<W> { pub w: W }
pub struct Crc<W> { pub w: W }
pub struct Digest { pub ghost data: Seq<u8> }
pub const CRC_16_MODBUS: Algorithm<u16> = Algorithm { w: 0 };

impl Crc<u16> {
    pub const fn new(alg: &Algorithm<u16>) -> (r: Crc<u16>) { Crc { w: 0 } }
    #[verifier::external_body]
    pub fn digest(&self) -> (r: Digest) ensures r.data == Seq::<u8>::empty() { unimplemented!() }
    #[verifier::external_body]
    pub fn checksum(&self, bytes: &[u8]) -> (r: u16) ensures r == crc16(bytes@) { unimplemented!() }
}
impl Digest {
    #[verifier::external_body]
    pub fn update(&mut self, bytes: &[u8]) ensures final(self).data == old(self).data + bytes@ { unimplemented!() }
    #[verifier::external_body]
    pub fn finalize(self) -> (r: u16) ensures r == crc16(self.data) { unimplemented!() }
}
//@trusted crc crate: Crc::<u16>::new(&CRC_16_MODBUS).{checksum(b), digest().update(b1)..finalize()} == crc16(b1 ++ ..) with crc16 uninterpreted; that this is CRC-16/MODBUS is cross-checked by Kani (per-byte step complete, whole messages bounded)
