use vstd::prelude::*;
use crate::common::function::FunctionCode;
use crate::common::traits::Parse;
use crate::error::RequestError;
use crate::exception::ExceptionCode;
use crate::server::types::*;
use crate::types::*;
use crate::shims::scursor::ReadCursor;
use crate::be16;
use crate::decode::AppDecodeLevel;

//@item rodbus/src/server/request.rs | Request | derive=
//@item rodbus/src/server/request.rs | BroadcastRequest | derive=

// ---- the reference decoder of the Modbus application protocol (from the property text, C01 / C02) ----
pub enum SpecRequest {
    ReadCoils(AddressRange),
    ReadDiscreteInputs(AddressRange),
    ReadHoldingRegisters(AddressRange),
    ReadInputRegisters(AddressRange),
    WriteSingleCoil(Indexed<bool>),
    WriteSingleRegister(Indexed<u16>),
    WriteMultipleCoils(AddressRange, Seq<bool>),
    WriteMultipleRegisters(AddressRange, Seq<u16>),
}
pub open spec fn body_range(body: Seq<u8>) -> AddressRange { AddressRange { start: be16(body, 0) as u16, count: be16(body, 2) as u16 } }

// Some(request) for a well-formed request within the protocol limits; None otherwise (answered with exception 03):
//   wrong length for its quantity, zero or address-overflowing range, undefined coil value,
//   more than 2000 bits / 125 registers to read, more than 1968 coils / 123 registers to write
pub open spec fn spec_parse_request(f: FunctionCode, body: Seq<u8>) -> Option<SpecRequest> {
    match f {
        FunctionCode::ReadCoils =>
            if body.len() == 4 && body_range(body).wf() && body_range(body).count <= 2000 { Some(SpecRequest::ReadCoils(body_range(body))) } else { None },
        FunctionCode::ReadDiscreteInputs =>
            if body.len() == 4 && body_range(body).wf() && body_range(body).count <= 2000 { Some(SpecRequest::ReadDiscreteInputs(body_range(body))) } else { None },
        FunctionCode::ReadHoldingRegisters =>
            if body.len() == 4 && body_range(body).wf() && body_range(body).count <= 125 { Some(SpecRequest::ReadHoldingRegisters(body_range(body))) } else { None },
        FunctionCode::ReadInputRegisters =>
            if body.len() == 4 && body_range(body).wf() && body_range(body).count <= 125 { Some(SpecRequest::ReadInputRegisters(body_range(body))) } else { None },
        FunctionCode::WriteSingleCoil =>
            if body.len() == 4 && (be16(body, 2) == 0xFF00 || be16(body, 2) == 0) {
                Some(SpecRequest::WriteSingleCoil(Indexed { index: be16(body, 0) as u16, value: be16(body, 2) == 0xFF00 })) } else { None },
        FunctionCode::WriteSingleRegister =>
            if body.len() == 4 { Some(SpecRequest::WriteSingleRegister(Indexed { index: be16(body, 0) as u16, value: be16(body, 2) as u16 })) } else { None },
        FunctionCode::WriteMultipleCoils =>
            if body.len() >= 5 && body_range(body).wf() && body_range(body).count <= 1968
                && body.len() == 5 + (body_range(body).count as int + 7) / 8 {
                Some(SpecRequest::WriteMultipleCoils(body_range(body),
                    Seq::new(body_range(body).count as nat, |k: int| spec_bit(body.subrange(5, body.len() as int), k)))) } else { None },
        FunctionCode::WriteMultipleRegisters =>
            if body.len() >= 5 && body_range(body).wf() && body_range(body).count <= 123
                && body.len() == 5 + 2 * body_range(body).count as int {
                Some(SpecRequest::WriteMultipleRegisters(body_range(body),
                    Seq::new(body_range(body).count as nat, |k: int| be16(body.subrange(5, body.len() as int), 2 * k) as u16))) } else { None },
    }
}

// equality of decoded requests, with the value sequences compared element by element
pub open spec fn spec_req_eq(a: SpecRequest, b: SpecRequest) -> bool {
    match (a, b) {
        (SpecRequest::ReadCoils(x), SpecRequest::ReadCoils(y)) => x == y,
        (SpecRequest::ReadDiscreteInputs(x), SpecRequest::ReadDiscreteInputs(y)) => x == y,
        (SpecRequest::ReadHoldingRegisters(x), SpecRequest::ReadHoldingRegisters(y)) => x == y,
        (SpecRequest::ReadInputRegisters(x), SpecRequest::ReadInputRegisters(y)) => x == y,
        (SpecRequest::WriteSingleCoil(x), SpecRequest::WriteSingleCoil(y)) => x == y,
        (SpecRequest::WriteSingleRegister(x), SpecRequest::WriteSingleRegister(y)) => x == y,
        (SpecRequest::WriteMultipleCoils(x, v), SpecRequest::WriteMultipleCoils(y, w)) => x == y && v =~= w,
        (SpecRequest::WriteMultipleRegisters(x, v), SpecRequest::WriteMultipleRegisters(y, w)) => x == y && v =~= w,
        _ => false,
    }
}
pub proof fn lemma_spec_req_eq(a: SpecRequest, b: SpecRequest) requires spec_req_eq(a, b) ensures a == b {}

impl<'a> Request<'a> {
    // what a decoded request means: for the multiple writes, the range and the exact sequence of values the lazy iterator will yield
    pub open spec fn view(&self) -> SpecRequest {
        match self {
            Request::ReadCoils(x) => SpecRequest::ReadCoils(x.inner),
            Request::ReadDiscreteInputs(x) => SpecRequest::ReadDiscreteInputs(x.inner),
            Request::ReadHoldingRegisters(x) => SpecRequest::ReadHoldingRegisters(x.inner),
            Request::ReadInputRegisters(x) => SpecRequest::ReadInputRegisters(x.inner),
            Request::WriteSingleCoil(x) => SpecRequest::WriteSingleCoil(*x),
            Request::WriteSingleRegister(x) => SpecRequest::WriteSingleRegister(*x),
            Request::WriteMultipleCoils(x) => SpecRequest::WriteMultipleCoils(x.range, x.iterator.spec_values()),
            Request::WriteMultipleRegisters(x) => SpecRequest::WriteMultipleRegisters(x.range, x.iterator.spec_values()),
        }
    }
    // iterators handed to handlers are fresh, well-formed and cover exactly the announced range
    pub open spec fn wf(&self) -> bool {
        match self {
            Request::ReadCoils(x) => x.inner.wf() && x.inner.count <= 2000,
            Request::ReadDiscreteInputs(x) => x.inner.wf() && x.inner.count <= 2000,
            Request::ReadHoldingRegisters(x) => x.inner.wf() && x.inner.count <= 125,
            Request::ReadInputRegisters(x) => x.inner.wf() && x.inner.count <= 125,
            Request::WriteSingleCoil(x) => true,
            Request::WriteSingleRegister(x) => true,
            Request::WriteMultipleCoils(x) => x.iterator.wf() && x.iterator.pos == 0 && x.iterator.range == x.range,
            Request::WriteMultipleRegisters(x) => x.iterator.wf() && x.iterator.pos == 0 && x.iterator.range == x.range,
        }
    }

//@fn rodbus/src/server/request.rs | Request<'a>::get_function | tags=C01,C08
//@|    ensures r == (match self@ {
//@|        SpecRequest::ReadCoils(_) => FunctionCode::ReadCoils, SpecRequest::ReadDiscreteInputs(_) => FunctionCode::ReadDiscreteInputs,
//@|        SpecRequest::ReadHoldingRegisters(_) => FunctionCode::ReadHoldingRegisters, SpecRequest::ReadInputRegisters(_) => FunctionCode::ReadInputRegisters,
//@|        SpecRequest::WriteSingleCoil(_) => FunctionCode::WriteSingleCoil, SpecRequest::WriteSingleRegister(_) => FunctionCode::WriteSingleRegister,
//@|        SpecRequest::WriteMultipleCoils(_, _) => FunctionCode::WriteMultipleCoils, SpecRequest::WriteMultipleRegisters(_, _) => FunctionCode::WriteMultipleRegisters }),

// a broadcast is applied only for the four writes; reads addressed to unit 0 are ignored [C17]
//@fn rodbus/src/server/request.rs | Request<'a>::into_broadcast_request | tags=C17
//@|    ensures
//@|        r is None <==> (self is ReadCoils || self is ReadDiscreteInputs || self is ReadHoldingRegisters || self is ReadInputRegisters),
//@|        self matches Request::WriteSingleCoil(x) ==> r == Some(BroadcastRequest::WriteSingleCoil(x)),
//@|        self matches Request::WriteSingleRegister(x) ==> r == Some(BroadcastRequest::WriteSingleRegister(x)),
//@|        self matches Request::WriteMultipleCoils(x) ==> r == Some(BroadcastRequest::WriteMultipleCoils(x)),
//@|        self matches Request::WriteMultipleRegisters(x) ==> r == Some(BroadcastRequest::WriteMultipleRegisters(x)),
//@|        r is None <==> crate::server::request::spec_call(self@) is None,
//@|        r matches Some(b) ==> Some(b@) == crate::server::request::spec_call(self@) && (self.wf() ==> b.wf()),

// [C01,C02] a request is decoded iff the reference decoder accepts it, and then it means the same thing
//@fn rodbus/src/server/request.rs | Request<'a>::parse | tags=C01,C02,C07
//@|    requires old(cursor).wf(), old(cursor).rest().len() <= 252,   // a PDU is at most 253 bytes including the function code
//@|    ensures
//@|        r is Ok <==> spec_parse_request(function, old(cursor).rest()) is Some,
//@|        r is Ok ==> spec_req_eq(spec_parse_request(function, old(cursor).rest())->Some_0, r->Ok_0@) && r->Ok_0.wf(),
//@|        r is Ok ==> spec_parse_request(function, old(cursor).rest()) == Some(r->Ok_0@),
//@exit 6| if r__ is Ok { lemma_spec_req_eq(spec_parse_request(function, old(cursor).rest())->Some_0, r__->Ok_0@); }
//@exit 7| if r__ is Ok { lemma_spec_req_eq(spec_parse_request(function, old(cursor).rest())->Some_0, r__->Ok_0@); }
}

// [C07,C20] the server-side request decoding for the log: for a request that came out of Request::parse, rendering it at any level
// iterates only values that exist (no panic, no overflow); what is printed is opaque (R28)
//@item rodbus/src/server/request.rs | RequestDisplay
impl<'a, 'b> RequestDisplay<'a, 'b> {
//@fn rodbus/src/server/request.rs | RequestDisplay<'a,'b>::new | tags=C07,C20
//@|    requires request.wf(),
//@|    ensures r.request == request, r.level == level,
//@fn rodbus/src/server/request.rs | std::fmt::Display for RequestDisplay<'_,'_>::fmt | tags=C07,C20 | inherent r28 r10 r10id=0,1,2,3,4,5,6,7,8
//@|    requires self.request.wf(),
}
