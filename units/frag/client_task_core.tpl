use vstd::prelude::*;
use crate::error::*;
use std::num::NonZeroUsize;

//@item rodbus/src/client/task.rs | SessionError | derive=
//@item rodbus/src/client/task.rs | StateChange

impl SessionError {
// C05/C10: framing and I/O errors end the session; every other request error leaves it running
//@fn rodbus/src/client/task.rs | SessionError::from_request_err | tags=C05,C10,C12
//@|    ensures
//@|        err matches RequestError::Io(x) ==> r == Some(SessionError::IoError(x)),
//@|        err is BadFrame ==> r == Some(SessionError::BadFrame),
//@|        !(err is Io) && !(err is BadFrame) ==> r is None,
}

//@item rodbus/src/client/task.rs | TimeoutCounterState
//@item rodbus/src/client/task.rs | TimeoutCounter

// ---- C12: the consecutive-timeout counter as a state machine ----
impl TimeoutCounter {
    pub open spec fn limit(&self) -> Option<usize> {
        match self.state { TimeoutCounterState::Disabled => None, TimeoutCounterState::Enabled { current, max } => Some(max) }
    }
    // number of consecutive timeouts counted so far
    pub open spec fn count(&self) -> usize {
        match self.state { TimeoutCounterState::Disabled => 0, TimeoutCounterState::Enabled { current, max } => current }
    }

// (NonZero::get has a sealed generic signature that assume_specification cannot name: the body is left to Kani,
//  harness k_timeout_counter_new [complete], and only the contract is used here)
//@fn rodbus/src/client/task.rs | TimeoutCounter::new | tags=C12 | ext_body
//@|    ensures r.count() == 0,
//@|        max_timeouts is None ==> r.limit() is None,
//@|        max_timeouts is Some ==> r.limit() == Some(crate::nz_value(max_timeouts->Some_0)) && crate::nz_value(max_timeouts->Some_0) >= 1,

//@fn rodbus/src/client/task.rs | TimeoutCounter::reset | tags=C12
//@|    ensures final(self).count() == 0, final(self).limit() == old(self).limit(),

// without a limit, timeouts never drop the connection; with limit N the N-th consecutive timeout (and none before) does
// (`current >= max` compares two `&mut usize`; the installed vstd has no specification for PartialOrd on `&mut` references
//  and its generic signature cannot be named by assume_specification: the body is decided by Kani, harness
//  k_timeout_counter_increment [complete: every state, every current/max], and only the contract is used by Verus callers)
//@fn rodbus/src/client/task.rs | TimeoutCounter::increment | tags=C12,C07 | ext_body
//@|    ensures final(self).limit() == old(self).limit(),
//@|        old(self).limit() is None ==> r is Ok,
//@|        old(self).limit() matches Some(n) ==> final(self).count() as int == (if old(self).count() as int + 1 <= usize::MAX as int { old(self).count() as int + 1 } else { usize::MAX as int }),
//@|        old(self).limit() matches Some(n) ==> (r is Err <==> final(self).count() >= n),
//@|        old(self).limit() matches Some(n) ==> (r is Err ==> r == Err::<(), SessionError>(SessionError::MaxTimeouts(n))),
}

// "after exactly N timeouts in a row": from a reset counter with limit n >= 1, the first n-1 increments succeed and the n-th fails
pub proof fn lemma_nth_timeout_drops(n: usize, k: usize)
    requires n >= 1, k >= 1,
    ensures
        // after k-1 successful increments from zero the count is k-1; the k-th increment errs iff k >= n
        (k < n ==> !((k - 1) as int + 1 >= n as int)),
        (k == n ==> ((k - 1) as int + 1 >= n as int)),
{}
