// ---- Request::get_reply / BroadcastRequest::execute (server/request.rs, second half) ----
use crate::common::frame::{FrameHeader, FrameWriter, FunctionField, frame_ok, frame_ok_p};
use crate::common::traits::{Loggable, Serialize};
use crate::common::serialize::{bit, reported, refused, reported_reg, refused_reg, be16_at};
use crate::server::handler::{RequestHandler, HandlerCall, HandlerEvent, HState, hview};
use crate::server::response::{BitWriter, RegisterWriter};
use crate::decode::DecodeLevel;
use crate::server::reply_spec::*;

// the write invocation a decoded request stands for (None for reads)
pub open spec fn spec_call(q: SpecRequest) -> Option<HandlerCall> {
    match q {
        SpecRequest::WriteSingleCoil(x) => Some(HandlerCall::WriteSingleCoil(x)),
        SpecRequest::WriteSingleRegister(x) => Some(HandlerCall::WriteSingleRegister(x)),
        SpecRequest::WriteMultipleCoils(r, v) => Some(HandlerCall::WriteMultipleCoils(r, v)),
        SpecRequest::WriteMultipleRegisters(r, v) => Some(HandlerCall::WriteMultipleRegisters(r, v)),
        _ => None,
    }
}

impl<'a> BroadcastRequest<'a> {
    pub open spec fn view(&self) -> HandlerCall {
        match self {
            BroadcastRequest::WriteSingleCoil(x) => HandlerCall::WriteSingleCoil(*x),
            BroadcastRequest::WriteSingleRegister(x) => HandlerCall::WriteSingleRegister(*x),
            BroadcastRequest::WriteMultipleCoils(x) => HandlerCall::WriteMultipleCoils(x.range, x.iterator.spec_values()),
            BroadcastRequest::WriteMultipleRegisters(x) => HandlerCall::WriteMultipleRegisters(x.range, x.iterator.spec_values()),
        }
    }
    pub open spec fn wf(&self) -> bool {
        match self {
            BroadcastRequest::WriteMultipleCoils(x) => x.iterator.wf() && x.iterator.pos == 0 && x.iterator.range == x.range,
            BroadcastRequest::WriteMultipleRegisters(x) => x.iterator.wf() && x.iterator.pos == 0 && x.iterator.range == x.range,
            _ => true,
        }
    }
// [C17] a broadcast write is applied exactly once to the handler it is executed against, whatever the handler answers
//@fn rodbus/src/server/request.rs | BroadcastRequest<'a>::execute | tags=C02,C17
//@|    requires self.wf(),
//@|    ensures final(handler).log().len() == old(handler).log().len() + 1,
//@|        final(handler).log().subrange(0, old(handler).log().len() as int) == old(handler).log(),
//@|        final(handler).log().last().call == self@,
}

// ---- glue lemmas: from the Serialize-object form of the frame contracts to the reference-server form ----
pub proof fn lemma_exc_frame(tcp: bool, b: Seq<u8>, header: FrameHeader, f: FunctionCode, e: ExceptionCode)
    requires frame_ok(tcp, b, b.len() as int, header, fcv(f) | 0x80, &e),
    ensures exc_frame(tcp, b, header, f, e),
{
    crate::common::frame::lemma_frame_ok_p(tcp, b, b.len() as int, header, fcv(f) | 0x80, &e, exc_body(e));
}
pub proof fn lemma_read_bits_reply<T: Fn(u16) -> Result<bool, ExceptionCode>>(
    tcp: bool, b: Seq<u8>, header: FrameHeader, f: FunctionCode, h: HState, coils: bool, bits: &BitWriter<T>)
    requires
        frame_ok(tcp, b, b.len() as int, header, fcv(f), bits)
            || exists|e: ExceptionCode| #[trigger] bits.ser_exc(e) && frame_ok(tcp, b, b.len() as int, header, fcv(f) | 0x80, &e),
        forall|a: u16, res: Result<bool, ExceptionCode>| #[trigger] bits.getter.ensures((a,), res) ==>
            (if coils { (h.may_coil)(a, res) } else { (h.may_di)(a, res) }),
    ensures read_bits_reply(tcp, b, header, f, h, coils, bits.range.inner),
{
    let range = bits.range.inner;
    if frame_ok(tcp, b, b.len() as int, header, fcv(f), bits) {
        let p = |o: Seq<u8>| read_bits_ok(h, coils, range, o);
        assert forall|o: Seq<u8>| bits.ser_ok(o) implies p(o) by {
            assert forall|i: int| 0 <= i < range.count implies #[trigger] may_bit(h, coils, range.start, i, Ok(bit(o[1 + i / 8], i % 8))) by {
                assert(reported(bits.getter, range.start, i, bit(o[1 + i / 8], i % 8)));
            }
        }
        crate::common::frame::lemma_frame_ok_p(tcp, b, b.len() as int, header, fcv(f), bits, p);
    } else {
        let e = choose|e: ExceptionCode| #[trigger] bits.ser_exc(e) && frame_ok(tcp, b, b.len() as int, header, fcv(f) | 0x80, &e);
        let i = choose|i: int| 0 <= i < range.count && #[trigger] refused(bits.getter, range.start, i, e);
        assert(may_bit(h, coils, range.start, i, Err(e)));
        assert(bits_refused(h, coils, range, e));
        lemma_exc_frame(tcp, b, header, f, e);
    }
}
pub proof fn lemma_read_regs_reply<T: Fn(u16) -> Result<u16, ExceptionCode>>(
    tcp: bool, b: Seq<u8>, header: FrameHeader, f: FunctionCode, h: HState, holding: bool, regs: &RegisterWriter<T>)
    requires
        frame_ok(tcp, b, b.len() as int, header, fcv(f), regs)
            || exists|e: ExceptionCode| #[trigger] regs.ser_exc(e) && frame_ok(tcp, b, b.len() as int, header, fcv(f) | 0x80, &e),
        forall|a: u16, res: Result<u16, ExceptionCode>| #[trigger] regs.getter.ensures((a,), res) ==>
            (if holding { (h.may_hr)(a, res) } else { (h.may_ir)(a, res) }),
    ensures read_regs_reply(tcp, b, header, f, h, holding, regs.range.inner),
{
    let range = regs.range.inner;
    if frame_ok(tcp, b, b.len() as int, header, fcv(f), regs) {
        let p = |o: Seq<u8>| read_regs_ok(h, holding, range, o);
        assert forall|o: Seq<u8>| regs.ser_ok(o) implies p(o) by {
            assert forall|i: int| 0 <= i < range.count implies #[trigger] may_reg(h, holding, range.start, i, Ok(be16_at(o, 1 + 2 * i))) by {
                assert(reported_reg(regs.getter, range.start, i, be16_at(o, 1 + 2 * i)));
            }
        }
        crate::common::frame::lemma_frame_ok_p(tcp, b, b.len() as int, header, fcv(f), regs, p);
    } else {
        let e = choose|e: ExceptionCode| #[trigger] regs.ser_exc(e) && frame_ok(tcp, b, b.len() as int, header, fcv(f) | 0x80, &e);
        let i = choose|i: int| 0 <= i < range.count && #[trigger] refused_reg(regs.getter, range.start, i, e);
        assert(may_reg(h, holding, range.start, i, Err(e)));
        assert(regs_refused(h, holding, range, e));
        lemma_exc_frame(tcp, b, header, f, e);
    }
}
pub proof fn lemma_write_reply<S: Serialize>(tcp: bool, b: Seq<u8>, header: FrameHeader, f: FunctionCode, echo: Result<S, ExceptionCode>, w0: u16, w1: u16, res: Result<(), ExceptionCode>)
    requires
        match echo {
            Ok(resp) => frame_ok(tcp, b, b.len() as int, header, fcv(f), &resp)
                || exists|e: ExceptionCode| #[trigger] resp.ser_exc(e) && frame_ok(tcp, b, b.len() as int, header, fcv(f) | 0x80, &e),
            Err(ex) => frame_ok(tcp, b, b.len() as int, header, fcv(f) | 0x80, &ex),
        },
        echo matches Ok(resp) ==> res is Ok && (forall|o: Seq<u8>| #[trigger] resp.ser_ok(o) ==> crate::common::serialize::is_be16_pair(o, w0, w1)) && (forall|e: ExceptionCode| !#[trigger] resp.ser_exc(e)),
        echo matches Err(ex) ==> res == Err::<(), ExceptionCode>(ex),
    ensures write_reply(tcp, b, header, f, w0, w1, res),
{
    match echo {
        Ok(resp) => { crate::common::frame::lemma_frame_ok_p(tcp, b, b.len() as int, header, fcv(f), &resp, pair_body(w0, w1)); }
        Err(ex) => { lemma_exc_frame(tcp, b, header, f, ex); }
    }
}

// R17: nested `fn write_result` of get_reply, hoisted
//@fn rodbus/src/server/request.rs | Request<'a>::get_reply::write_result | tags=C01
//@|    requires result is Ok ==> result->Ok_0.ser_pre() && !result->Ok_0.ser_may_reject(), old(writer).is_tcp() ==> header.tx_id is Some,
//@|    ensures final(writer).is_tcp() == old(writer).is_tcp(),
//@|        r is Ok ==> r->Ok_0@.len() <= 260 && (match result {
//@|            Ok(resp) => frame_ok(old(writer).is_tcp(), r->Ok_0@, r->Ok_0@.len() as int, header, fcv(function), &resp)
//@|                || exists|e: ExceptionCode| #[trigger] resp.ser_exc(e) && frame_ok(old(writer).is_tcp(), r->Ok_0@, r->Ok_0@.len() as int, header, fcv(function) | 0x80, &e),
//@|            Err(ex) => frame_ok(old(writer).is_tcp(), r->Ok_0@, r->Ok_0@.len() as int, header, fcv(function) | 0x80, &ex),
//@|        }),
//@|        r is Err ==> r->Err_0 is Internal,

impl<'a> Request<'a> {
// [C01] the reply is the reference server's; [C02] reads leave the application untouched, a write invokes the matching handler exactly once
// R15: `handler: &mut dyn RequestHandler` -> `&mut H, H: RequestHandler + ?Sized` (static instead of dynamic dispatch of the same methods)
//@fn rodbus/src/server/request.rs | Request<'a>::get_reply | tags=C01,C02,C20 | sub=fn get_reply<'b>(=>fn get_reply<'b, H: RequestHandler + ?Sized>( | sub=&mut dyn RequestHandler=>&mut H
//@|    requires self.wf(), old(writer).is_tcp() ==> header.tx_id is Some,
//@|    ensures final(writer).is_tcp() == old(writer).is_tcp(),
//@|        spec_call(self@) is None ==> final(handler).log() == old(handler).log() && hview(&*final(handler)) == hview(&*old(handler)),
//@|        spec_call(self@) matches Some(c) ==> final(handler).log().len() == old(handler).log().len() + 1
//@|            && final(handler).log().subrange(0, old(handler).log().len() as int) == old(handler).log()
//@|            && final(handler).log().last().call == c,
//@|        r is Ok ==> r->Ok_0@.len() <= 260 && reply_ok(old(writer).is_tcp(), r->Ok_0@, header, self@, hview(&*old(handler)),
//@|            if spec_call(self@) is Some { final(handler).log().last().result } else { Ok(()) }),
//@|        r is Err ==> r->Err_0 is Internal,
//@exit 0| if r__ is Ok { lemma_read_bits_reply(old(writer).is_tcp(), r__->Ok_0@, header, function, hview(&*old(handler)), true, &bits); }
//@exit 1| if r__ is Ok { lemma_read_bits_reply(old(writer).is_tcp(), r__->Ok_0@, header, function, hview(&*old(handler)), false, &bits); }
//@exit 2| if r__ is Ok { lemma_read_regs_reply(old(writer).is_tcp(), r__->Ok_0@, header, function, hview(&*old(handler)), true, &registers); }
//@exit 3| if r__ is Ok { lemma_read_regs_reply(old(writer).is_tcp(), r__->Ok_0@, header, function, hview(&*old(handler)), false, &registers); }
//@exit 4| if r__ is Ok { lemma_write_reply(old(writer).is_tcp(), r__->Ok_0@, header, function, result, request.index, if request.value { 0xFF00u16 } else { 0u16 }, handler.log().last().result); }
//@exit 5| if r__ is Ok { lemma_write_reply(old(writer).is_tcp(), r__->Ok_0@, header, function, result, request.index, request.value, handler.log().last().result); }
//@exit 6| if r__ is Ok { lemma_write_reply(old(writer).is_tcp(), r__->Ok_0@, header, function, result, items.range.start, items.range.count, handler.log().last().result); }
//@exit 7| if r__ is Ok { lemma_write_reply(old(writer).is_tcp(), r__->Ok_0@, header, function, result, items.range.start, items.range.count, handler.log().last().result); }
//@closure 0| |i: u16| -> (res: Result<bool, ExceptionCode>) ensures handler.may_read_coil(i, res)
//@closure 1| |i: u16| -> (res: Result<bool, ExceptionCode>) ensures handler.may_read_discrete_input(i, res)
//@closure 2| |i: u16| -> (res: Result<u16, ExceptionCode>) ensures handler.may_read_holding_register(i, res)
//@closure 3| |i: u16| -> (res: Result<u16, ExceptionCode>) ensures handler.may_read_input_register(i, res)
//@closure 4| |_u: ()| -> (o: Indexed<bool>) ensures o == *request
//@closure 5| |_u: ()| -> (o: Indexed<u16>) ensures o == *request
//@closure 6| |_u: ()| -> (o: AddressRange) ensures o == items.range
//@closure 7| |_u: ()| -> (o: AddressRange) ensures o == items.range
}
