use vstd::prelude::*;
use crate::Database;
use crate::ffi;
use crate::rodbus::{ExceptionCode, Indexed, UnitId, WriteCoils, WriteRegisters};
use crate::helpers::ext::spec_write_result;

//@item rodbus/src/server/handler.rs | Authorization

//@item ffi/rodbus-ffi/src/server.rs | RequestHandlerWrapper
//@item ffi/rodbus-ffi/src/iterator.rs | BitValueIterator
//@item ffi/rodbus-ffi/src/iterator.rs | RegisterValueIterator
impl<'a> BitValueIterator<'a> {
//@fn ffi/rodbus-ffi/src/iterator.rs | BitValueIterator<'a>::new | tags=C18
//@|    ensures r.inner == inner,
}
impl<'a> RegisterValueIterator<'a> {
//@fn ffi/rodbus-ffi/src/iterator.rs | RegisterValueIterator<'a>::new | tags=C18
//@|    ensures r.inner == inner,
}

// [C18] the value iterators handed to C callbacks: each call yields the next decoded value of the rodbus iterator, unchanged, and None
// exactly when it is exhausted (pointer parameter re-typed by R24; the null case is dropped)
//@fn ffi/rodbus-ffi/src/iterator.rs | bit_value_iterator_next | tags=C18 | r24m | sub=fn bit_value_iterator_next(=>fn bit_value_iterator_next<'x>( | sub=&mut crate::BitValueIterator<'_>=>&'x mut crate::BitValueIterator<'_> | sub=Option<&crate::ffi::BitValue>=>Option<&'x crate::ffi::BitValue>
//@|    requires old(it).inner.wf(),
//@|    ensures final(it).inner.wf(), final(it).inner.bytes@ == old(it).inner.bytes@, final(it).inner.range == old(it).inner.range,
//@|        old(it).inner.pos == old(it).inner.range.count ==> r is None && final(it).inner.pos == old(it).inner.pos,
//@|        old(it).inner.pos < old(it).inner.range.count ==> final(it).inner.pos == old(it).inner.pos + 1 && r is Some
//@|            && r->0.index == old(it).inner.spec_item(old(it).inner.pos as int).index && r->0.value == old(it).inner.spec_item(old(it).inner.pos as int).value,
//@fn ffi/rodbus-ffi/src/iterator.rs | register_value_iterator_next | tags=C18 | r24m | sub=fn register_value_iterator_next(=>fn register_value_iterator_next<'x>( | sub=&mut crate::RegisterValueIterator<'_>=>&'x mut crate::RegisterValueIterator<'_> | sub=Option<&crate::ffi::RegisterValue>=>Option<&'x crate::ffi::RegisterValue>
//@|    requires old(it).inner.wf(),
//@|    ensures final(it).inner.wf(), final(it).inner.bytes@ == old(it).inner.bytes@, final(it).inner.range == old(it).inner.range,
//@|        old(it).inner.pos == old(it).inner.range.count ==> r is None && final(it).inner.pos == old(it).inner.pos,
//@|        old(it).inner.pos < old(it).inner.range.count ==> final(it).inner.pos == old(it).inner.pos + 1 && r is Some
//@|            && r->0.index == old(it).inner.spec_item(old(it).inner.pos as int).index && r->0.value == old(it).inner.spec_item(old(it).inner.pos as int).value,

// (the rodbus RequestHandler trait as the FFI crate implements it; the ghost-log form of the trait is used in the server units)
pub trait RequestHandler {
    fn read_coil(&self, address: u16) -> Result<bool, ExceptionCode>;
    fn read_discrete_input(&self, address: u16) -> Result<bool, ExceptionCode>;
    fn read_holding_register(&self, address: u16) -> Result<u16, ExceptionCode>;
    fn read_input_register(&self, address: u16) -> Result<u16, ExceptionCode>;
    fn write_single_coil(&mut self, value: Indexed<bool>) -> Result<(), ExceptionCode>;
    fn write_single_register(&mut self, value: Indexed<u16>) -> Result<(), ExceptionCode>;
    fn write_multiple_coils(&mut self, values: WriteCoils) -> Result<(), ExceptionCode>;
    fn write_multiple_registers(&mut self, values: WriteRegisters) -> Result<(), ExceptionCode>;
}

impl RequestHandler for RequestHandlerWrapper {
// [C19] a read touching an absent point is answered with exception 02 (IllegalDataAddress); a present point with its value
//@fn ffi/rodbus-ffi/src/server.rs | RequestHandler for RequestHandlerWrapper::read_coil | tags=C19
//@|    ensures r == (if self.database.coils@.contains_key(address) { Ok::<bool, ExceptionCode>(self.database.coils@[address]) } else { Err::<bool, ExceptionCode>(ExceptionCode::IllegalDataAddress) }),
//@fn ffi/rodbus-ffi/src/server.rs | RequestHandler for RequestHandlerWrapper::read_discrete_input | tags=C19
//@|    ensures r == (if self.database.discrete_input@.contains_key(address) { Ok::<bool, ExceptionCode>(self.database.discrete_input@[address]) } else { Err::<bool, ExceptionCode>(ExceptionCode::IllegalDataAddress) }),
//@fn ffi/rodbus-ffi/src/server.rs | RequestHandler for RequestHandlerWrapper::read_holding_register | tags=C19
//@|    ensures r == (if self.database.holding_registers@.contains_key(address) { Ok::<u16, ExceptionCode>(self.database.holding_registers@[address]) } else { Err::<u16, ExceptionCode>(ExceptionCode::IllegalDataAddress) }),
//@fn ffi/rodbus-ffi/src/server.rs | RequestHandler for RequestHandlerWrapper::read_input_register | tags=C19
//@|    ensures r == (if self.database.input_registers@.contains_key(address) { Ok::<u16, ExceptionCode>(self.database.input_registers@[address]) } else { Err::<u16, ExceptionCode>(ExceptionCode::IllegalDataAddress) }),

// [C18] the result returned by the application's write callback is what the client receives; index and value pass through unchanged
//@fn ffi/rodbus-ffi/src/server.rs | RequestHandler for RequestHandlerWrapper::write_single_coil | tags=C18
//@|    ensures exists|x: Option<ffi::WriteResult>| #[trigger] old(self).write_handler.may_write_single_coil(value.index, value.value, x)
//@|        && r == (match x { Some(w) => spec_write_result(w), None => Err::<(), ExceptionCode>(ExceptionCode::IllegalFunction) }),
//@fn ffi/rodbus-ffi/src/server.rs | RequestHandler for RequestHandlerWrapper::write_single_register | tags=C18
//@|    ensures exists|x: Option<ffi::WriteResult>| #[trigger] old(self).write_handler.may_write_single_register(value.index, value.value, x)
//@|        && r == (match x { Some(w) => spec_write_result(w), None => Err::<(), ExceptionCode>(ExceptionCode::IllegalFunction) }),
// all four write functions: the multiple-write callbacks get the request's start address and an iterator over exactly its values
//@fn ffi/rodbus-ffi/src/server.rs | RequestHandler for RequestHandlerWrapper::write_multiple_coils | tags=C18
//@|    ensures exists|x: Option<ffi::WriteResult>| #[trigger] old(self).write_handler.may_write_multiple_coils(values.range.start, values.iterator, x)
//@|        && r == (match x { Some(w) => spec_write_result(w), None => Err::<(), ExceptionCode>(ExceptionCode::IllegalFunction) }),
//@fn ffi/rodbus-ffi/src/server.rs | RequestHandler for RequestHandlerWrapper::write_multiple_registers | tags=C18
//@|    ensures exists|x: Option<ffi::WriteResult>| #[trigger] old(self).write_handler.may_write_multiple_registers(values.range.start, values.iterator, x)
//@|        && r == (match x { Some(w) => spec_write_result(w), None => Err::<(), ExceptionCode>(ExceptionCode::IllegalFunction) }),
}
//@include frag/ffi_server_create.tpl
