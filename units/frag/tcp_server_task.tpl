// ---- tcp/server.rs: the accept loop (C16) ----
use crate::decode::DecodeLevel;
use crate::server::handler::{RequestHandler, ServerHandlerMap};
use crate::server::address_filter::AddressFilter;
use crate::shims::net2::{TcpListener, TcpStream, SocketAddr};
use crate::server::handler::AuthorizationHandler;
use crate::common::frame::{FrameWriter, FramedReader};
use crate::common::phys::PhysLayer;
use crate::server::task::AuthorizationType;

//@item rodbus/src/tcp/server.rs | SessionClose
// the session-close and server-command queues carry no invariant: `queue_inv` is `true` at these types (definition)
pub mod queue_axioms {
    use vstd::prelude::*;
    use crate::shims::tokio;
    pub broadcast axiom fn axiom_queue_inv_session_close(v: super::SessionClose) ensures #[trigger] tokio::sync::mpsc::queue_inv(v);
    pub broadcast axiom fn axiom_queue_inv_server_command(v: crate::server::task::ServerCommand) ensures #[trigger] tokio::sync::mpsc::queue_inv(v);
}
broadcast use {queue_axioms::axiom_queue_inv_session_close, queue_axioms::axiom_queue_inv_server_command};
// how a connection is upgraded: plain TCP, or TLS with the server configuration and an optional authorization handler
//@item rodbus/src/tcp/server.rs | TcpServerConnectionHandler | derive=
impl Clone for TcpServerConnectionHandler {
    #[verifier::external_body]
    fn clone(&self) -> (r: Self) ensures r == *self { unimplemented!() }
}
//@trusted TcpServerConnectionHandler: #[derive(Clone)] replaced by a clone() with `ensures r == *self` (structural clone; Arc::clone shares the handler)
//@item rodbus/src/tcp/server.rs | ServerTask
//@trusted session ids do not overflow u128 (assumed at the entry of ServerTask::handle: 2^128 accepted connections are out of reach)

impl TcpServerConnectionHandler {
// [C09] a server configured for TLS hands the session only a layer that came out of the handshake under its configuration, with the
// authorization that handshake produced for the configured handler; a plain TCP server hands a plain layer without authorization
//@fn rodbus/src/tcp/server.rs | TcpServerConnectionHandler::handle | tags=C08,C09
//@|    ensures *final(self) == *old(self),
//@|        *old(self) is Tcp ==> r is Ok && r->Ok_0.0.tls_by is None && r->Ok_0.1 is None && r->Ok_0.0.auth is None,
//@|        *old(self) matches TcpServerConnectionHandler::Tls(c, a) ==> (r matches Ok(p) ==> p.0.tls_by == Some(c.id) && p.0.auth == p.1
//@|            && (a is None ==> p.1 is None) && (a matches Some(h) ==> p.1 is Handler && vstd::pervasive::cloned::<std::sync::Arc<dyn AuthorizationHandler>>(h, p.1->Handler_0))),   // (a clone of the configured Arc: the same handler)
}

// [C05,C08,C09,C15] the session of an accepted connection: nothing runs when the upgrade (TLS handshake) fails; otherwise one MBAP
// session runs over exactly the layer the upgrade returned, with exactly the authorization it returned (the preconditions of
// SessionTask::run, proved at the call)
//@fn rodbus/src/tcp/server.rs | run_session | tags=C05,C08,C09,C15

impl<T> ServerTask<T> where T: RequestHandler {
    // the task keeps a sender of its own session-close channel, so that channel never reports "closed" [C07: the unwrap in run cannot panic]
    pub open spec fn wf(&self) -> bool { self.tracker.wf() && !self.rx.all_senders_dropped() }

//@fn rodbus/src/tcp/server.rs | ServerTask<T>::new | tags=C15,C16
//@|    ensures r.filter == filter, r.decode == decode, r.wf(), r.tracker@.dom().len() == 0,
//@|        r.connection_handler == connection_handler, r.handlers == handlers, r.listener == listener,
//@|        r.tracker.max_sessions == (if max_sessions == 0 { 1 } else { max_sessions }),

// [C16] a session (and with it any TLS handshake) is started only for a peer whose address matches the configured filter:
// this is the precondition of `handle`, which every call site must establish
//@fn rodbus/src/tcp/server.rs | ServerTask<T>::handle | tags=C15,C16 | r22
//@|    requires old(self).filter.spec_matches(addr.spec_ip()), old(self).wf(),
//@|    ensures final(self).filter == old(self).filter, final(self).wf(), final(self).decode == old(self).decode,
//@|        final(self).rx == old(self).rx, final(self).tx == old(self).tx,
//@|        // [C15] the new session is entered in the table under a fresh id; at the limit it takes the place of the oldest one
//@|        final(self).tracker@.contains_key(old(self).tracker.id), final(self).tracker.id == old(self).tracker.id + 1,
//@|        final(self).tracker.max_sessions == old(self).tracker.max_sessions,
//@|        old(self).tracker@.dom().len() < old(self).tracker.max_sessions ==> final(self).tracker@.dom() == old(self).tracker@.dom().insert(old(self).tracker.id),
//@|        old(self).tracker@.dom().len() >= old(self).tracker.max_sessions ==>
//@|            final(self).tracker@.dom() == old(self).tracker@.dom().remove(old(self).tracker.oldest()).insert(old(self).tracker.id),
//@entry| assume(self.tracker.id < u128::MAX);
//@async 0|    pub async fn handle__session(socket: tokio::net::TcpStream, addr: SocketAddr, connection_handler: TcpServerConnectionHandler,
//@async 0|        decode_level: DecodeLevel, handler_map: ServerHandlerMap<T>, rx: tokio::sync::mpsc::Receiver<ServerCommand>,
//@async 0|        mut notify_close: tokio::sync::mpsc::Sender<SessionClose>, id: u128) -> (r: ())
//@asyncend 0| // [C15] however the session ends, its id is reported back to the server task with an awaited send, which fails only
//@asyncend 0| // when that task is gone - a best-effort notification could be lost while the task is busy and leave a dead entry in the table
//@asyncend 0| assert(notify_close.delivered(SessionClose(id)) || notify_close.receiver_gone());

// [C20] a decode-level change is applied locally (for sessions accepted later) and forwarded to every live session (best effort:
// delivered unless that session is already gone); nothing else changes.  Shutdown is handled by the caller.
//@fn rodbus/src/tcp/server.rs | ServerTask<T>::apply_command | tags=C15,C20 | r4
//@|    requires old(self).wf(),
//@|    ensures final(self).wf(), final(self).filter == old(self).filter, final(self).rx == old(self).rx, final(self).tx == old(self).tx,
//@|        final(self).tracker@ == old(self).tracker@, final(self).tracker.id == old(self).tracker.id, final(self).tracker.max_sessions == old(self).tracker.max_sessions,
//@|        command matches ServerCommand::ChangeDecoding(level) ==> final(self).decode == level
//@|            && forall|k: u128| #[trigger] old(self).tracker@.contains_key(k) ==> old(self).tracker@[k].delivered(command) || old(self).tracker@[k].receiver_gone(),
//@|        command is Shutdown ==> final(self).decode == old(self).decode,
//@loopstart 0| let ghost ks0 = it__0.ks;
//@loopend 0| crate::shims::btree::lemma_skip_first_key(ks0);
//@loop 0|            invariant
//@loop 0|                it__0.cur == old(self).tracker@, it__0.fin.dom() == old(self).tracker@.dom(),
//@loop 0|                it__0.ks.no_duplicates(), self.tracker.sessions@ == it__0.fin,
//@loop 0|                forall|k: u128| #[trigger] it__0.ks.contains(k) ==> old(self).tracker@.contains_key(k),
//@loop 0|                forall|k: u128| #[trigger] old(self).tracker@.contains_key(k) && !it__0.ks.contains(k) ==>
//@loop 0|                    it__0.fin[k] == old(self).tracker@[k] && (old(self).tracker@[k].delivered(command) || old(self).tracker@[k].receiver_gone()),
//@loop 0|            ensures it__0.ks.len() == 0,
//@loop 0|            decreases it__0.ks.len()
//@afterloop 0| assert(self.tracker.sessions@ =~= old(self).tracker@);

// [C16] peers that do not match the filter never reach `handle`; [C15] Shutdown / a closed command channel end the accept loop
//@fn rodbus/src/tcp/server.rs | ServerTask<T>::run | tags=C15,C16 | r3 | attr=#[verifier::exec_allows_no_decreases_clause]
//@|    requires old(self).wf(),
//@|    ensures final(self).filter == old(self).filter,
//@loop 0|            invariant self.wf(), self.filter == old(self).filter,
//@armend 0| // [C15] the loop goes on after a command only if it was neither Shutdown nor the closing of the command channel: those two end the task
//@armend 0| assert(command is Some && !(command->0 is Shutdown));
//@arm 1| let ghost t0__ = self.tracker@;
//@armend 1| // [C15] the session that reported its end - and no other - leaves the table
//@armend 1| assert(self.tracker@ == t0__.remove((shutdown->0).0));
//@arm 2| let ghost t2__ = self.tracker@;
//@armend 2| // [C15,C16] a connection from a peer the filter rejects changes nothing: no session is evicted for it
//@armend 2| assert((result matches Ok(p) && !self.filter.spec_matches(p.1.spec_ip())) ==> self.tracker@ == t2__);
}
