// ---- tcp/server.rs: the accept loop (C16) ----
use crate::decode::DecodeLevel;
use crate::server::handler::{RequestHandler, ServerHandlerMap};
use crate::server::address_filter::AddressFilter;
use crate::shims::net2::{TcpListener, TcpStream, SocketAddr, TcpServerConnectionHandler};

//@item rodbus/src/tcp/server.rs | SessionClose
//@item rodbus/src/tcp/server.rs | ServerTask
//@trusted ServerTask::handle (tokio::spawn of the session, ext_body): assumed to keep the tracker invariant; session ids do not overflow u128

impl<T> ServerTask<T> where T: RequestHandler {
    // the task keeps a sender of its own session-close channel, so that channel never reports "closed" [C07: the unwrap in run cannot panic]
    pub open spec fn wf(&self) -> bool { self.tracker.wf() && !self.rx.all_senders_dropped() }

//@fn rodbus/src/tcp/server.rs | ServerTask<T>::new | tags=C15,C16
//@|    ensures r.filter == filter, r.decode == decode, r.wf(), r.tracker@.dom().len() == 0, r.tracker.id == 0,

// [C16] a session (and with it any TLS handshake) is started only for a peer whose address matches the configured filter:
// this is the precondition of `handle`, which every call site must establish
//@fn rodbus/src/tcp/server.rs | ServerTask<T>::handle | tags=C15,C16 | ext_body
//@|    requires old(self).filter.spec_matches(addr.spec_ip()), old(self).wf(),
//@|    ensures final(self).filter == old(self).filter, final(self).wf(),

// [C20] a decode-level change is applied locally (for new sessions) and forwarded; nothing else changes
//@fn rodbus/src/tcp/server.rs | ServerTask<T>::apply_command | tags=C20 | ext_body
//@|    ensures final(self).filter == old(self).filter, final(self).tracker == old(self).tracker, final(self).rx == old(self).rx,
//@|        command matches ServerCommand::ChangeDecoding(level) ==> final(self).decode == level,

// [C16] peers that do not match the filter never reach `handle`; [C15] Shutdown / a closed command channel end the accept loop
//@fn rodbus/src/tcp/server.rs | ServerTask<T>::run | tags=C15,C16 | r3 | attr=#[verifier::exec_allows_no_decreases_clause]
//@|    requires old(self).wf(),
//@|    ensures final(self).filter == old(self).filter,
//@loop 0|            invariant self.wf(), self.filter == old(self).filter,
}
