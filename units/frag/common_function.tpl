use vstd::prelude::*;
pub mod constants {
//@item rodbus/src/common/function.rs | constants::READ_COILS
//@item rodbus/src/common/function.rs | constants::READ_DISCRETE_INPUTS
//@item rodbus/src/common/function.rs | constants::READ_HOLDING_REGISTERS
//@item rodbus/src/common/function.rs | constants::READ_INPUT_REGISTERS
//@item rodbus/src/common/function.rs | constants::WRITE_SINGLE_COIL
//@item rodbus/src/common/function.rs | constants::WRITE_SINGLE_REGISTER
//@item rodbus/src/common/function.rs | constants::WRITE_MULTIPLE_COILS
//@item rodbus/src/common/function.rs | constants::WRITE_MULTIPLE_REGISTERS
}
//@item rodbus/src/common/function.rs | FunctionCode

// the eight public function codes of the Modbus application protocol (from the specification)
pub open spec fn spec_fc_value(f: FunctionCode) -> u8 {
    match f {
        FunctionCode::ReadCoils => 1,
        FunctionCode::ReadDiscreteInputs => 2,
        FunctionCode::ReadHoldingRegisters => 3,
        FunctionCode::ReadInputRegisters => 4,
        FunctionCode::WriteSingleCoil => 5,
        FunctionCode::WriteSingleRegister => 6,
        FunctionCode::WriteMultipleCoils => 15,
        FunctionCode::WriteMultipleRegisters => 16,
    }
}
pub open spec fn spec_fc_of(v: u8) -> Option<FunctionCode> {
    if v == 1 { Some(FunctionCode::ReadCoils) }
    else if v == 2 { Some(FunctionCode::ReadDiscreteInputs) }
    else if v == 3 { Some(FunctionCode::ReadHoldingRegisters) }
    else if v == 4 { Some(FunctionCode::ReadInputRegisters) }
    else if v == 5 { Some(FunctionCode::WriteSingleCoil) }
    else if v == 6 { Some(FunctionCode::WriteSingleRegister) }
    else if v == 15 { Some(FunctionCode::WriteMultipleCoils) }
    else if v == 16 { Some(FunctionCode::WriteMultipleRegisters) }
    else { None }
}
impl FunctionCode {
//@fn rodbus/src/common/function.rs | FunctionCode::get_value | tags=C01,C03,C04
//@|    ensures r == spec_fc_value(self),
//@fn rodbus/src/common/function.rs | FunctionCode::as_error | tags=C01,C04
//@|    ensures r == spec_fc_value(self) | 0x80,
//@fn rodbus/src/common/function.rs | FunctionCode::get | tags=C01,C04
//@|    ensures r == spec_fc_of(value),
}
