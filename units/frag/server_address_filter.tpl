use vstd::prelude::*;
use crate::shims::net2::IpAddr;
// the filter itself is opaque here (it holds std::net::IpAddr / HashSet); what `matches` computes is decided on the real code by
// the Kani harnesses k_wildcard_matches_v4 / k_filter_other_variants; the accept loop only needs "matches == spec_matches"
pub struct AddressFilter { pub x: u8 }
impl AddressFilter {
    pub uninterp spec fn spec_matches(&self, addr: IpAddr) -> bool;
    #[verifier::external_body]
    pub fn matches(&self, addr: IpAddr) -> (r: bool) ensures r == self.spec_matches(addr), { unimplemented!() }
}
//@trusted AddressFilter::matches: opaque in the accept-loop unit (its semantics: Kani harnesses on the real code)
