use vstd::prelude::*;
// std::net::IpAddr is an opaque value in this unit; what `matches` computes is decided on the real code by the Kani harnesses
// k_wildcard_matches_v4 / k_filter_other_variants; the accept loop and the constructors only need "matches == spec_matches"
#[verifier::external_type_specification]
#[verifier::external_body]
pub struct ExIpAddr(std::net::IpAddr);
pub type IpAddr = std::net::IpAddr;

//@item rodbus/src/server/address_filter.rs | WildcardIPv4 | derive=
//@item rodbus/src/server/address_filter.rs | AddressFilter | derive=
impl AddressFilter {
    pub uninterp spec fn spec_matches(&self, addr: std::net::IpAddr) -> bool;
//@fn rodbus/src/server/address_filter.rs | AddressFilter::matches | tags=C16 | ext_body
//@|    ensures r == self.spec_matches(addr),
}
//@trusted AddressFilter::matches: assumed contract (external_body) in the accept-loop unit - its semantics is decided by Kani harnesses on the real code
// the wildcard string parser: decided only by the bounded Kani harness of the thorough tier; in the quick tier it is guarded against change
//@reviewed rodbus/src/server/address_filter.rs | FromStr for WildcardIPv4::from_str | tags=C16
//@reviewed rodbus/src/server/address_filter.rs | get_byte | tags=C16
