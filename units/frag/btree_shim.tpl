// ---- shim of std::collections::BTreeMap (trusted: restates the std documentation; the installed vstd does not expose
// enough about `keys()` to conclude that the first key yielded is the least one) ----
use vstd::prelude::*;
pub struct BTreeMap<K, V> { pub ghost m: Map<K, V>, pub _p: core::marker::PhantomData<(K, V)> }
pub struct Keys<'a, K, V> { pub ghost first: Option<K>, pub _p: core::marker::PhantomData<&'a (K, V)> }

impl<K, V> View for BTreeMap<K, V> {
    type V = Map<K, V>;
    open spec fn view(&self) -> Map<K, V> { self.m }
}

impl<V> BTreeMap<u128, V> {
    pub open spec fn spec_least(&self, k: u128) -> bool {
        self@.contains_key(k) && forall|j: u128| #[trigger] self@.contains_key(j) ==> k <= j
    }
    #[verifier::external_body]
    pub fn new() -> (r: Self) ensures r@ == Map::<u128, V>::empty() { unimplemented!() }
    #[verifier::external_body]
    pub fn len(&self) -> (r: usize) ensures r == self@.dom().len() { unimplemented!() }
    // keys are yielded in ascending order: the first one is the least key of the map
    #[verifier::external_body]
    pub fn keys(&self) -> (r: Keys<'_, u128, V>)
        ensures self@.dom().len() == 0 ==> r.first is None,
                self@.dom().len() > 0 ==> r.first is Some && self.spec_least(r.first->Some_0),
    { unimplemented!() }
    #[verifier::external_body]
    pub fn insert(&mut self, k: u128, v: V) -> (r: Option<V>)
        ensures final(self)@ == old(self)@.insert(k, v),
                r == (if old(self)@.contains_key(k) { Some(old(self)@[k]) } else { None::<V> }),
    { unimplemented!() }
    #[verifier::external_body]
    pub fn remove(&mut self, k: &u128) -> (r: Option<V>)
        ensures final(self)@ == old(self)@.remove(*k),
                r == (if old(self)@.contains_key(*k) { Some(old(self)@[*k]) } else { None::<V> }),
    { unimplemented!() }
}
impl<'a, V> Keys<'a, u128, V> {
    #[verifier::external_body]
    pub fn next(&mut self) -> (r: Option<&'a u128>)
        ensures old(self).first is None ==> r is None,
                old(self).first is Some ==> r is Some && *r->Some_0 == old(self).first->Some_0,
    { unimplemented!() }
}
//@trusted std::collections::BTreeMap<u128,_>::{new,len,keys().next(),insert,remove}: map semantics, keys() ascending (std documentation)
