// ---- shim of std::collections::BTreeMap (trusted: restates the std documentation; the installed vstd does not expose
// enough about `keys()` to conclude that the first key yielded is the least one) ----
use vstd::prelude::*;
pub struct BTreeMap<K, V> { pub ghost m: Map<K, V>, pub _p: core::marker::PhantomData<(K, V)> }
pub struct Keys<'a, K, V> { pub ghost first: Option<K>, pub _p: core::marker::PhantomData<&'a (K, V)> }

impl<K, V> View for BTreeMap<K, V> {
    type V = Map<K, V>;
    open spec fn view(&self) -> Map<K, V> { self.m }
}

impl<V> BTreeMap<u128, V> {
    pub open spec fn spec_least(&self, k: u128) -> bool {
        self@.contains_key(k) && forall|j: u128| #[trigger] self@.contains_key(j) ==> k <= j
    }
    #[verifier::external_body]
    pub fn new() -> (r: Self) ensures r@ == Map::<u128, V>::empty() { unimplemented!() }
    #[verifier::external_body]
    pub fn len(&self) -> (r: usize) ensures r == self@.dom().len() { unimplemented!() }
    // keys are yielded in ascending order: the first one is the least key of the map
    #[verifier::external_body]
    pub fn keys(&self) -> (r: Keys<'_, u128, V>)
        ensures self@.dom().len() == 0 ==> r.first is None,
                self@.dom().len() > 0 ==> r.first is Some && self.spec_least(r.first->Some_0),
    { unimplemented!() }
    #[verifier::external_body]
    pub fn insert(&mut self, k: u128, v: V) -> (r: Option<V>)
        ensures final(self)@ == old(self)@.insert(k, v),
                r == (if old(self)@.contains_key(k) { Some(old(self)@[k]) } else { None::<V> }),
    { unimplemented!() }
    #[verifier::external_body]
    pub fn remove(&mut self, k: &u128) -> (r: Option<V>)
        ensures final(self)@ == old(self)@.remove(*k),
                r == (if old(self)@.contains_key(*k) { Some(old(self)@[*k]) } else { None::<V> }),
    { unimplemented!() }
}
// values_mut(): every value exactly once (prophecy form: `fin` is the map as it will be when the iteration is over)
pub struct ValuesMut<K, V> { pub ghost ks: Seq<K>, pub ghost cur: Map<K, V>, pub ghost fin: Map<K, V>, pub _p: core::marker::PhantomData<(K, V)> }
impl<V> BTreeMap<u128, V> {
    #[verifier::external_body]
    pub fn values_mut(&mut self) -> (it: ValuesMut<u128, V>)
        ensures it.ks.no_duplicates(), it.ks.to_set() == old(self)@.dom(), it.cur == old(self)@, it.fin.dom() == old(self)@.dom(), final(self)@ == it.fin,
    { unimplemented!() }
}
impl<V> ValuesMut<u128, V> {
    #[verifier::external_body]
    pub fn next(&mut self) -> (r: Option<&mut V>)
        ensures final(self).fin == old(self).fin, final(self).cur == old(self).cur,
            old(self).ks.len() == 0 ==> r is None && final(self).ks == old(self).ks,
            old(self).ks.len() > 0 ==> r is Some && final(self).ks == old(self).ks.skip(1)
                && *r->Some_0 == old(self).cur[old(self).ks[0]] && *final(r->Some_0) == old(self).fin[old(self).ks[0]],
    { unimplemented!() }
}
pub proof fn lemma_skip_first_key(s: Seq<u128>)
    requires s.len() > 0, s.no_duplicates(),
    ensures s.skip(1).no_duplicates(), !s.skip(1).contains(s[0]),
        forall|x: u128| s.contains(x) <==> (x == s[0] || #[trigger] s.skip(1).contains(x)),
{
    let t = s.skip(1);
    assert forall|x: u128| s.contains(x) <==> (x == s[0] || #[trigger] t.contains(x)) by {
        if s.contains(x) { let i = choose|i: int| 0 <= i < s.len() && s[i] == x; if i > 0 { assert(t[i - 1] == x); } }
        if t.contains(x) { let j = choose|j: int| 0 <= j < t.len() && t[j] == x; assert(s[j + 1] == x); }
    }
    if t.contains(s[0]) { let j = choose|j: int| 0 <= j < t.len() && t[j] == s[0]; assert(s[j + 1] == s[0]); }
    assert forall|i: int, j: int| 0 <= i < t.len() && 0 <= j < t.len() && i != j implies t[i] != t[j] by { assert(s[i + 1] != s[j + 1]); }
}
impl<'a, V> Keys<'a, u128, V> {
    #[verifier::external_body]
    pub fn next(&mut self) -> (r: Option<&'a u128>)
        ensures old(self).first is None ==> r is None,
                old(self).first is Some ==> r is Some && *r->Some_0 == old(self).first->Some_0,
    { unimplemented!() }
}
//@trusted std::collections::BTreeMap<u128,_>::{new,len,keys().next(),insert,remove,values_mut}: map semantics, keys() ascending, values_mut() yields every value exactly once (std documentation)
