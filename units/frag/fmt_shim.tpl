use vstd::prelude::*;
// R8: Display implementations are formatting code and are not extracted; the trait is kept as a marker so that bounds type-check
pub trait Display {}
impl Display for crate::types::Indexed<bool> {}
impl Display for crate::types::Indexed<u16> {}
