// module tree of the rodbus crate (contents are fragments; every item text comes from /repo)
pub mod error {
//@include frag/error.tpl
//@include frag/error_scursor.tpl
}
pub mod constants {
//@include frag/constants.tpl
}
pub mod exception {
//@include frag/exception.tpl
}
pub mod types {
//@include frag/types.tpl
//@include-if client frag/types_client_options.tpl
//@include-if display frag/display_types.tpl
//@include-if promise frag/types_collect.tpl
}
