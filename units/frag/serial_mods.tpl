    pub mod client {
//@include frag/serial_client.tpl
    }
    pub mod server {
//@include frag/serial_server.tpl
    }
