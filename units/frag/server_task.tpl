use vstd::prelude::*;
use crate::common::frame::*;
use crate::common::function::FunctionCode;
use crate::common::phys::PhysLayer;
use crate::decode::DecodeLevel;
use crate::error::*;
use crate::exception::ExceptionCode;
use crate::server::handler::*;
use crate::server::request::*;
use crate::server::reply_spec::*;
use crate::types::*;
use crate::shims::scursor::ReadCursor;
use crate::shims::tokio;
use crate::shims::sync::Arc;

//@item rodbus/src/server/task.rs | ServerCommand
//@item rodbus/src/server/task.rs | SessionTask
//@item rodbus/src/server/task.rs | AuthorizationType

// ---- C08: what is submitted to the authorization handler ----
pub enum AuthCall {
    ReadCoils(UnitId, AddressRange), ReadDiscreteInputs(UnitId, AddressRange),
    ReadHoldingRegisters(UnitId, AddressRange), ReadInputRegisters(UnitId, AddressRange),
    WriteSingleCoil(UnitId, u16), WriteSingleRegister(UnitId, u16),
    WriteMultipleCoils(UnitId, AddressRange), WriteMultipleRegisters(UnitId, AddressRange),
}
// the unit id and the address range or index of exactly this request [C08]
pub open spec fn spec_auth_call(unit: UnitId, q: SpecRequest) -> AuthCall {
    match q {
        SpecRequest::ReadCoils(r) => AuthCall::ReadCoils(unit, r),
        SpecRequest::ReadDiscreteInputs(r) => AuthCall::ReadDiscreteInputs(unit, r),
        SpecRequest::ReadHoldingRegisters(r) => AuthCall::ReadHoldingRegisters(unit, r),
        SpecRequest::ReadInputRegisters(r) => AuthCall::ReadInputRegisters(unit, r),
        SpecRequest::WriteSingleCoil(x) => AuthCall::WriteSingleCoil(unit, x.index),
        SpecRequest::WriteSingleRegister(x) => AuthCall::WriteSingleRegister(unit, x.index),
        SpecRequest::WriteMultipleCoils(r, _) => AuthCall::WriteMultipleCoils(unit, r),
        SpecRequest::WriteMultipleRegisters(r, _) => AuthCall::WriteMultipleRegisters(unit, r),
    }
}

impl AuthorizationType {
    // the decisions this configuration may take for a request (no history: an earlier allow cannot influence a later call)
    pub open spec fn may_decide(&self, unit: UnitId, q: SpecRequest, d: Authorization) -> bool {
        match self {
            AuthorizationType::None => d == Authorization::Allow,
            AuthorizationType::Handler(h, role) => h.inner().may_answer(spec_auth_call(unit, q), role@, d),
        }
    }

//@fn rodbus/src/server/task.rs | AuthorizationType::check_authorization | tags=C02,C08
//@|    ensures handler.may_answer(spec_auth_call(unit_id, request@), role@, r),

//@fn rodbus/src/server/task.rs | AuthorizationType::is_authorized | tags=C02,C08
//@|    ensures self.may_decide(unit_id, request@, r),
}

impl<T> SessionTask<T> where T: RequestHandler {
    pub open spec fn tcp(&self) -> bool { self.writer.is_tcp() }

// [C17] nothing is ever sent in answer to a broadcast, not even an exception
//@fn rodbus/src/server/task.rs | SessionTask<T>::reply_with_error_generic | tags=C01,C08,C17,C20 | r10 r10id=0
//@|    requires old(self).tcp() ==> header.tx_id is Some,
//@|    ensures final(self).tcp() == old(self).tcp(), final(self).handlers == old(self).handlers, final(self).auth == old(self).auth,
//@|        final(self).reader == old(self).reader, final(self).decode == old(self).decode,
//@|        final(io).pending == old(io).pending,
//@|        r is Err ==> (r->Err_0 is Internal || r->Err_0 is Io),
//@|        header.destination is Broadcast ==> r is Ok && final(io).sent == old(io).sent,
//@|        !(header.destination is Broadcast) ==> (final(io).sent == old(io).sent && r is Err) || (final(io).sent.len() == old(io).sent.len() + 1
//@|            && final(io).sent.subrange(0, old(io).sent.len() as int) == old(io).sent
//@|            && frame_ok_p(old(self).tcp(), final(io).sent.last(), final(io).sent.last().len() as int, header,
//@|                 (match func { FunctionField::Valid(x) => fcv(x) | 0x80, FunctionField::Exception(x) => fcv(x) | 0x80, FunctionField::UnknownFunction(x) => x | 0x80 }), exc_body(ex))),

//@fn rodbus/src/server/task.rs | SessionTask<T>::reply_with_error | tags=C01,C08,C17,C20
//@|    requires old(self).tcp() ==> header.tx_id is Some,
//@|    ensures final(self).tcp() == old(self).tcp(), final(self).handlers == old(self).handlers, final(self).auth == old(self).auth,
//@|        final(self).reader == old(self).reader, final(self).decode == old(self).decode,
//@|        final(io).pending == old(io).pending,
//@|        r is Err ==> (r->Err_0 is Internal || r->Err_0 is Io),
//@|        header.destination is Broadcast ==> r is Ok && final(io).sent == old(io).sent,
//@|        !(header.destination is Broadcast) ==> (final(io).sent == old(io).sent && r is Err) || (final(io).sent.len() == old(io).sent.len() + 1
//@|            && final(io).sent.subrange(0, old(io).sent.len() as int) == old(io).sent
//@|            && exc_frame(old(self).tcp(), final(io).sent.last(), header, func, ex)),

// [C15] waiting between port re-opens still honours shutdown: Err(Shutdown) when the command channel closes or Shutdown arrives
//@fn rodbus/src/server/task.rs | SessionTask<T>::process_commands | tags=C15 | attr=#[verifier::exec_allows_no_decreases_clause]
//@|    ensures final(self).handlers == old(self).handlers, final(self).auth == old(self).auth, final(self).writer == old(self).writer, final(self).reader == old(self).reader,
//@loop 0|            invariant self.handlers == old(self).handlers, self.auth == old(self).auth, self.writer == old(self).writer, self.reader == old(self).reader,

    // process_commands dropped at one of its await points (the timer of sleep_for won): what holds is its loop invariant
    #[verifier::external_body]
    pub fn cancelled_process_commands(&mut self)
        ensures final(self).handlers == old(self).handlers, final(self).auth == old(self).auth, final(self).writer == old(self).writer, final(self).reader == old(self).reader,
    { unimplemented!() }
//@trusted SessionTask::cancelled_process_commands: a cancelled process_commands leaves the state allowed by its (proved) loop invariant

// [C14] the RTU server waits exactly the delay it was given before the port is opened again - unless shutdown arrives first
//@fn rodbus/src/server/task.rs | SessionTask<T>::sleep_for | tags=C14,C15 | r21
//@|    ensures final(self).handlers == old(self).handlers, final(self).auth == old(self).auth, final(self).writer == old(self).writer, final(self).reader == old(self).reader,
//@entry| broadcast use crate::axiom_nanos_nonneg; let ghost t0 = clk__.t; let ghost mut waited = false;
//@timer 0| waited = true; assert(clk__.t == t0 + crate::nanos(duration));
//@exit *| assert(r__ is Ok ==> waited);

// [C20] a decode-level change touches nothing but the level; [C15] Shutdown ends the session
//@fn rodbus/src/server/task.rs | SessionTask<T>::apply_command | tags=C15,C20
//@|    ensures final(self).handlers == old(self).handlers, final(self).auth == old(self).auth, final(self).writer == old(self).writer,
//@|        final(self).reader == old(self).reader, final(self).commands == old(self).commands,
//@|        command matches ServerCommand::ChangeDecoding(level) ==> r is Ok && final(self).decode == level,
//@|        command is Shutdown ==> r is Err && final(self).decode == old(self).decode,
}

// ---- the reference server, one frame at a time (C01 / C02 / C08 / C17) ----
pub open spec fn same_sent(s0: Seq<Seq<u8>>, s1: Seq<Seq<u8>>) -> bool { s1 == s0 }
pub open spec fn one_sent(s0: Seq<Seq<u8>>, s1: Seq<Seq<u8>>) -> bool { s1.len() == s0.len() + 1 && s1.subrange(0, s0.len() as int) =~= s0 }
pub proof fn lemma_skip_first(s: Seq<u8>)
    requires s.len() > 0, s.no_duplicates(),
    ensures s.skip(1).no_duplicates(), !s.skip(1).contains(s[0]),
        forall|x: u8| s.contains(x) <==> (x == s[0] || #[trigger] s.skip(1).contains(x)),
{
    let t = s.skip(1);
    assert forall|x: u8| s.contains(x) <==> (x == s[0] || #[trigger] t.contains(x)) by {
        if s.contains(x) { let i = choose|i: int| 0 <= i < s.len() && s[i] == x; if i > 0 { assert(t[i - 1] == x); } }
        if t.contains(x) { let j = choose|j: int| 0 <= j < t.len() && t[j] == x; assert(s[j + 1] == x); }
    }
    if t.contains(s[0]) { let j = choose|j: int| 0 <= j < t.len() && t[j] == s[0]; assert(s[j + 1] == s[0]); }
    assert forall|i: int, j: int| 0 <= i < t.len() && 0 <= j < t.len() && i != j implies t[i] != t[j] by { assert(s[i + 1] != s[j + 1]); }
}
pub open spec fn unit_of(header: FrameHeader) -> UnitId { UnitId { value: header.destination.spec_value() } }

// the well-formed, in-limit request carried by a PDU, if any
pub open spec fn request_of(payload: Seq<u8>) -> Option<SpecRequest> {
    if payload.len() == 0 { None }
    else { match crate::common::function::spec_fc_of(payload[0]) {
        None => None,
        Some(f) => spec_parse_request(f, payload.subrange(1, payload.len() as int)),
    } }
}
// result of the write invocation recorded last in a handler log
pub open spec fn last_result(h: HState) -> Result<(), ExceptionCode> { h.log.last().result }
// handler state `h1` is `h0` after exactly one invocation of call `c`
pub open spec fn invoked_once(h0: HState, h1: HState, c: HandlerCall) -> bool {
    h1.log.len() == h0.log.len() + 1 && h1.log.subrange(0, h0.log.len() as int) == h0.log && h1.log.last().call == c
}

// [C02,C08,C17] what may happen to the application: nothing, unless the PDU carries a valid request that is allowed; then reads change
// nothing, a unicast write invokes exactly the addressed unit's handler once, a broadcast write every configured unit's handler once
pub open spec fn app_ok(payload: Seq<u8>, header: FrameHeader, st0: Map<u8, HState>, st1: Map<u8, HState>, d: Authorization) -> bool {
    match request_of(payload) {
        None => st1 == st0,
        Some(q) => if d is Deny { st1 == st0 } else { match header.destination {
            FrameDestination::UnitId(u) =>
                if !st0.contains_key(u.value) { st1 == st0 }
                else { st1 == st0.insert(u.value, st1[u.value]) && (match spec_call(q) {
                    None => st1[u.value] == st0[u.value],
                    Some(c) => invoked_once(st0[u.value], st1[u.value], c),
                }) },
            FrameDestination::Broadcast => match spec_call(q) {
                None => st1 == st0,
                Some(c) => st1.dom() == st0.dom() && forall|id: u8| #[trigger] st0.contains_key(id) ==> invoked_once(st0[id], st1[id], c),
            },
        } },
    }
}
// [C01,C08,C17] what is sent back
pub open spec fn wire_ok(tcp: bool, payload: Seq<u8>, header: FrameHeader, st0: Map<u8, HState>, st1: Map<u8, HState>, s0: Seq<Seq<u8>>, s1: Seq<Seq<u8>>, d: Authorization) -> bool {
    let bcast = header.destination is Broadcast;
    if payload.len() == 0 { same_sent(s0, s1) }                      // an empty body is not answered
    else { match crate::common::function::spec_fc_of(payload[0]) {
        // unsupported function code: exception 01
        None => if bcast { same_sent(s0, s1) } else { one_sent(s0, s1)
            && frame_ok_p(tcp, s1.last(), s1.last().len() as int, header, payload[0] | 0x80, exc_body(ExceptionCode::IllegalFunction)) },
        Some(f) => match spec_parse_request(f, payload.subrange(1, payload.len() as int)) {
            // syntactically invalid or beyond the protocol limits: exception 03
            None => if bcast { same_sent(s0, s1) } else { one_sent(s0, s1) && exc_frame(tcp, s1.last(), header, f, ExceptionCode::IllegalDataValue) },
            Some(q) => if d is Deny {
                // vetoed: exception 01 for that function code [C08]
                if bcast { same_sent(s0, s1) } else { one_sent(s0, s1) && exc_frame(tcp, s1.last(), header, f, ExceptionCode::IllegalFunction) }
            } else { match header.destination {
                FrameDestination::Broadcast => same_sent(s0, s1),          // never answered [C17]
                FrameDestination::UnitId(u) =>
                    if !st0.contains_key(u.value) { same_sent(s0, s1) }    // unconfigured unit: silent [C17]
                    else { one_sent(s0, s1) && reply_ok(tcp, s1.last(), header, q, st0[u.value],
                        if spec_call(q) is Some { last_result(st1[u.value]) } else { Ok(()) }) },
            } },
        },
    } }
}

impl<T> SessionTask<T> where T: RequestHandler {
// [C01,C02,C08,C17] one frame in, at most one frame out
//@fn rodbus/src/server/task.rs | SessionTask<T>::handle_frame | tags=C01,C02,C07,C08,C17,C20 | r10 r10id=0,1 r4
//@|    requires frame.wf(), old(self).tcp() ==> frame.header.tx_id is Some,
//@|    ensures final(self).tcp() == old(self).tcp(), final(self).auth == old(self).auth, final(self).reader == old(self).reader,
//@|        final(self).decode == old(self).decode, final(io).pending == old(io).pending,
//@|        same_sent(old(io).sent, final(io).sent) || one_sent(old(io).sent, final(io).sent),
//@|        r is Err ==> (r->Err_0 is Internal || r->Err_0 is Io),     // never a framing error or a shutdown
//@|        // the authorization decision is taken for exactly this request (unit id, range / index, role), before any effect [C08]
//@|        request_of(frame.spec_payload()) matches Some(q) ==> exists|d: Authorization|
//@|            #[trigger] old(self).auth.may_decide(unit_of(frame.header), q, d)
//@|            && app_ok(frame.spec_payload(), frame.header, old(self).handlers.states, final(self).handlers.states, d)
//@|            && (r is Ok ==> wire_ok(old(self).tcp(), frame.spec_payload(), frame.header, old(self).handlers.states, final(self).handlers.states, old(io).sent, final(io).sent, d)),
//@|        request_of(frame.spec_payload()) is None ==>
//@|            app_ok(frame.spec_payload(), frame.header, old(self).handlers.states, final(self).handlers.states, Authorization::Allow)
//@|            && (r is Ok ==> wire_ok(old(self).tcp(), frame.spec_payload(), frame.header, old(self).handlers.states, final(self).handlers.states, old(io).sent, final(io).sent, Authorization::Allow)),
//@exit 3| assert(request_of(frame.spec_payload()) == Some(request@)); assert(old(self).auth.may_decide(unit_of(frame.header), request@, Authorization::Deny)); assert(app_ok(frame.spec_payload(), frame.header, old(self).handlers.states, self.handlers.states, Authorization::Deny)); assert(wire_ok(old(self).tcp(), frame.spec_payload(), frame.header, old(self).handlers.states, self.handlers.states, old(io).sent, io.sent, Authorization::Deny));
//@tryexit 0| assert(request_of(frame.spec_payload()) == Some(request@)); assert(old(self).auth.may_decide(unit_of(frame.header), request@, Authorization::Deny)); assert(app_ok(frame.spec_payload(), frame.header, old(self).handlers.states, self.handlers.states, Authorization::Deny));
//@exit 4| assert(request_of(frame.spec_payload()) == Some(request@)); assert(old(self).auth.may_decide(unit_of(frame.header), request@, Authorization::Allow)); assert(app_ok(frame.spec_payload(), frame.header, old(self).handlers.states, self.handlers.states, Authorization::Allow)); assert(wire_ok(old(self).tcp(), frame.spec_payload(), frame.header, old(self).handlers.states, self.handlers.states, old(io).sent, io.sent, Authorization::Allow));
//@tryexit 1| assert(request_of(frame.spec_payload()) == Some(request@)); assert(old(self).auth.may_decide(unit_of(frame.header), request@, Authorization::Allow));
//@tryexit 2| assert(request_of(frame.spec_payload()) == Some(request@)); assert(old(self).auth.may_decide(unit_of(frame.header), request@, Authorization::Allow));
//@exit 5| let q = request_of(frame.spec_payload())->Some_0; assert(request_of(frame.spec_payload()) is Some); assert(old(self).auth.may_decide(unit_of(frame.header), q, Authorization::Allow));
//@exit 5| if frame.header.destination is UnitId { assert(app_ok(frame.spec_payload(), frame.header, old(self).handlers.states, self.handlers.states, Authorization::Allow)); }
//@exit 5| if frame.header.destination is Broadcast && spec_call(q) is None { assert(app_ok(frame.spec_payload(), frame.header, old(self).handlers.states, self.handlers.states, Authorization::Allow)); }
//@exit 5| if frame.header.destination is Broadcast && spec_call(q) is Some { assert(self.handlers.states.dom() == old(self).handlers.states.dom()); assert(forall|id: u8| #[trigger] old(self).handlers.states.contains_key(id) ==> invoked_once(old(self).handlers.states[id], self.handlers.states[id], spec_call(q)->Some_0)); } assert(app_ok(frame.spec_payload(), frame.header, old(self).handlers.states, self.handlers.states, Authorization::Allow)); assert(wire_ok(old(self).tcp(), frame.spec_payload(), frame.header, old(self).handlers.states, self.handlers.states, old(io).sent, io.sent, Authorization::Allow));
//@afterloop 0| assert(forall|id: u8| #[trigger] old(self).handlers.states.contains_key(id) ==> invoked_once(old(self).handlers.states[id], it__0.fin[id], request@));
//@loopstart 0| let ghost ids0 = it__0.ids;
//@loopend 0| lemma_skip_first(ids0);
//@loop 0|            invariant
//@loop 0|                it__0.cur == old(self).handlers.states, it__0.fin.dom() == old(self).handlers.states.dom(),
//@loop 0|                request.wf(), Some(request@) == spec_call(request_of(frame.spec_payload())->Some_0),
//@loop 0|                it__0.ids.no_duplicates(), self.handlers.states == it__0.fin,
//@loop 0|                forall|id: u8| #[trigger] it__0.ids.contains(id) ==> old(self).handlers.states.contains_key(id),
//@loop 0|                forall|id: u8| #[trigger] old(self).handlers.states.contains_key(id) && !it__0.ids.contains(id) ==> invoked_once(old(self).handlers.states[id], it__0.fin[id], request@),
//@loop 0|            ensures it__0.ids.len() == 0,
//@loop 0|            decreases it__0.ids.len()
}

impl<T> SessionTask<T> where T: RequestHandler {
    pub open spec fn wf(&self) -> bool { self.reader.wf() && (self.tcp() <==> self.reader.parser is Tcp) }

// one step of the session: either the next frame is handled, or a command is applied.  Any error ends the session (C05: malformed
// MBAP header; C15: Shutdown / closed command channel)
//@fn rodbus/src/server/task.rs | SessionTask<T>::run_one | tags=C01,C02,C05,C06,C15,C17,C20 | r3 r10
//@|    requires old(self).wf(),
//@|    ensures final(self).wf(), final(self).tcp() == old(self).tcp(), final(self).auth == old(self).auth,
//@|        same_sent(old(io).sent, final(io).sent) || one_sent(old(io).sent, final(io).sent),
//@|        // a frame that does not pass framing (bad MBAP header, bad CRC) reaches no handler and is not answered [C05,C06]
//@|        r matches Err(RequestError::BadFrame(_)) ==> final(self).handlers == old(self).handlers && final(io).sent == old(io).sent,
//@|        r matches Err(RequestError::Shutdown) ==> final(self).handlers == old(self).handlers && final(io).sent == old(io).sent,

//@fn rodbus/src/server/task.rs | SessionTask<T>::run | tags=C01,C05,C15 | attr=#[verifier::exec_allows_no_decreases_clause]
//@|    requires old(self).wf(),
//@|    ensures final(self).wf(), final(self).tcp() == old(self).tcp(),
//@loop 0|            invariant self.wf(), self.tcp() == old(self).tcp(),
}
