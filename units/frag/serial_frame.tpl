use vstd::prelude::*;
use crate::common::buffer::ReadBuffer;
use crate::common::frame::{Frame, FrameDestination, FrameHeader};
use crate::common::function::FunctionCode;
use crate::decode::FrameDecodeLevel;
use crate::error::{FrameParseError, RequestError};
use crate::types::UnitId;
use crate::shims::crc;
use crate::shims::crc::crc16;
use crate::spec::*;

pub mod constants {
//@item rodbus/src/serial/frame.rs | constants::HEADER_LENGTH
//@item rodbus/src/serial/frame.rs | constants::FUNCTION_CODE_LENGTH
//@item rodbus/src/serial/frame.rs | constants::CRC_LENGTH
//@item rodbus/src/serial/frame.rs | constants::MAX_FRAME_LENGTH
}

//@item rodbus/src/serial/frame.rs | CRC | execconst=true
//@item rodbus/src/serial/frame.rs | ParserType
//@item rodbus/src/serial/frame.rs | ParseState
//@item rodbus/src/serial/frame.rs | LengthMode
//@item rodbus/src/serial/frame.rs | RtuParser

// ---- specification (from the Modbus serial-line specification, C06) ----
// how the length of an RTU PDU follows from its function code, per direction
pub open spec fn spec_length_mode(pt: ParserType, fc: u8) -> LengthMode {
    if pt is Response && fc >= 0x80 { LengthMode::Fixed(1) }
    else if pt is Request {
        if 1 <= fc <= 6 { LengthMode::Fixed(4) }
        else if fc == 15 || fc == 16 { LengthMode::Offset(5) }
        else { LengthMode::Unknown }
    } else {
        if 1 <= fc <= 4 { LengthMode::Offset(1) }
        else if fc == 5 || fc == 6 || fc == 15 || fc == 16 { LengthMode::Fixed(4) }
        else { LengthMode::Unknown }
    }
}

pub open spec fn rtu_dest(b: u8) -> FrameDestination {
    if b == 0 { FrameDestination::Broadcast } else { FrameDestination::UnitId(UnitId { value: b }) }
}

// what the bytes after the address byte `d` begin with: [function][body of `length` bytes][crc lo][crc hi]
pub open spec fn rtu_body_next(pt: ParserType, d: u8, b: Seq<u8>) -> StreamNext {
    if b.len() < 1 { StreamNext::NeedMore }
    else {
        match spec_length_mode(pt, b[0]) {
            LengthMode::Unknown => StreamNext::Bad(FrameParseError::UnknownFunctionCode(b[0])),
            LengthMode::Fixed(n) => rtu_body_len(d, b, n as int),
            LengthMode::Offset(o) => if b.len() < 1 + o { StreamNext::NeedMore } else { rtu_body_len(d, b, o + b[o as int] as int) },
        }
    }
}
pub open spec fn rtu_body_len(d: u8, b: Seq<u8>, length: int) -> StreamNext {
    if 1 + length > 253 { StreamNext::Bad(FrameParseError::FrameLengthTooBig((1 + length) as usize, 253)) }
    else if b.len() < 1 + length + 2 { StreamNext::NeedMore }
    else if le16(b, 1 + length) != crc16(seq![d] + b.subrange(0, 1 + length)) as int {
        // a frame is acted on only if the CRC of address + PDU equals the little-endian trailer [C06]
        StreamNext::Bad(FrameParseError::CrcValidationFailure(le16(b, 1 + length) as u16, crc16(seq![d] + b.subrange(0, 1 + length))))
    }
    else { StreamNext::Frame { dest: rtu_dest(d), tx: None, pdu: b.subrange(0, 1 + length), rest: b.subrange(3 + length, b.len() as int) } }
}
// what an RTU byte stream begins with: [address] ++ the above
pub open spec fn rtu_next(pt: ParserType, s: Seq<u8>) -> StreamNext {
    if s.len() < 2 { StreamNext::NeedMore } else { rtu_body_next(pt, s[0], s.subrange(1, s.len() as int)) }
}

// prefix stability [C06]: the frame found does not depend on how many further bytes have already arrived
pub proof fn lemma_rtu_prefix_stable(pt: ParserType, s: Seq<u8>, t: Seq<u8>)
    ensures
        rtu_next(pt, s) matches StreamNext::Bad(e) ==> rtu_next(pt, s + t) == StreamNext::Bad(e),
        rtu_next(pt, s) matches StreamNext::Frame { dest, tx, pdu, rest } ==>
            rtu_next(pt, s + t) == (StreamNext::Frame { dest, tx, pdu, rest: rest + t }),
{
    if s.len() >= 2 {
        let b = s.subrange(1, s.len() as int);
        assert((s + t).subrange(1, (s + t).len() as int) =~= b + t);
        assert((s + t)[0] == s[0]);
        lemma_rtu_body_prefix_stable(pt, s[0], b, t);
    }
}
pub proof fn lemma_rtu_body_prefix_stable(pt: ParserType, d: u8, b: Seq<u8>, t: Seq<u8>)
    ensures
        rtu_body_next(pt, d, b) matches StreamNext::Bad(e) ==> rtu_body_next(pt, d, b + t) == StreamNext::Bad(e),
        rtu_body_next(pt, d, b) matches StreamNext::Frame { dest, tx, pdu, rest } ==>
            rtu_body_next(pt, d, b + t) == (StreamNext::Frame { dest, tx, pdu, rest: rest + t }),
{
    assert(forall|i: int| 0 <= i < b.len() ==> #[trigger] (b + t)[i] == b[i]);
    if b.len() >= 1 {
        match spec_length_mode(pt, b[0]) {
            LengthMode::Unknown => {},
            LengthMode::Fixed(n) => { lemma_rtu_len_prefix_stable(d, b, t, n as int); },
            LengthMode::Offset(o) => { if b.len() >= 1 + o { lemma_rtu_len_prefix_stable(d, b, t, o + b[o as int] as int); } },
        }
    }
}
pub proof fn lemma_rtu_len_prefix_stable(d: u8, b: Seq<u8>, t: Seq<u8>, length: int)
    requires length >= 0
    ensures
        rtu_body_len(d, b, length) matches StreamNext::Bad(e) ==> rtu_body_len(d, b + t, length) == StreamNext::Bad(e),
        rtu_body_len(d, b, length) matches StreamNext::Frame { dest, tx, pdu, rest } ==>
            rtu_body_len(d, b + t, length) == (StreamNext::Frame { dest, tx, pdu, rest: rest + t }),
{
    assert(forall|i: int| 0 <= i < b.len() ==> #[trigger] (b + t)[i] == b[i]);
    if 1 + length <= 253 && b.len() >= 3 + length {
        assert((b + t).subrange(0, 1 + length) =~= b.subrange(0, 1 + length));
        assert((b + t).subrange(3 + length, (b + t).len() as int) =~= b.subrange(3 + length, b.len() as int) + t);
    }
}

impl RtuParser {
    // relation between the parser state and the bytes still buffered (`b`): the state caches facts about them
    pub open spec fn wf(&self, b: Seq<u8>) -> bool {
        match self.state {
            ParseState::Start => true,
            ParseState::ReadToOffsetForLength(dest, o) => b.len() >= 1 && spec_length_mode(self.parser_type, b[0]) == LengthMode::Offset(o) && o <= 5
                && dest == rtu_dest(dest.spec_value()),
            ParseState::ReadFullBody(dest, len) => b.len() >= 1 && len <= 5 + 255 && dest == rtu_dest(dest.spec_value())
                && match spec_length_mode(self.parser_type, b[0]) {
                    LengthMode::Fixed(n) => len == n,
                    LengthMode::Offset(o) => b.len() >= 1 + o && len == o + b[o as int] as int,
                    LengthMode::Unknown => false,
                },
        }
    }
    // the bytes taken out of the buffer but not yet turned into a frame: the address byte
    pub open spec fn held(&self) -> Seq<u8> {
        match self.state {
            ParseState::Start => Seq::<u8>::empty(),
            ParseState::ReadToOffsetForLength(dest, o) => seq![dest.spec_value()],
            ParseState::ReadFullBody(dest, len) => seq![dest.spec_value()],
        }
    }
    pub open spec fn is_begin(&self) -> bool { self.state is Start }
    pub open spec fn rank(&self) -> int {
        match self.state { ParseState::Start => 2, ParseState::ReadToOffsetForLength(_, _) => 1, ParseState::ReadFullBody(_, _) => 0 }
    }
    pub open spec fn kind(&self) -> ParserType { self.parser_type }
    // the framing result for the current state and buffered bytes
    pub open spec fn spec_parse(&self, b: Seq<u8>) -> StreamNext {
        match self.state {
            ParseState::Start => rtu_next(self.parser_type, b),
            ParseState::ReadToOffsetForLength(dest, o) => rtu_body_next(self.parser_type, dest.spec_value(), b),
            ParseState::ReadFullBody(dest, len) => rtu_body_next(self.parser_type, dest.spec_value(), b),
        }
    }
    // ... which is the framing rule applied to the logical stream held ++ buffered
    pub proof fn lemma_spec_parse_is_stream(&self, b: Seq<u8>)
        requires self.wf(b)
        ensures self.spec_parse(b) == rtu_next(self.parser_type, self.held() + b)
    {
        if !(self.state is Start) {
            let l = self.held() + b;
            assert(l.subrange(1, l.len() as int) =~= b);
        } else {
            assert(self.held() + b =~= b);
        }
    }

//@fn rodbus/src/serial/frame.rs | RtuParser::new_request_parser | tags=C06
//@|    ensures r.is_begin(), r.kind() is Request,
//@fn rodbus/src/serial/frame.rs | RtuParser::new_response_parser | tags=C06
//@|    ensures r.is_begin(), r.kind() is Response,

//@fn rodbus/src/serial/frame.rs | RtuParser::length_mode | tags=C06
//@|    ensures r == spec_length_mode(self.parser_type, function_code),
//@entry| assert(function_code & 0x80 != 0 <==> function_code >= 0x80) by (bit_vector);

//@fn rodbus/src/serial/frame.rs | RtuParser::parse | tags=C06,C07,C17,C20 | attr=#[verifier::rlimit(80)]
//@|    requires old(self).wf(old(cursor)@), old(cursor).wf(),
//@|    ensures final(cursor).wf(), final(self).kind() == old(self).kind(),
//@|        r is Ok ==> final(self).wf(final(cursor)@),
//@|        match old(self).spec_parse(old(cursor)@) {
//@|            StreamNext::NeedMore => r == Ok::<Option<Frame>, RequestError>(None)
//@|                && final(self).held() + final(cursor)@ =~= old(self).held() + old(cursor)@
//@|                && final(cursor)@.len() < 260,
//@|            StreamNext::Bad(e) => r == Err::<Option<Frame>, RequestError>(RequestError::BadFrame(e)),
//@|            StreamNext::Frame { dest, tx, pdu, rest } => r is Ok && r->Ok_0 is Some
//@|                && r->Ok_0->Some_0.wf()
//@|                && r->Ok_0->Some_0.spec_payload() =~= pdu
//@|                && r->Ok_0->Some_0.header.tx_id is None
//@|                && r->Ok_0->Some_0.header.destination == dest       // address 0 is Broadcast [C17]
//@|                && final(self).is_begin()
//@|                && final(cursor)@ =~= rest,
//@|        },
//@|    decreases old(self).rank(),
//@entry| broadcast use crate::shims::crc::lemma_crc16_ext;

//@fn rodbus/src/serial/frame.rs | RtuParser::reset | tags=C06
//@|    ensures final(self).is_begin(), final(self).kind() == old(self).kind(),
}
