use vstd::prelude::*;
use vstd::std_specs::convert::FromSpecImpl;
// ---- items of the generated ffi.rs (oo-bindgen output for the current tree), verbatim ----
// `From<c_int> for <enum>` panics on values that are not variants (the C caller must pass valid enumerators): those impls are
// ASSUMED to be the inverse of the verified `From<enum> for c_int` tables on valid values.
//@item @ffi/ffi.rs | ModbusException | derive=Copy,Clone
//@item @ffi/ffi.rs | RequestError | derive=Copy,Clone
//@item @ffi/ffi.rs | ParamError | derive=Copy,Clone
//@item @ffi/ffi.rs | AppDecodeLevel | derive=Copy,Clone
//@item @ffi/ffi.rs | FrameDecodeLevel | derive=Copy,Clone
//@item @ffi/ffi.rs | PhysDecodeLevel | derive=Copy,Clone
//@item @ffi/ffi.rs | Authorization | derive=Copy,Clone
//@item @ffi/ffi.rs | DecodeLevel | derive=Clone
//@item @ffi/ffi.rs | WriteResult | derive=Clone
//@item @ffi/ffi.rs | BitValue | derive=Clone
//@item @ffi/ffi.rs | RegisterValue | derive=Clone
//@item @ffi/ffi.rs | AddressRange | derive=Clone

pub open spec fn modbus_exception_of(v: i32) -> ModbusException {
    if v == 1 { ModbusException::IllegalFunction } else if v == 2 { ModbusException::IllegalDataAddress } else if v == 3 { ModbusException::IllegalDataValue }
    else if v == 4 { ModbusException::ServerDeviceFailure } else if v == 5 { ModbusException::Acknowledge } else if v == 6 { ModbusException::ServerDeviceBusy }
    else if v == 8 { ModbusException::MemoryParityError } else if v == 10 { ModbusException::GatewayPathUnavailable }
    else if v == 11 { ModbusException::GatewayTargetDeviceFailedToRespond } else { ModbusException::Unknown }
}
pub open spec fn app_level_of(v: i32) -> AppDecodeLevel {
    if v == 0 { AppDecodeLevel::Nothing } else if v == 1 { AppDecodeLevel::FunctionCode } else if v == 2 { AppDecodeLevel::DataHeaders } else { AppDecodeLevel::DataValues }
}
pub open spec fn frame_level_of(v: i32) -> FrameDecodeLevel {
    if v == 0 { FrameDecodeLevel::Nothing } else if v == 1 { FrameDecodeLevel::Header } else { FrameDecodeLevel::Payload }
}
pub open spec fn phys_level_of(v: i32) -> PhysDecodeLevel {
    if v == 0 { PhysDecodeLevel::Nothing } else if v == 1 { PhysDecodeLevel::Length } else { PhysDecodeLevel::Data }
}

impl FromSpecImpl<ModbusException> for i32 {
    open spec fn obeys_from_spec() -> bool { true }
    open spec fn from_spec(v: ModbusException) -> Self {
        match v { ModbusException::IllegalFunction => 1, ModbusException::IllegalDataAddress => 2, ModbusException::IllegalDataValue => 3,
            ModbusException::ServerDeviceFailure => 4, ModbusException::Acknowledge => 5, ModbusException::ServerDeviceBusy => 6,
            ModbusException::MemoryParityError => 8, ModbusException::GatewayPathUnavailable => 10,
            ModbusException::GatewayTargetDeviceFailedToRespond => 11, ModbusException::Unknown => 255 }
    }
}
impl From<ModbusException> for std::os::raw::c_int {
//@fn @ffi/ffi.rs | From<ModbusException> for std::os::raw::c_int::from | tags=C18
}
impl FromSpecImpl<i32> for ModbusException {
    open spec fn obeys_from_spec() -> bool { true }
    open spec fn from_spec(v: i32) -> Self { modbus_exception_of(v) }
}
impl From<std::os::raw::c_int> for ModbusException {
//@fn @ffi/ffi.rs | From<std::os::raw::c_int> for ModbusException::from | tags=C18 | ext_body
}
impl FromSpecImpl<i32> for AppDecodeLevel {
    open spec fn obeys_from_spec() -> bool { true }
    open spec fn from_spec(v: i32) -> Self { app_level_of(v) }
}
impl From<std::os::raw::c_int> for AppDecodeLevel {
//@fn @ffi/ffi.rs | From<std::os::raw::c_int> for AppDecodeLevel::from | tags=C18 | ext_body
}
impl FromSpecImpl<i32> for FrameDecodeLevel {
    open spec fn obeys_from_spec() -> bool { true }
    open spec fn from_spec(v: i32) -> Self { frame_level_of(v) }
}
impl From<std::os::raw::c_int> for FrameDecodeLevel {
//@fn @ffi/ffi.rs | From<std::os::raw::c_int> for FrameDecodeLevel::from | tags=C18 | ext_body
}
impl FromSpecImpl<i32> for PhysDecodeLevel {
    open spec fn obeys_from_spec() -> bool { true }
    open spec fn from_spec(v: i32) -> Self { phys_level_of(v) }
}
impl From<std::os::raw::c_int> for PhysDecodeLevel {
//@fn @ffi/ffi.rs | From<std::os::raw::c_int> for PhysDecodeLevel::from | tags=C18 | ext_body
}

impl DecodeLevel {
//@fn @ffi/ffi.rs | DecodeLevel::app | tags=C18
//@|    ensures r == app_level_of(self.app),
//@fn @ffi/ffi.rs | DecodeLevel::frame | tags=C18
//@|    ensures r == frame_level_of(self.frame),
//@fn @ffi/ffi.rs | DecodeLevel::physical | tags=C18
//@|    ensures r == phys_level_of(self.physical),
}
impl WriteResult {
//@fn @ffi/ffi.rs | WriteResult::success | tags=C18
//@|    ensures r == self.success,
//@fn @ffi/ffi.rs | WriteResult::exception | tags=C18
//@|    ensures r == modbus_exception_of(self.exception),
//@fn @ffi/ffi.rs | WriteResult::raw_exception | tags=C18
//@|    ensures r == self.raw_exception,
}

// ---- the application's write callbacks (C function pointers + context): opaque; the contract only names the answer ----
pub struct WriteHandler { pub x: u8 }
impl WriteHandler {
    pub uninterp spec fn may_write_single_coil(&self, index: u16, value: bool, r: Option<WriteResult>) -> bool;
    pub uninterp spec fn may_write_single_register(&self, index: u16, value: u16, r: Option<WriteResult>) -> bool;
    #[verifier::external_body]
    pub fn write_single_coil(&self, index: u16, value: bool, database: &mut crate::Database) -> (r: Option<WriteResult>)
        ensures self.may_write_single_coil(index, value, r),
    { unimplemented!() }
    #[verifier::external_body]
    pub fn write_single_register(&self, index: u16, value: u16, database: &mut crate::Database) -> (r: Option<WriteResult>)
        ensures self.may_write_single_register(index, value, r),
    { unimplemented!() }
    // the multiple-write callbacks receive the start address and an iterator over exactly the decoded values of the request
    pub uninterp spec fn may_write_multiple_coils(&self, start: u16, it: crate::rodbus::BitIterator<'_>, r: Option<WriteResult>) -> bool;
    pub uninterp spec fn may_write_multiple_registers(&self, start: u16, it: crate::rodbus::RegisterIterator<'_>, r: Option<WriteResult>) -> bool;
    #[verifier::external_body]
    pub fn write_multiple_coils(&self, start: u16, it: &mut crate::BitValueIterator<'_>, database: &mut crate::Database) -> (r: Option<WriteResult>)
        ensures self.may_write_multiple_coils(start, old(it).inner, r),
    { unimplemented!() }
    #[verifier::external_body]
    pub fn write_multiple_registers(&self, start: u16, it: &mut crate::RegisterValueIterator<'_>, database: &mut crate::Database) -> (r: Option<WriteResult>)
        ensures self.may_write_multiple_registers(start, old(it).inner, r),
    { unimplemented!() }
}
//@trusted ffi::WriteHandler callbacks: C function pointers, opaque (any WriteResult or None when the callback is not set)
pub struct AuthorizationHandler { pub x: u8 }
//@trusted ffi::AuthorizationHandler: C function pointers, opaque
// request parameters as passed by C: unit id and timeout in milliseconds
//@item @ffi/ffi.rs | RequestParam | derive=Clone
pub uninterp spec fn spec_millis(ms: u64) -> std::time::Duration;
pub assume_specification [std::time::Duration::from_millis] (ms: u64) -> (r: std::time::Duration) ensures r == spec_millis(ms);
//@trusted std::time::Duration::from_millis: the duration of that many milliseconds (`spec_millis`, uninterpreted)
impl RequestParam {
//@fn @ffi/ffi.rs | RequestParam::timeout | tags=C18
//@|    ensures r == spec_millis(self.timeout),
}
// completion callbacks (C function pointers): opaque
pub struct BitReadCallback { pub x: u8 }
pub struct RegisterReadCallback { pub x: u8 }
pub struct WriteCallback { pub x: u8 }
//@trusted ffi::{BitReadCallback, RegisterReadCallback, WriteCallback}: C function pointers, opaque
// connection states and TLS enums as generated for C
//@item @ffi/ffi.rs | ClientState | derive=Copy,Clone
//@item @ffi/ffi.rs | PortState | derive=Copy,Clone
//@item @ffi/ffi.rs | MinTlsVersion | derive=Copy,Clone
//@item @ffi/ffi.rs | CertificateMode | derive=Copy,Clone
// state listeners (C function pointer + context): opaque; `notified(s)` = the C callback has been invoked with state `s`
pub struct ClientStateListener { pub x: u8 }
impl ClientStateListener {
    pub uninterp spec fn notified(&self, s: ClientState) -> bool;
    #[verifier::external_body]
    pub fn on_change(&self, state: ClientState) ensures self.notified(state) { unimplemented!() }
}
pub struct PortStateListener { pub x: u8 }
impl PortStateListener {
    pub uninterp spec fn notified(&self, s: PortState) -> bool;
    #[verifier::external_body]
    pub fn on_change(&self, state: PortState) ensures self.notified(state) { unimplemented!() }
}
//@trusted ffi::{ClientStateListener, PortStateListener}::on_change: C callbacks, opaque
// reconnect strategy parameters as passed by C (milliseconds)
//@item @ffi/ffi.rs | RetryStrategy | derive=Clone
impl RetryStrategy {
//@fn @ffi/ffi.rs | RetryStrategy::min_delay | tags=C18
//@|    ensures r == spec_millis(self.min_delay),
//@fn @ffi/ffi.rs | RetryStrategy::max_delay | tags=C18
//@|    ensures r == spec_millis(self.max_delay),
}
// a database transaction (C function pointer + context): `ran()` = the C callback has been invoked (it gets the database it is handed)
pub struct DatabaseCallback { pub x: u8 }
impl DatabaseCallback {
    pub uninterp spec fn ran(&self) -> bool;
    #[verifier::external_body]
    pub fn callback(&self, database: &mut crate::Database) ensures self.ran() { unimplemented!() }
}
//@trusted ffi::DatabaseCallback::callback: C callback, opaque (takes the database by `&mut` in the unit: the raw pointer the real signature takes is made from exactly such a reference at the call site)

// ---- serial port settings as generated for C (c_int fields; the getters convert through the generated From<c_int> tables) ----
//@item @ffi/ffi.rs | DataBits | derive=Copy,Clone
//@item @ffi/ffi.rs | FlowControl | derive=Copy,Clone
//@item @ffi/ffi.rs | Parity | derive=Copy,Clone
//@item @ffi/ffi.rs | StopBits | derive=Copy,Clone
pub open spec fn data_bits_of(v: i32) -> DataBits { if v == 0 { DataBits::Five } else if v == 1 { DataBits::Six } else if v == 2 { DataBits::Seven } else { DataBits::Eight } }
pub open spec fn flow_control_of(v: i32) -> FlowControl { if v == 0 { FlowControl::None } else if v == 1 { FlowControl::Software } else { FlowControl::Hardware } }
pub open spec fn parity_of(v: i32) -> Parity { if v == 0 { Parity::None } else if v == 1 { Parity::Odd } else { Parity::Even } }
pub open spec fn stop_bits_of(v: i32) -> StopBits { if v == 0 { StopBits::One } else { StopBits::Two } }
impl FromSpecImpl<i32> for DataBits { open spec fn obeys_from_spec() -> bool { true } open spec fn from_spec(v: i32) -> Self { data_bits_of(v) } }
impl FromSpecImpl<i32> for FlowControl { open spec fn obeys_from_spec() -> bool { true } open spec fn from_spec(v: i32) -> Self { flow_control_of(v) } }
impl FromSpecImpl<i32> for Parity { open spec fn obeys_from_spec() -> bool { true } open spec fn from_spec(v: i32) -> Self { parity_of(v) } }
impl FromSpecImpl<i32> for StopBits { open spec fn obeys_from_spec() -> bool { true } open spec fn from_spec(v: i32) -> Self { stop_bits_of(v) } }
impl From<std::os::raw::c_int> for DataBits {
//@fn @ffi/ffi.rs | From<std::os::raw::c_int> for DataBits::from | tags=C18 | ext_body
}
impl From<std::os::raw::c_int> for FlowControl {
//@fn @ffi/ffi.rs | From<std::os::raw::c_int> for FlowControl::from | tags=C18 | ext_body
}
impl From<std::os::raw::c_int> for Parity {
//@fn @ffi/ffi.rs | From<std::os::raw::c_int> for Parity::from | tags=C18 | ext_body
}
impl From<std::os::raw::c_int> for StopBits {
//@fn @ffi/ffi.rs | From<std::os::raw::c_int> for StopBits::from | tags=C18 | ext_body
}
//@item @ffi/ffi.rs | SerialPortSettings | derive=Clone
impl SerialPortSettings {
//@fn @ffi/ffi.rs | SerialPortSettings::baud_rate | tags=C18
//@|    ensures r == self.baud_rate,
//@fn @ffi/ffi.rs | SerialPortSettings::data_bits | tags=C18
//@|    ensures r == data_bits_of(self.data_bits),
//@fn @ffi/ffi.rs | SerialPortSettings::flow_control | tags=C18
//@|    ensures r == flow_control_of(self.flow_control),
//@fn @ffi/ffi.rs | SerialPortSettings::parity | tags=C18
//@|    ensures r == parity_of(self.parity),
//@fn @ffi/ffi.rs | SerialPortSettings::stop_bits | tags=C18
//@|    ensures r == stop_bits_of(self.stop_bits),
}
