use vstd::prelude::*;
use vstd::std_specs::convert::FromSpecImpl;

//@item rodbus/src/error.rs | Shutdown
//@item rodbus/src/error.rs | RequestError | enumeq
//@item rodbus/src/error.rs | InvalidRange
//@item rodbus/src/error.rs | InternalError
//@item rodbus/src/error.rs | FrameParseError
//@item rodbus/src/error.rs | AduParseError
//@item rodbus/src/error.rs | InvalidRequest

impl FromSpecImpl<std::io::Error> for RequestError {
    open spec fn obeys_from_spec() -> bool { true }
    open spec fn from_spec(err: std::io::Error) -> Self { RequestError::Io(crate::io_error_kind(err)) }
}
impl From<std::io::Error> for RequestError {
//@fn rodbus/src/error.rs | From<std::io::Error> for RequestError::from | tags=C10
}
impl FromSpecImpl<InvalidRequest> for RequestError {
    open spec fn obeys_from_spec() -> bool { true }
    open spec fn from_spec(err: InvalidRequest) -> Self { RequestError::BadRequest(err) }
}
impl From<InvalidRequest> for RequestError {
//@fn rodbus/src/error.rs | From<InvalidRequest> for RequestError::from
}
impl FromSpecImpl<InternalError> for RequestError {
    open spec fn obeys_from_spec() -> bool { true }
    open spec fn from_spec(err: InternalError) -> Self { RequestError::Internal(err) }
}
impl From<InternalError> for RequestError {
//@fn rodbus/src/error.rs | From<InternalError> for RequestError::from
}
impl FromSpecImpl<AduParseError> for RequestError {
    open spec fn obeys_from_spec() -> bool { true }
    open spec fn from_spec(err: AduParseError) -> Self { RequestError::BadResponse(err) }
}
impl From<AduParseError> for RequestError {
//@fn rodbus/src/error.rs | From<AduParseError> for RequestError::from
}
impl FromSpecImpl<crate::exception::ExceptionCode> for RequestError {
    open spec fn obeys_from_spec() -> bool { true }
    open spec fn from_spec(err: crate::exception::ExceptionCode) -> Self { RequestError::Exception(err) }
}
impl From<crate::exception::ExceptionCode> for RequestError {
//@fn rodbus/src/error.rs | From<crate::exception::ExceptionCode> for RequestError::from
}
impl FromSpecImpl<FrameParseError> for RequestError {
    open spec fn obeys_from_spec() -> bool { true }
    open spec fn from_spec(err: FrameParseError) -> Self { RequestError::BadFrame(err) }
}
impl From<FrameParseError> for RequestError {
//@fn rodbus/src/error.rs | From<FrameParseError> for RequestError::from
}
impl FromSpecImpl<InvalidRange> for InvalidRequest {
    open spec fn obeys_from_spec() -> bool { true }
    open spec fn from_spec(x: InvalidRange) -> Self { InvalidRequest::BadRange(x) }
}
impl From<InvalidRange> for InvalidRequest {
//@fn rodbus/src/error.rs | From<InvalidRange> for InvalidRequest::from
}
impl FromSpecImpl<InvalidRange> for RequestError {
    open spec fn obeys_from_spec() -> bool { true }
    open spec fn from_spec(x: InvalidRange) -> Self { RequestError::BadRequest(InvalidRequest::BadRange(x)) }
}
impl From<InvalidRange> for RequestError {
//@fn rodbus/src/error.rs | From<InvalidRange> for RequestError::from
}
