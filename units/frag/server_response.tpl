use vstd::prelude::*;
use crate::exception::ExceptionCode;
use crate::types::{ReadBitsRange, ReadRegistersRange};
//@item rodbus/src/server/response.rs | BitWriter
impl<T> BitWriter<T> where T: Fn(u16) -> Result<bool, ExceptionCode> {
//@fn rodbus/src/server/response.rs | BitWriter<T>::new | tags=C01,C02
//@|    ensures r.range == range, r.getter == getter,
}
//@item rodbus/src/server/response.rs | RegisterWriter
impl<T> RegisterWriter<T> where T: Fn(u16) -> Result<u16, ExceptionCode> {
//@fn rodbus/src/server/response.rs | RegisterWriter<T>::new | tags=C01,C02
//@|    ensures r.range == range, r.getter == getter,
}
