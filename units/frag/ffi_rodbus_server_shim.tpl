// ---- the rodbus::server API as the FFI crate sees it (assumed contracts on the dependency) ----
use vstd::prelude::*;
use crate::rodbus::DecodeLevel;

#[verifier::external_type_specification]
#[verifier::external_body]
pub struct ExIpAddr(std::net::IpAddr);
#[verifier::external_type_specification]
#[verifier::external_body]
pub struct ExSocketAddr(std::net::SocketAddr);
pub use std::net::SocketAddr;
pub assume_specification<T: Clone, S: Clone, A: std::alloc::Allocator + Clone> [<std::collections::HashSet<T, S, A> as Clone>::clone] (s: &std::collections::HashSet<T, S, A>) -> (r: std::collections::HashSet<T, S, A>)
    ensures r@ == s@;
//@trusted HashSet::clone: the clone has the same elements

// the real filter types of the rodbus crate
//@item rodbus/src/server/address_filter.rs | WildcardIPv4 | derive=Clone,Copy
//@item rodbus/src/server/address_filter.rs | AddressFilter | derive=

pub trait AuthorizationHandler {}
pub struct TlsServerConfig { pub x: u8 }
pub struct ServerHandlerMap<T> { pub p: core::marker::PhantomData<T> }
impl<T> Clone for ServerHandlerMap<T> {
    #[verifier::external_body]
    fn clone(&self) -> (r: Self) ensures r == *self { unimplemented!() }
}
// `ServerHandlerType<T> = Arc<Mutex<Box<T>>>`: the only way to the handler is through the lock; the reference obtained from
// `lock().unwrap()` IS the guard (it lives exactly as long as the lock is held)
pub struct ServerHandlerType<T> { pub p: core::marker::PhantomData<T> }
pub struct LockResult<'a, T> { pub g: &'a mut T }
impl<T> ServerHandlerMap<T> {
    pub uninterp spec fn has(&self, id: crate::rodbus::UnitId) -> bool;
    #[verifier::external_body]
    pub fn get(&mut self, id: crate::rodbus::UnitId) -> (r: Option<&mut ServerHandlerType<T>>)
        ensures r is Some <==> old(self).has(id), { unimplemented!() }
}
impl<T> ServerHandlerType<T> {
    #[verifier::external_body]
    pub fn lock(&self) -> (r: LockResult<'_, T>) { unimplemented!() }
}
impl<'a, T> LockResult<'a, T> {
    #[verifier::external_body]
    pub fn unwrap(self) -> (r: &'a mut T) { unimplemented!() }
}
//@trusted ServerHandlerMap::get / Mutex::lock().unwrap() (FFI unit): opaque; the handler is reachable only through the reference that stands for the held lock
pub struct ServerHandle { pub x: u8 }
impl ServerHandle {
    // what the accept-loop task controlled by this handle was configured with. The spawn_* functions below promise these values;
    // on the rodbus side that promise is `rodbus::server::serves(..)`, proved for the real spawn_* functions in the tracker unit
    pub uninterp spec fn cfg_max_sessions(&self) -> usize;
    pub uninterp spec fn cfg_filter(&self) -> AddressFilter;
    pub uninterp spec fn cfg_decode(&self) -> DecodeLevel;
    pub uninterp spec fn cfg_tls(&self) -> Option<(TlsServerConfig, Option<std::sync::Arc<dyn AuthorizationHandler>>)>;
}
#[verifier::external_body]
pub async fn spawn_tcp_server_task<T>(max_sessions: usize, addr: SocketAddr, handlers: ServerHandlerMap<T>, filter: AddressFilter, decode: DecodeLevel) -> (r: Result<ServerHandle, std::io::Error>)
    ensures r matches Ok(h) ==> h.cfg_max_sessions() == max_sessions && h.cfg_filter() == filter && h.cfg_decode() == decode && h.cfg_tls() is None,
{ unimplemented!() }
#[verifier::external_body]
pub async fn spawn_tls_server_task<T>(max_sessions: usize, addr: SocketAddr, handlers: ServerHandlerMap<T>, tls_config: TlsServerConfig, filter: AddressFilter, decode: DecodeLevel) -> (r: Result<ServerHandle, std::io::Error>)
    ensures r matches Ok(h) ==> h.cfg_max_sessions() == max_sessions && h.cfg_filter() == filter && h.cfg_decode() == decode && h.cfg_tls() == Some((tls_config, None::<std::sync::Arc<dyn AuthorizationHandler>>)),
{ unimplemented!() }
#[verifier::external_body]
pub async fn spawn_tls_server_task_with_authz<T>(max_sessions: usize, addr: SocketAddr, handlers: ServerHandlerMap<T>, auth_handler: std::sync::Arc<dyn AuthorizationHandler>, tls_config: TlsServerConfig, filter: AddressFilter, decode: DecodeLevel) -> (r: Result<ServerHandle, std::io::Error>)
    ensures r matches Ok(h) ==> h.cfg_max_sessions() == max_sessions && h.cfg_filter() == filter && h.cfg_decode() == decode && h.cfg_tls() == Some((tls_config, Some(auth_handler))),
{ unimplemented!() }
//@trusted rodbus::server::spawn_{tcp,tls,tls_with_authz}_server_task (FFI unit): assumed contract - the returned handle controls a task configured with the arguments given (this is the postcondition `serves` proved for the real functions in the tracker unit)
