use vstd::prelude::*;
use crate::error::Shutdown;
use crate::shims::tokio;
//@item rodbus/src/channel.rs | Receiver
impl<T> Receiver<T> {
//@fn rodbus/src/channel.rs | Receiver<T>::recv | tags=C10
//@|    ensures r matches Ok(v) ==> tokio::sync::mpsc::queue_inv(v),
}
impl<T> vstd::std_specs::convert::FromSpecImpl<tokio::sync::mpsc::Receiver<T>> for Receiver<T> {
    open spec fn obeys_from_spec() -> bool { true }
    open spec fn from_spec(value: tokio::sync::mpsc::Receiver<T>) -> Self { Receiver(value) }
}
impl<T> From<tokio::sync::mpsc::Receiver<T>> for Receiver<T> {
//@fn rodbus/src/channel.rs | From<tokio::sync::mpsc::Receiver<T>> for Receiver<T>::from | tags=C10
}
