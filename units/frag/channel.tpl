use vstd::prelude::*;
use crate::error::Shutdown;
use crate::shims::tokio;
//@item rodbus/src/channel.rs | Receiver
impl<T> Receiver<T> {
//@fn rodbus/src/channel.rs | Receiver<T>::recv | tags=C10
//@|    ensures r matches Ok(v) ==> tokio::sync::mpsc::queue_inv(v),
}
