//@set display
//@include frag/std.tpl
//@include frag/core_modules.tpl
pub mod decode {
//@include frag/decode.tpl
}
pub mod spec {
//@include frag/stream_spec.tpl
}
pub mod shims {
    pub mod scursor {
//@include frag/scursor_shim.tpl
    }
    pub mod crc {
//@include frag/crc_shim.tpl
    }
    pub mod tokio {
//@include frag/tokio_shim.tpl
    }
    pub mod sync {
//@include frag/sync_shim.tpl
    }
    pub mod fmt {
//@include frag/fmt_shim.tpl
    }
    pub mod net {
//@include frag/net_shim.tpl
    }
}
pub mod common {
    pub mod bits {
//@include frag/common_bits.tpl
    }
    pub mod function {
//@include frag/common_function.tpl
    }
    pub mod traits {
//@include frag/common_traits.tpl
    }
    pub mod parse {
//@include frag/common_parse.tpl
    }
    pub mod serialize {
//@include frag/common_serialize_basic.tpl
//@include frag/common_serialize_writers.tpl
//@include frag/common_serialize_client.tpl
    }
    pub mod phys {
//@include frag/phys_shim.tpl
    }
    pub mod buffer {
//@include frag/common_buffer.tpl
    }
    pub mod frame {
//@include frag/common_frame_types.tpl
//@include frag/common_frame_reader.tpl
//@include frag/common_frame_writer.tpl
    }
}
pub mod tcp {
    pub mod frame {
//@include frag/tcp_frame.tpl
//@include frag/tcp_frame_writer.tpl
    }
//@include-if client frag/tcp_client_mod.tpl
}
pub mod serial {
    pub use crate::shims::net::open;
    pub use crate::shims::net::SerialSettings;
//@include-if client frag/serial_mods.tpl
    pub mod frame {
//@include frag/serial_frame.tpl
//@include frag/serial_frame_writer.tpl
    }
}
pub mod channel {
//@include frag/channel.tpl
}
//@include-if client frag/conn_shims.tpl
pub mod client {
    pub mod requests {
        pub mod write_multiple {
//@include frag/client_write_multiple.tpl
//@include-if client frag/client_write_multiple_request.tpl
        }
//@include-if client frag/client_requests_mods.tpl
    }
    pub use requests::write_multiple::WriteMultiple;
//@include-if client frag/client_reexports.tpl
//@include-if client frag/client_mods.tpl
}
pub mod server {
    pub mod response {
//@include frag/server_response.tpl
    }
    pub mod types {
//@include frag/server_types.tpl
    }
    pub mod handler {
//@include frag/server_handler.tpl
    }
    pub mod reply_spec {
//@include frag/server_reply_spec.tpl
    }
    pub mod task {
//@include frag/server_task.tpl
    }
    pub mod request {
//@include frag/server_request_parse.tpl
//@include frag/server_request_reply.tpl
    }
}
