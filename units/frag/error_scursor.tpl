use crate::shims::scursor;
use crate::shims::scursor::WriteError;

impl FromSpecImpl<WriteError> for RequestError {
    open spec fn obeys_from_spec() -> bool { true }
    open spec fn from_spec(err: WriteError) -> Self {
        match err {
            WriteError::WriteOverflow { remaining, written } => RequestError::Internal(InternalError::InsufficientWriteSpace(written, remaining)),
            WriteError::NumericOverflow => RequestError::Internal(InternalError::BadSeekOperation),
            WriteError::BadSeek { length, pos } => RequestError::Internal(InternalError::BadSeekOperation),
        }
    }
}
impl From<WriteError> for RequestError {
//@fn rodbus/src/error.rs | From<WriteError> for RequestError::from | tags=C03
}
impl FromSpecImpl<scursor::ReadError> for RequestError {
    open spec fn obeys_from_spec() -> bool { true }
    open spec fn from_spec(e: scursor::ReadError) -> Self { RequestError::BadResponse(AduParseError::InsufficientBytes) }
}
impl From<scursor::ReadError> for RequestError {
//@fn rodbus/src/error.rs | From<scursor::ReadError> for RequestError::from | tags=C04
}
impl FromSpecImpl<scursor::TrailingBytes> for RequestError {
    open spec fn obeys_from_spec() -> bool { true }
    open spec fn from_spec(x: scursor::TrailingBytes) -> Self { RequestError::BadResponse(AduParseError::TrailingBytes(x.count.v)) }
}
impl From<scursor::TrailingBytes> for RequestError {
//@fn rodbus/src/error.rs | From<scursor::TrailingBytes> for RequestError::from | tags=C04
}
