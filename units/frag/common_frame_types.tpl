use vstd::prelude::*;
use crate::common::buffer::ReadBuffer;
use crate::common::phys::PhysLayer;
use crate::common::function::FunctionCode;
use crate::error::*;
use crate::types::UnitId;
use crate::decode::*;
use crate::tcp::frame::{MbapHeader, MbapParser};

pub mod constants {
    use vstd::prelude::*;
//@fn rodbus/src/common/frame.rs | constants::max
//@|    ensures r == (if lhs > rhs { lhs } else { rhs }),
//@item rodbus/src/common/frame.rs | constants::MAX_ADU_LENGTH
//@fn rodbus/src/common/frame.rs | constants::serial_frame_size
//@|    ensures r == 256,
//@item rodbus/src/common/frame.rs | constants::MAX_FRAME_LENGTH | execconst=MAX_FRAME_LENGTH == 260
}

//@item rodbus/src/common/frame.rs | TxId | structeq
impl TxId {
    pub closed spec fn v(&self) -> u16 { self.value }
//@fn rodbus/src/common/frame.rs | TxId::new | tags=C11,C05
//@|    ensures r.v() == value,
//@fn rodbus/src/common/frame.rs | TxId::to_u16 | tags=C11,C03
//@|    ensures r == self.v(),
// C11: the id handed out is the old value; the stored value advances by one, wrapping after 65535
//@fn rodbus/src/common/frame.rs | TxId::next | tags=C11,C07
//@|    ensures r.v() == old(self).v(),
//@|        final(self).v() as int == (old(self).v() as int + 1) % 65536,
//@|        final(self).v() != old(self).v(),   // consecutive requests never share an id
}
impl Default for TxId {
//@fn rodbus/src/common/frame.rs | Default for TxId::default | tags=C11
//@|    ensures r.v() == 0,
}

//@item rodbus/src/common/frame.rs | FrameDestination | enumeq
impl FrameDestination {
    pub open spec fn spec_value(&self) -> u8 {
        match self { FrameDestination::UnitId(u) => u.value, FrameDestination::Broadcast => 0 }
    }
//@fn rodbus/src/common/frame.rs | FrameDestination::value | tags=C01,C06,C17
//@|    ensures r == self.spec_value(),
//@fn rodbus/src/common/frame.rs | FrameDestination::into_unit_id | tags=C01,C17
//@|    ensures r.value == self.spec_value(),
//@fn rodbus/src/common/frame.rs | FrameDestination::is_broadcast | tags=C17
//@|    ensures r == (*self is Broadcast),
}

//@item rodbus/src/common/frame.rs | FrameHeader
impl FrameHeader {
//@fn rodbus/src/common/frame.rs | FrameHeader::new_tcp_header | tags=C05,C01,C17,C03
//@|    ensures r.destination == FrameDestination::UnitId(unit_id), r.tx_id == Some(tx_id),
//@fn rodbus/src/common/frame.rs | FrameHeader::new_rtu_header | tags=C06,C17
//@|    ensures r.destination == destination, r.tx_id is None,
}

//@item rodbus/src/common/frame.rs | Frame
impl Frame {
    pub closed spec fn wf(&self) -> bool { self.length <= 253 }
    pub closed spec fn spec_payload(&self) -> Seq<u8> { self.pdu@.subrange(0, self.length as int) }

//@fn rodbus/src/common/frame.rs | Frame::new | tags=C05,C06
//@|    ensures r.header == header, r.wf(), r.spec_payload().len() == 0,

//@fn rodbus/src/common/frame.rs | Frame::set | tags=C05,C06,C07
//@|    ensures r == (src@.len() <= 253),
//@|        final(self).header == old(self).header,
//@|        r ==> final(self).wf() && final(self).spec_payload().len() == src@.len()
//@|            && (forall|i: int| 0 <= i < src@.len() ==> #[trigger] final(self).spec_payload()[i] == src@[i]),
//@|        !r ==> *final(self) == *old(self),

//@fn rodbus/src/common/frame.rs | Frame::payload | tags=C05,C06,C07
//@|    requires self.wf(),
//@|    ensures r@ == self.spec_payload(), r@.len() <= 253,
}
