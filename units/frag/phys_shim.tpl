use vstd::prelude::*;
use crate::decode::PhysDecodeLevel;
// ---- environment model: the ghost wire (DESIGN.md 4.3).  `pending` = bytes the peer has sent and this side has not
// yet read (universally quantified: the proofs hold for every content and every chunking the shim may choose);
// `sent` = the slices handed to the transport, in order.
pub struct PhysLayer { pub ghost pending: Seq<u8>, pub ghost sent: Seq<Seq<u8>>, pub ghost tls_by: Option<int>, pub ghost read_errs: nat }   // tls_by: the TLS client configuration the layer was established under (None: not a client-side TLS layer)
impl PhysLayer {
    #[verifier::external_body]
    pub async fn read(&mut self, buffer: &mut [u8], decode_level: PhysDecodeLevel) -> (r: Result<usize, std::io::Error>)
        requires old(buffer)@.len() > 0,   // a zero-length read is indistinguishable from EOF
        ensures
            final(buffer)@.len() == old(buffer)@.len(),
            final(self).sent == old(self).sent,
            r is Ok ==> r->Ok_0 <= old(buffer)@.len()
                && r->Ok_0 <= old(self).pending.len()
                && (forall|i: int| 0 <= i < r->Ok_0 ==> #[trigger] final(buffer)@[i] == old(self).pending[i])
                && final(self).pending == old(self).pending.subrange(r->Ok_0 as int, old(self).pending.len() as int),
            r is Err ==> final(self).pending == old(self).pending,
            // read_errs: how many reads of this layer have failed so far (ghost history of the connection)
            r is Ok ==> final(self).read_errs == old(self).read_errs,
            r is Err ==> final(self).read_errs == old(self).read_errs + 1,
    { unimplemented!() }

    #[verifier::external_body]
    pub async fn write(&mut self, data: &[u8], decode_level: PhysDecodeLevel) -> (r: Result<(), std::io::Error>)
        ensures
            final(self).pending == old(self).pending,
            final(self).sent == old(self).sent.push(data@),   // every attempt is logged, whatever the result
            final(self).read_errs == old(self).read_errs,
    { unimplemented!() }
}
//@trusted PhysLayer::{read,write}: ghost-wire environment model (read copies n<=min(room,pending) bytes from the front of pending, n=0 is EOF; write appends the slice to the sent log); tokio / OS not modelled
//@include-if display frag/display_phys.tpl
