use vstd::prelude::*;
// ---- listener / socket / address shims for the server accept loop (trusted, opaque) ----
pub use std::net::IpAddr;
pub struct SocketAddr { pub x: u8 }
impl SocketAddr {
    pub uninterp spec fn spec_ip(&self) -> IpAddr;
    #[verifier::external_body]
    pub fn ip(&self) -> (r: IpAddr) ensures r == self.spec_ip(), { unimplemented!() }
}
pub struct TcpStream { pub x: u8 }
impl TcpStream {
    #[verifier::external_body]
    pub fn set_nodelay(&self, v: bool) -> (r: Result<(), std::io::Error>) { unimplemented!() }
}
pub struct TcpListener { pub x: u8 }
impl TcpListener {
    #[verifier::external_body]
    pub async fn bind(addr: SocketAddr) -> (r: Result<TcpListener, std::io::Error>) { unimplemented!() }
    #[verifier::external_body]
    pub async fn accept(&self) -> (r: Result<(TcpStream, SocketAddr), std::io::Error>) { unimplemented!() }
}
//@trusted tokio TcpListener / TcpStream / SocketAddr: opaque environment
