//@item rodbus/src/common/frame.rs | FrameParser
impl FrameParser {
    pub open spec fn wf(&self, b: Seq<u8>) -> bool {
        match self { FrameParser::Tcp(x) => x.wf(), FrameParser::Rtu(x) => x.wf(b) }
    }
    pub open spec fn held(&self) -> Seq<u8> { match self { FrameParser::Tcp(x) => x.held(), FrameParser::Rtu(x) => x.held() } }
    pub open spec fn is_begin(&self) -> bool { match self { FrameParser::Tcp(x) => x.is_begin(), FrameParser::Rtu(x) => x.is_begin() } }
    // the framing rule of this transport, as a function of the byte stream only
    pub open spec fn spec_next(&self, s: Seq<u8>) -> crate::spec::StreamNext {
        match self { FrameParser::Tcp(x) => crate::spec::mbap_next(s), FrameParser::Rtu(x) => crate::serial::frame::rtu_next(x.kind(), s) }
    }
    pub open spec fn same_kind(&self, o: &FrameParser) -> bool {
        match (self, o) {
            (FrameParser::Tcp(_), FrameParser::Tcp(_)) => true,
            (FrameParser::Rtu(a), FrameParser::Rtu(b)) => a.kind() == b.kind(),
            _ => false,
        }
    }
    pub proof fn lemma_prefix_stable(&self, s: Seq<u8>, t: Seq<u8>)
        ensures
            self.spec_next(s) matches crate::spec::StreamNext::Bad(e) ==> self.spec_next(s + t) == crate::spec::StreamNext::Bad(e),
            self.spec_next(s) matches crate::spec::StreamNext::Frame { dest, tx, pdu, rest } ==>
                self.spec_next(s + t) == (crate::spec::StreamNext::Frame { dest, tx, pdu, rest: rest + t }),
    {
        match self {
            FrameParser::Tcp(x) => crate::spec::lemma_mbap_prefix_stable(s, t),
            FrameParser::Rtu(x) => crate::serial::frame::lemma_rtu_prefix_stable(x.kind(), s, t),
        }
    }

//@fn rodbus/src/common/frame.rs | FrameParser::parse | tags=C05,C06,C07,C20
//@|    requires old(self).wf(old(cursor)@), old(cursor).wf(),
//@|    ensures final(cursor).wf(), final(self).same_kind(old(self)),
//@|        r is Ok ==> final(self).wf(final(cursor)@),
//@|        match old(self).spec_next(old(self).held() + old(cursor)@) {
//@|            crate::spec::StreamNext::NeedMore => r == Ok::<Option<Frame>, RequestError>(None)
//@|                && final(self).held() + final(cursor)@ =~= old(self).held() + old(cursor)@
//@|                && final(cursor)@.len() < 260,
//@|            crate::spec::StreamNext::Bad(e) => r == Err::<Option<Frame>, RequestError>(RequestError::BadFrame(e)),
//@|            crate::spec::StreamNext::Frame { dest, tx, pdu, rest } => r is Ok && r->Ok_0 is Some
//@|                && r->Ok_0->Some_0.wf()
//@|                && r->Ok_0->Some_0.spec_payload() =~= pdu
//@|                && (match tx { Some(t) => r->Ok_0->Some_0.header.tx_id is Some && r->Ok_0->Some_0.header.tx_id->Some_0.v() == t, None => r->Ok_0->Some_0.header.tx_id is None })
//@|                && r->Ok_0->Some_0.header.destination == dest
//@|                && final(self).is_begin()
//@|                && final(cursor)@ =~= rest,
//@|        },
//@entry| if let FrameParser::Rtu(x) = self { x.lemma_spec_parse_is_stream(cursor@); }

//@fn rodbus/src/common/frame.rs | FrameParser::reset | tags=C05,C06
//@|    ensures final(self).is_begin(), final(self).same_kind(old(self)), forall|b: Seq<u8>| final(self).wf(b),
}

//@item rodbus/src/common/frame.rs | FramedReader
//@trusted R3 cancellation model: a dropped `next_frame` future leaves the reader in a state satisfying next_frame's proved loop invariant (wf, same parser kind, byte stream conserved, nothing sent)
impl FramedReader {
    // struct invariant; it holds at every await point of next_frame, so dropping the future (select!) is safe
    pub open spec fn wf(&self) -> bool { self.parser.wf(self.buffer@) && self.buffer.wf() }
    // the bytes received and not yet delivered as a frame
    pub open spec fn logical(&self) -> Seq<u8> { self.parser.held() + self.buffer@ }

    // R3: what a cancelled `next_frame` future (the losing arm of a select!) may have done.  This is next_frame's own loop
    // invariant, which is proved to hold at its only await point; dropping the future there leaves exactly such a state.
    #[verifier::external_body]
    pub fn cancelled_next_frame(&mut self, io: &mut PhysLayer)
        requires old(self).wf(),
        ensures final(self).wf(), final(self).parser.same_kind(&old(self).parser), final(io).sent == old(io).sent,
            final(self).logical() + final(io).pending =~= old(self).logical() + old(io).pending,
            final(io).read_errs == old(io).read_errs,     // a failed read ends next_frame: while it is still running none has failed
    { unimplemented!() }

//@fn rodbus/src/common/frame.rs | FramedReader::tcp | tags=C05
//@|    ensures r.wf(), r.logical().len() == 0, r.parser is Tcp,
//@fn rodbus/src/common/frame.rs | FramedReader::rtu_request | tags=C06
//@|    ensures r.wf(), r.logical().len() == 0, r.parser is Rtu,
//@fn rodbus/src/common/frame.rs | FramedReader::rtu_response | tags=C06
//@|    ensures r.wf(), r.logical().len() == 0, r.parser is Rtu,
//@fn rodbus/src/common/frame.rs | FramedReader::new | tags=C05,C06
//@|    requires parser.is_begin(), forall|b: Seq<u8>| parser.wf(b),
//@|    ensures r.wf(), r.logical().len() == 0, r.parser == parser,

// C05 / C06 segmentation independence: the result is a function of the byte stream (bytes already received ++ bytes the peer
// has sent), for EVERY sequence of chunk sizes the transport may deliver - the chunking is chosen by the PhysLayer shim
//@fn rodbus/src/common/frame.rs | FramedReader::next_frame | tags=C05,C06,C07,C20 | r10=0 | attr=#[verifier::exec_allows_no_decreases_clause]
//@|    requires old(self).wf(),
//@|    ensures final(self).wf(), final(self).parser.same_kind(&old(self).parser), final(io).sent == old(io).sent,
//@|        r is Ok ==> (old(self).parser.spec_next(old(self).logical() + old(io).pending) matches crate::spec::StreamNext::Frame { dest, tx, pdu, rest }
//@|            && r->Ok_0.wf() && r->Ok_0.spec_payload() =~= pdu
//@|            && (match tx { Some(t) => r->Ok_0.header.tx_id is Some && r->Ok_0.header.tx_id->Some_0.v() == t, None => r->Ok_0.header.tx_id is None })
//@|            && r->Ok_0.header.destination == dest
//@|            && final(self).logical() + final(io).pending =~= rest),      // bytes after the frame are never lost or re-read
//@|        r matches Err(RequestError::BadFrame(e)) ==> old(self).parser.spec_next(old(self).logical() + old(io).pending) == crate::spec::StreamNext::Bad(e),
//@|        r matches Err(RequestError::Io(k)) ==> final(self).logical() + final(io).pending =~= old(self).logical() + old(io).pending,
//@|        !(r matches Err(RequestError::Internal(_))),
//@|        r is Err ==> (r->Err_0 is BadFrame || r->Err_0 is Io),
//@|        r is Ok ==> final(io).read_errs == old(io).read_errs,        // a frame is delivered only while no read of the layer has failed
//@loop 0|            invariant self.wf(), self.parser.same_kind(&old(self).parser), io.sent == old(io).sent, io.read_errs == old(io).read_errs,
//@loop 0|                self.logical() + io.pending =~= old(self).logical() + old(io).pending,
//@loopstart 0| broadcast use crate::spec::lemmas::lemma_add_assoc; self.parser.lemma_prefix_stable(self.logical(), io.pending);
}
