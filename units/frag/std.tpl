// 16-bit quantities on the wire: big-endian (Modbus data) and little-endian (RTU CRC trailer)
pub open spec fn be16(s: Seq<u8>, i: int) -> int { s[i] as int * 256 + s[i + 1] as int }
pub open spec fn le16(s: Seq<u8>, i: int) -> int { s[i] as int + s[i + 1] as int * 256 }

// ---- std shims shared by all units (each assume_specification restates the std documentation) ----
#[verifier::external_type_specification]
pub struct ExIoErrorKind(std::io::ErrorKind);

pub assume_specification<'a, T: Copy>[ Option::<&'a T>::copied ](o: Option<&'a T>) -> (r: Option<T>)
    ensures r == (match o { Some(x) => Some(*x), None => None });
//@trusted std: Option::<&T>::copied() == map(|x| *x) (std documentation)

pub assume_specification[ usize::div_ceil ](a: usize, b: usize) -> (r: usize)
    requires b != 0
    ensures r as int == (a as int + b as int - 1) / (b as int);
//@trusted std: usize::div_ceil(a,b) == (a+b-1)/b for b != 0 (std documentation)
// ---- std::io::Error / ErrorKind: opaque values with an uninterpreted `kind` ----
#[verifier::external_type_specification]
#[verifier::external_body]
pub struct ExIoError(std::io::Error);

pub uninterp spec fn io_error_kind(e: std::io::Error) -> std::io::ErrorKind;

pub assume_specification[ std::io::Error::kind ](e: &std::io::Error) -> (r: std::io::ErrorKind)
    ensures r == io_error_kind(*e);

pub assume_specification[ <std::io::Error as From<std::io::ErrorKind>>::from ](k: std::io::ErrorKind) -> (r: std::io::Error)
    ensures io_error_kind(r) == k;
//@trusted std::io::Error: opaque; `Error::from(kind).kind() == kind` (std documentation)

pub uninterp spec fn nz_value(n: std::num::NonZeroUsize) -> usize;

pub assume_specification<T, const N: usize> [<[T; N] as AsMut<[T]>>::as_mut] (a: &mut [T; N]) -> (r: &mut [T])
    ensures r@ == old(a)@, final(a)@ == final(r)@;
//@trusted std: <[T;N] as AsMut<[T]>>::as_mut reborrows the whole array as a slice (std documentation)

pub assume_specification<Idx: Clone> [<core::ops::Range<Idx> as Clone>::clone] (a: &core::ops::Range<Idx>) -> (r: core::ops::Range<Idx>)
    ensures call_ensures(Idx::clone, (&a.start,), r.start), call_ensures(Idx::clone, (&a.end,), r.end);
//@trusted std: Range<Idx>::clone() clones both bounds (std documentation)

pub mod shims_nondet {
    use vstd::prelude::*;
    // R3: which select! arm completes first is not modelled - every choice is verified
    #[verifier::external_body]
    pub fn nondet() -> bool { unimplemented!() }
    // R3: tokio::select! panics when every arm has been disabled (refutable patterns) and there is no `else` arm
    #[verifier::external_body]
    pub fn select_all_disabled<T>() -> T requires false { unimplemented!() }
}

// (vstd already declares core::time::Duration as an external type)
pub uninterp spec fn nanos(d: std::time::Duration) -> int;
#[verifier::external_body]
pub broadcast proof fn axiom_nanos_nonneg(d: std::time::Duration) ensures #[trigger] nanos(d) >= 0 { }
//@trusted std::time::Duration: opaque value (only passed through, never computed with in the verified functions); its length in nanoseconds is a non-negative integer
pub assume_specification [core::time::Duration::is_zero] (d: &std::time::Duration) -> (r: bool)
    ensures r == (nanos(*d) == 0);
//@trusted std: Duration::is_zero() <=> the duration spans no time (std documentation)

pub assume_specification<T> [std::mem::drop] (_0: T);
pub assume_specification<T: Default> [core::mem::take] (dest: &mut T) -> (r: T) ensures r == *old(dest);
//@trusted std::mem::take: returns the old value (the value left behind, Default::default(), is unspecified)
//@trusted std::mem::drop: consumes its argument, no other effect visible to the contracts

// R28: the text written by `write!` is opaque; formatting into a Formatter can fail (fmt::Error) and has no other effect visible here
#[verifier::external_body]
pub fn fmt_write(f: &mut std::fmt::Formatter) -> (r: std::fmt::Result) { unimplemented!() }
//@trusted core::fmt::write (R28): opaque - returns Ok or fmt::Error
