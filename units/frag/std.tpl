// ---- std shims shared by all units (each assume_specification restates the std documentation) ----
#[verifier::external_type_specification]
#[verifier::external_body]
pub struct ExIoErrorKind(std::io::ErrorKind);

pub assume_specification[ usize::div_ceil ](a: usize, b: usize) -> (r: usize)
    requires b != 0
    ensures r as int == (a as int + b as int - 1) / (b as int);
//@trusted std: usize::div_ceil(a,b) == (a+b-1)/b for b != 0 (std documentation)
