// ---- frame formatting (common/frame.rs, writer half) ----
use crate::common::traits::{Serialize, Loggable};
use crate::shims::scursor::{WriteCursor, appended};
use crate::exception::ExceptionCode;
use std::ops::Range;

//@item rodbus/src/common/frame.rs | FrameType
//@item rodbus/src/common/frame.rs | FrameInfo
impl FrameInfo {
//@fn rodbus/src/common/frame.rs | FrameInfo::new | tags=C01,C03
//@|    ensures r.frame_type == frame_type, r.pdu_body == pdu_body,
}
//@item rodbus/src/common/frame.rs | FormatType
//@item rodbus/src/common/frame.rs | FrameWriter
//@item rodbus/src/common/frame.rs | FunctionField

impl FunctionField {
    // the function byte on the wire: the code itself, or code | 0x80 for an exception reply [C01]
    pub open spec fn spec_value(&self) -> u8 {
        match self {
            FunctionField::Valid(x) => crate::common::function::spec_fc_value(*x),
            FunctionField::Exception(x) => crate::common::function::spec_fc_value(*x) | 0x80,
            FunctionField::UnknownFunction(x) => *x | 0x80,
        }
    }
//@fn rodbus/src/common/frame.rs | FunctionField::unknown | tags=C01
//@|    ensures r == FunctionField::UnknownFunction(fc),
// (`x | 0x80` with `x: &u8` makes the installed Verus panic ("bitwise OR for this type not supported"): the body is decided by
//  Kani, harness k_function_field_get_value [complete: all 3 variants x all codes]; only the contract is used here)
//@fn rodbus/src/common/frame.rs | FunctionField::get_value | tags=C01,C03 | ext_body
//@|    ensures r == self.spec_value(),
}

// what a correctly formatted frame looks like in a buffer `b` occupying [0, end), for a body serialized by `msg`
pub open spec fn is_mbap_frame<S: Serialize + ?Sized>(b: Seq<u8>, end: int, tx: u16, unit: u8, fun: u8, msg: &S) -> bool {
    8 <= end <= b.len()
    && b[0] == (tx / 256) as u8 && b[1] == (tx % 256) as u8      // transaction id
    && b[2] == 0 && b[3] == 0                                     // protocol id 0
    && b[4] as int * 256 + b[5] as int == end - 6                 // length = unit id + pdu
    && b[6] == unit
    && b[7] == fun
    && msg.ser_ok(b.subrange(8, end))
}
pub open spec fn is_rtu_frame<S: Serialize + ?Sized>(b: Seq<u8>, end: int, dest: u8, fun: u8, msg: &S) -> bool {
    4 <= end <= b.len()
    && b[0] == dest && b[1] == fun
    && msg.ser_ok(b.subrange(2, end - 2))
    // CRC-16/MODBUS of address + PDU, low byte first [C06]
    && b[end - 2] as int + b[end - 1] as int * 256 == crate::shims::crc::crc16(b.subrange(0, end - 2)) as int
}

impl FormatType {
// R15: `&dyn Serialize` -> `&S, S: Serialize + ?Sized` (Verus does not connect the spec functions of a value with those of its `dyn` coercion;
// the same `serialize` method is called either way)
//@fn rodbus/src/common/frame.rs | FormatType::format | tags=C01,C03,C06 | sub=fn format(=>fn format<S: Serialize + ?Sized>( | sub=&dyn Serialize=>&S
//@|    requires old(cursor).wf(), old(cursor).pos == 0, old(cursor).cap() <= 260, body.ser_pre(),
//@|        *self is Tcp ==> header.tx_id is Some,
//@|    ensures final(cursor).wf(), final(cursor).cap() == old(cursor).cap(), final(final(cursor).dest)@ == final(old(cursor).dest)@,
//@|        r is Ok ==> (match *self {
//@|            FormatType::Tcp => is_mbap_frame(final(cursor).buf(), final(cursor).pos as int, header.tx_id->Some_0.v(), header.destination.spec_value(), function.spec_value(), body)
//@|                && r->Ok_0.pdu_body.start == 8 && r->Ok_0.pdu_body.end == final(cursor).pos,
//@|            FormatType::Rtu => is_rtu_frame(final(cursor).buf(), final(cursor).pos as int, header.destination.spec_value(), function.spec_value(), body)
//@|                && r->Ok_0.pdu_body.start == 2 && r->Ok_0.pdu_body.end == final(cursor).pos - 2,
//@|        }),
//@|        r matches Err(RequestError::Exception(e)) ==> body.ser_exc(e),
//@|        r is Err ==> (r->Err_0 is Exception || r->Err_0 is Internal || (r->Err_0 is BadRequest && body.ser_may_reject())),
}

// the same with the body described by a predicate instead of a Serialize object
pub open spec fn frame_ok_p(tcp: bool, b: Seq<u8>, end: int, header: FrameHeader, fun: u8, p: spec_fn(Seq<u8>) -> bool) -> bool {
    if tcp {
        header.tx_id is Some && 8 <= end <= b.len()
        && b[0] == (header.tx_id->Some_0.v() / 256) as u8 && b[1] == (header.tx_id->Some_0.v() % 256) as u8
        && b[2] == 0 && b[3] == 0 && b[4] as int * 256 + b[5] as int == end - 6
        && b[6] == header.destination.spec_value() && b[7] == fun && p(b.subrange(8, end))
    } else {
        4 <= end <= b.len() && b[0] == header.destination.spec_value() && b[1] == fun && p(b.subrange(2, end - 2))
        && b[end - 2] as int + b[end - 1] as int * 256 == crate::shims::crc::crc16(b.subrange(0, end - 2)) as int
    }
}
pub proof fn lemma_frame_ok_p<S: Serialize + ?Sized>(tcp: bool, b: Seq<u8>, end: int, header: FrameHeader, fun: u8, msg: &S, p: spec_fn(Seq<u8>) -> bool)
    requires frame_ok(tcp, b, end, header, fun, msg), forall|o: Seq<u8>| msg.ser_ok(o) ==> p(o),
    ensures frame_ok_p(tcp, b, end, header, fun, p)
{}
// a frame for this transport occupying b[0..end)
pub open spec fn frame_ok<S: Serialize + ?Sized>(tcp: bool, b: Seq<u8>, end: int, header: FrameHeader, fun: u8, msg: &S) -> bool {
    if tcp { header.tx_id is Some && is_mbap_frame(b, end, header.tx_id->Some_0.v(), header.destination.spec_value(), fun, msg) }
    else { is_rtu_frame(b, end, header.destination.spec_value(), fun, msg) }
}
pub broadcast proof fn lemma_subrange_subrange(s: Seq<u8>, a: int, b: int, c: int, d: int)
    requires 0 <= a <= b <= s.len(), 0 <= c <= d <= b - a,
    ensures #[trigger] s.subrange(a, b).subrange(c, d) == s.subrange(a + c, a + d)
{
    assert(s.subrange(a, b).subrange(c, d) =~= s.subrange(a + c, a + d));
}

impl FrameWriter {
    pub open spec fn is_tcp(&self) -> bool { self.format_type is Tcp }

//@fn rodbus/src/common/frame.rs | FrameWriter::new | tags=C01,C03
//@|    ensures r.format_type == format_type,
//@fn rodbus/src/common/frame.rs | FrameWriter::tcp | tags=C01,C03
//@|    ensures r.is_tcp(),
//@fn rodbus/src/common/frame.rs | FrameWriter::rtu | tags=C01,C03,C06
//@|    ensures !r.is_tcp(),

// the frame is rebuilt from offset 0 on every call: nothing of an earlier (failed) attempt survives [C01]
//@fn rodbus/src/common/frame.rs | FrameWriter::format_generic | tags=C01,C03,C06,C20 | r10=0 r10id=0
//@|    requires body.ser_pre(), old(self).is_tcp() ==> header.tx_id is Some,
//@|    ensures final(self).is_tcp() == old(self).is_tcp(),
//@|        r is Ok ==> r->Ok_0.start == 0 && r->Ok_0.end <= 260
//@|            && frame_ok(old(self).is_tcp(), final(self).buffer@, r->Ok_0.end as int, header, function.spec_value(), body),
//@|        r matches Err(RequestError::Exception(e)) ==> body.ser_exc(e),
//@|        r is Err ==> (r->Err_0 is Exception || r->Err_0 is Internal || (r->Err_0 is BadRequest && body.ser_may_reject())),

// [C03] exactly one frame whose bytes are the protocol encoding of the request, or an error
//@fn rodbus/src/common/frame.rs | FrameWriter::format_request | tags=C03,C06,C20 | r10=0 r10id=0
//@|    requires body.ser_pre(), old(self).is_tcp() ==> header.tx_id is Some,
//@|    ensures final(self).is_tcp() == old(self).is_tcp(),
//@|        r is Ok ==> r->Ok_0@.len() <= 260
//@|            && frame_ok(old(self).is_tcp(), r->Ok_0@, r->Ok_0@.len() as int, header, crate::common::function::spec_fc_value(function), body),
//@|        r matches Err(RequestError::Exception(e)) ==> body.ser_exc(e),
//@|        r is Err ==> (r->Err_0 is Exception || r->Err_0 is Internal || (r->Err_0 is BadRequest && body.ser_may_reject())),
//@entry| broadcast use lemma_subrange_subrange;

// [C01] an exception reply carries function | 0x80 and the one-byte code
//@fn rodbus/src/common/frame.rs | FrameWriter::format_ex | tags=C01,C08,C20 | r10=0 r10id=0
//@|    requires old(self).is_tcp() ==> header.tx_id is Some,
//@|    ensures final(self).is_tcp() == old(self).is_tcp(),
//@|        r is Ok ==> r->Ok_0@.len() <= 260 && frame_ok(old(self).is_tcp(), r->Ok_0@, r->Ok_0@.len() as int, header,
//@|            (match function { FunctionField::Valid(x) => crate::common::function::spec_fc_value(x) | 0x80, FunctionField::Exception(x) => crate::common::function::spec_fc_value(x) | 0x80, FunctionField::UnknownFunction(x) => x | 0x80 }), &ex),
//@|        r is Err ==> r->Err_0 is Internal,
//@entry| broadcast use lemma_subrange_subrange;

// [C01] the reply is the normal frame, or - if a point handler raised `e` while the body was produced - exactly the exception frame for `e`
//@fn rodbus/src/common/frame.rs | FrameWriter::format_reply | tags=C01,C20
//@|    requires body.ser_pre(), old(self).is_tcp() ==> header.tx_id is Some,
//@|    ensures final(self).is_tcp() == old(self).is_tcp(),
//@|        r is Ok ==> r->Ok_0@.len() <= 260 && (
//@|            frame_ok(old(self).is_tcp(), r->Ok_0@, r->Ok_0@.len() as int, header, crate::common::function::spec_fc_value(function), body)
//@|            || exists|e: ExceptionCode| #[trigger] body.ser_exc(e)
//@|                && frame_ok(old(self).is_tcp(), r->Ok_0@, r->Ok_0@.len() as int, header, crate::common::function::spec_fc_value(function) | 0x80, &e)),
//@|        r is Err ==> (r->Err_0 is Internal || (r->Err_0 is BadRequest && body.ser_may_reject())),
//@entry| broadcast use lemma_subrange_subrange;
}
