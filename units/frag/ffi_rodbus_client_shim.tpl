// ---- the rodbus::client API as the FFI crate sees it (assumed contracts on the dependency) ----
use vstd::prelude::*;
use crate::rodbus::{AddressRange, UnitId, Indexed, DecodeLevel, RequestError, InvalidRange, InvalidRequest, BitIterator, RegisterIterator};
use std::time::Duration;

//@item rodbus/src/client/channel.rs | RequestParam | derive=Clone,Copy
//@item rodbus/src/client/ffi_channel.rs | FfiChannelError | derive=Clone,Copy
//@item rodbus/src/client/requests/write_multiple.rs | WriteMultiple | derive=
impl<T> WriteMultiple<T> {
    pub open spec fn wf(&self) -> bool { self.range.wf() && self.range.count as int == self.values@.len() }
// [C03] empty or address-overflowing collections are rejected at construction
//@fn rodbus/src/client/requests/write_multiple.rs | WriteMultiple<T>::from | tags=C03,C18
//@|    ensures
//@|        r is Ok <==> (1 <= values@.len() <= 65535 && start as int + values@.len() <= 65536),
//@|        r is Ok ==> r->Ok_0.range.start == start && r->Ok_0.values@ == values@ && r->Ok_0.wf(),
}

// connection states and TLS configuration enums of the rodbus crate (real items)
//@item rodbus/src/client/listener.rs | ClientState | derive=Copy,Clone
//@item rodbus/src/client/listener.rs | PortState | derive=Copy,Clone
//@item rodbus/src/tcp/tls/mod.rs | MinTlsVersion | derive=Copy,Clone
//@item rodbus/src/tcp/tls/mod.rs | CertificateMode | derive=Copy,Clone
//@item rodbus/src/tcp/tls/mod.rs | TlsError | derive=

// what the FFI crate asked the channel to do, in order (every attempt is logged, whatever the result)
pub enum FfiCall {
    Enable, Disable, SetDecodeLevel(DecodeLevel),
    ReadCoils(RequestParam, AddressRange), ReadDiscreteInputs(RequestParam, AddressRange),
    ReadHoldingRegisters(RequestParam, AddressRange), ReadInputRegisters(RequestParam, AddressRange),
    WriteSingleCoil(RequestParam, Indexed<bool>), WriteSingleRegister(RequestParam, Indexed<u16>),
    WriteMultipleCoils(RequestParam, AddressRange, Seq<bool>), WriteMultipleRegisters(RequestParam, AddressRange, Seq<u16>),
}
pub struct FfiChannel { pub ghost calls: Seq<FfiCall> }
impl FfiChannel {
    #[verifier::external_body]
    pub fn enable(&mut self) -> (r: Result<(), FfiChannelError>)
        ensures final(self).calls == old(self).calls.push(FfiCall::Enable), !(r matches Err(FfiChannelError::BadRange(_))) { unimplemented!() }
    #[verifier::external_body]
    pub fn disable(&mut self) -> (r: Result<(), FfiChannelError>)
        ensures final(self).calls == old(self).calls.push(FfiCall::Disable), !(r matches Err(FfiChannelError::BadRange(_))) { unimplemented!() }
    #[verifier::external_body]
    pub fn set_decode_level(&mut self, level: DecodeLevel) -> (r: Result<(), FfiChannelError>)
        ensures final(self).calls == old(self).calls.push(FfiCall::SetDecodeLevel(level)) { unimplemented!() }
    #[verifier::external_body]
    pub fn read_coils<C: FnOnce(Result<BitIterator, RequestError>)>(&mut self, param: RequestParam, range: AddressRange, callback: C) -> (r: Result<(), FfiChannelError>)
        ensures final(self).calls == old(self).calls.push(FfiCall::ReadCoils(param, range)) { unimplemented!() }
    #[verifier::external_body]
    pub fn read_discrete_inputs<C: FnOnce(Result<BitIterator, RequestError>)>(&mut self, param: RequestParam, range: AddressRange, callback: C) -> (r: Result<(), FfiChannelError>)
        ensures final(self).calls == old(self).calls.push(FfiCall::ReadDiscreteInputs(param, range)) { unimplemented!() }
    #[verifier::external_body]
    pub fn read_holding_registers<C: FnOnce(Result<RegisterIterator, RequestError>)>(&mut self, param: RequestParam, range: AddressRange, callback: C) -> (r: Result<(), FfiChannelError>)
        ensures final(self).calls == old(self).calls.push(FfiCall::ReadHoldingRegisters(param, range)) { unimplemented!() }
    #[verifier::external_body]
    pub fn read_input_registers<C: FnOnce(Result<RegisterIterator, RequestError>)>(&mut self, param: RequestParam, range: AddressRange, callback: C) -> (r: Result<(), FfiChannelError>)
        ensures final(self).calls == old(self).calls.push(FfiCall::ReadInputRegisters(param, range)) { unimplemented!() }
    #[verifier::external_body]
    pub fn write_single_coil<C: FnOnce(Result<Indexed<bool>, RequestError>)>(&mut self, param: RequestParam, value: Indexed<bool>, callback: C) -> (r: Result<(), FfiChannelError>)
        ensures final(self).calls == old(self).calls.push(FfiCall::WriteSingleCoil(param, value)) { unimplemented!() }
    #[verifier::external_body]
    pub fn write_single_register<C: FnOnce(Result<Indexed<u16>, RequestError>)>(&mut self, param: RequestParam, value: Indexed<u16>, callback: C) -> (r: Result<(), FfiChannelError>)
        ensures final(self).calls == old(self).calls.push(FfiCall::WriteSingleRegister(param, value)) { unimplemented!() }
    #[verifier::external_body]
    pub fn write_multiple_coils<C: FnOnce(Result<AddressRange, RequestError>)>(&mut self, param: RequestParam, value: WriteMultiple<bool>, callback: C) -> (r: Result<(), FfiChannelError>)
        ensures final(self).calls == old(self).calls.push(FfiCall::WriteMultipleCoils(param, value.range, value.values@)) { unimplemented!() }
    #[verifier::external_body]
    pub fn write_multiple_registers<C: FnOnce(Result<AddressRange, RequestError>)>(&mut self, param: RequestParam, value: WriteMultiple<u16>, callback: C) -> (r: Result<(), FfiChannelError>)
        ensures final(self).calls == old(self).calls.push(FfiCall::WriteMultipleRegisters(param, value.range, value.values@)) { unimplemented!() }
}
//@trusted rodbus::client::FfiChannel (FFI unit): assumed contract - every method is one logged call with exactly the arguments it was given (the callback is opaque; that it fires exactly once is not decided)

// the listener interface and the retry strategy factory of the rodbus crate, as the FFI crate uses them
pub struct MaybeAsync<T> { pub v: T }
impl<T> MaybeAsync<T> {
    #[verifier::external_body]
    pub fn ready(result: T) -> (r: Self) ensures r.v == result { unimplemented!() }
}
pub trait Listener<T> {
    fn update(&mut self, value: T) -> MaybeAsync<()>;
}
pub trait RetryStrategy {
    spec fn cfg_min(&self) -> Duration;
    spec fn cfg_max(&self) -> Duration;
}
#[verifier::external_body]
pub fn doubling_retry_strategy(min: Duration, max: Duration) -> (r: Box<dyn RetryStrategy>)
    ensures r.cfg_min() == min, r.cfg_max() == max { unimplemented!() }
//@trusted rodbus::doubling_retry_strategy (FFI unit): assumed contract - the strategy is configured with the given minimum and maximum (the strategy itself is decided for C14 on the real code)
