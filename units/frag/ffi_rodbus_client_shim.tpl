// ---- the rodbus::client API as the FFI crate sees it (assumed contracts on the dependency) ----
use vstd::prelude::*;
use crate::rodbus::{AddressRange, UnitId, Indexed, DecodeLevel, RequestError, InvalidRange, InvalidRequest, BitIterator, RegisterIterator};
use std::time::Duration;

//@item rodbus/src/client/channel.rs | RequestParam | derive=Clone,Copy
//@item rodbus/src/client/ffi_channel.rs | FfiChannelError | derive=Clone,Copy
//@item rodbus/src/client/requests/write_multiple.rs | WriteMultiple | derive=
impl<T> WriteMultiple<T> {
    pub open spec fn wf(&self) -> bool { self.range.wf() && self.range.count as int == self.values@.len() }
// [C03] empty or address-overflowing collections are rejected at construction
//@fn rodbus/src/client/requests/write_multiple.rs | WriteMultiple<T>::from | tags=C03,C18
//@|    ensures
//@|        r is Ok <==> (1 <= values@.len() <= 65535 && start as int + values@.len() <= 65536),
//@|        r is Ok ==> r->Ok_0.range.start == start && r->Ok_0.values@ == values@ && r->Ok_0.wf(),
}

// connection states and TLS configuration enums of the rodbus crate (real items)
//@item rodbus/src/client/listener.rs | ClientState | derive=Copy,Clone
//@item rodbus/src/client/listener.rs | PortState | derive=Copy,Clone
//@item rodbus/src/tcp/tls/mod.rs | MinTlsVersion | derive=Copy,Clone
//@item rodbus/src/tcp/tls/mod.rs | CertificateMode | derive=Copy,Clone
//@item rodbus/src/tcp/tls/mod.rs | TlsError | derive=

// what the FFI crate asked the channel to do, in order (every attempt is logged, whatever the result)
pub enum FfiCall {
    Enable, Disable, SetDecodeLevel(DecodeLevel),
    ReadCoils(RequestParam, AddressRange), ReadDiscreteInputs(RequestParam, AddressRange),
    ReadHoldingRegisters(RequestParam, AddressRange), ReadInputRegisters(RequestParam, AddressRange),
    WriteSingleCoil(RequestParam, Indexed<bool>), WriteSingleRegister(RequestParam, Indexed<u16>),
    WriteMultipleCoils(RequestParam, AddressRange, Seq<bool>), WriteMultipleRegisters(RequestParam, AddressRange, Seq<u16>),
}
pub struct FfiChannel { pub ghost calls: Seq<FfiCall>, pub ghost cfg: ChannelCfg }
impl FfiChannel {
    #[verifier::external_body]
    pub fn enable(&mut self) -> (r: Result<(), FfiChannelError>)
        ensures final(self).calls == old(self).calls.push(FfiCall::Enable), !(r matches Err(FfiChannelError::BadRange(_))) { unimplemented!() }
    #[verifier::external_body]
    pub fn disable(&mut self) -> (r: Result<(), FfiChannelError>)
        ensures final(self).calls == old(self).calls.push(FfiCall::Disable), !(r matches Err(FfiChannelError::BadRange(_))) { unimplemented!() }
    #[verifier::external_body]
    pub fn set_decode_level(&mut self, level: DecodeLevel) -> (r: Result<(), FfiChannelError>)
        ensures final(self).calls == old(self).calls.push(FfiCall::SetDecodeLevel(level)) { unimplemented!() }
    #[verifier::external_body]
    pub fn read_coils<C: FnOnce(Result<BitIterator, RequestError>)>(&mut self, param: RequestParam, range: AddressRange, callback: C) -> (r: Result<(), FfiChannelError>)
        ensures final(self).calls == old(self).calls.push(FfiCall::ReadCoils(param, range)) { unimplemented!() }
    #[verifier::external_body]
    pub fn read_discrete_inputs<C: FnOnce(Result<BitIterator, RequestError>)>(&mut self, param: RequestParam, range: AddressRange, callback: C) -> (r: Result<(), FfiChannelError>)
        ensures final(self).calls == old(self).calls.push(FfiCall::ReadDiscreteInputs(param, range)) { unimplemented!() }
    #[verifier::external_body]
    pub fn read_holding_registers<C: FnOnce(Result<RegisterIterator, RequestError>)>(&mut self, param: RequestParam, range: AddressRange, callback: C) -> (r: Result<(), FfiChannelError>)
        ensures final(self).calls == old(self).calls.push(FfiCall::ReadHoldingRegisters(param, range)) { unimplemented!() }
    #[verifier::external_body]
    pub fn read_input_registers<C: FnOnce(Result<RegisterIterator, RequestError>)>(&mut self, param: RequestParam, range: AddressRange, callback: C) -> (r: Result<(), FfiChannelError>)
        ensures final(self).calls == old(self).calls.push(FfiCall::ReadInputRegisters(param, range)) { unimplemented!() }
    #[verifier::external_body]
    pub fn write_single_coil<C: FnOnce(Result<Indexed<bool>, RequestError>)>(&mut self, param: RequestParam, value: Indexed<bool>, callback: C) -> (r: Result<(), FfiChannelError>)
        ensures final(self).calls == old(self).calls.push(FfiCall::WriteSingleCoil(param, value)) { unimplemented!() }
    #[verifier::external_body]
    pub fn write_single_register<C: FnOnce(Result<Indexed<u16>, RequestError>)>(&mut self, param: RequestParam, value: Indexed<u16>, callback: C) -> (r: Result<(), FfiChannelError>)
        ensures final(self).calls == old(self).calls.push(FfiCall::WriteSingleRegister(param, value)) { unimplemented!() }
    #[verifier::external_body]
    pub fn write_multiple_coils<C: FnOnce(Result<AddressRange, RequestError>)>(&mut self, param: RequestParam, value: WriteMultiple<bool>, callback: C) -> (r: Result<(), FfiChannelError>)
        ensures final(self).calls == old(self).calls.push(FfiCall::WriteMultipleCoils(param, value.range, value.values@)) { unimplemented!() }
    #[verifier::external_body]
    pub fn write_multiple_registers<C: FnOnce(Result<AddressRange, RequestError>)>(&mut self, param: RequestParam, value: WriteMultiple<u16>, callback: C) -> (r: Result<(), FfiChannelError>)
        ensures final(self).calls == old(self).calls.push(FfiCall::WriteMultipleRegisters(param, value.range, value.values@)) { unimplemented!() }
}
//@trusted rodbus::client::FfiChannel (FFI unit): assumed contract - every method is one logged call with exactly the arguments it was given (the callback is opaque; that it fires exactly once is not decided)

// the listener interface and the retry strategy factory of the rodbus crate, as the FFI crate uses them
pub struct MaybeAsync<T> { pub v: T }
impl<T> MaybeAsync<T> {
    #[verifier::external_body]
    pub fn ready(result: T) -> (r: Self) ensures r.v == result { unimplemented!() }
}
pub trait Listener<T> {
    fn update(&mut self, value: T) -> MaybeAsync<()>;
}
pub trait RetryStrategy {
    spec fn cfg_min(&self) -> Duration;
    spec fn cfg_max(&self) -> Duration;
}
#[verifier::external_body]
pub fn doubling_retry_strategy(min: Duration, max: Duration) -> (r: Box<dyn RetryStrategy>)
    ensures r.cfg_min() == min, r.cfg_max() == max { unimplemented!() }
//@trusted rodbus::doubling_retry_strategy (FFI unit): assumed contract - the strategy is configured with the given minimum and maximum (the strategy itself is decided for C14 on the real code)

// ---- channel constructors of the rodbus crate as the FFI crate sees them (assumed contracts: the channel is configured with exactly
// the arguments; the rodbus side - options, task construction - is under contract in the client unit) ----
pub struct HostAddr { pub x: u8 }
pub struct TlsClientConfig { pub x: u8 }
pub ghost struct ChannelCfg {
    pub host: Option<HostAddr>, pub path: Option<Seq<char>>, pub serial: Option<crate::rodbus::SerialSettings>, pub tls: Option<TlsClientConfig>,
    pub max_queued: usize, pub retry_min: Duration, pub retry_max: Duration, pub decode: DecodeLevel, pub has_listener: bool,
}
pub struct Channel { pub ghost cfg: ChannelCfg }
impl FfiChannel {
    #[verifier::external_body]
    pub fn new(channel: Channel) -> (r: Self) ensures r.cfg == channel.cfg, r.calls.len() == 0 { unimplemented!() }
}
#[verifier::external_body]
pub fn spawn_tcp_client_task(host: HostAddr, max_queued_requests: usize, retry: Box<dyn RetryStrategy>, decode: DecodeLevel,
                             listener: Option<Box<dyn Listener<ClientState>>>) -> (r: Channel)
    ensures r.cfg == (ChannelCfg { host: Some(host), path: None, serial: None, tls: None, max_queued: max_queued_requests,
        retry_min: retry.cfg_min(), retry_max: retry.cfg_max(), decode, has_listener: listener is Some }),
{ unimplemented!() }
#[verifier::external_body]
pub fn spawn_tls_client_task(host: HostAddr, max_queued_requests: usize, retry: Box<dyn RetryStrategy>, tls_config: TlsClientConfig, decode: DecodeLevel,
                             listener: Option<Box<dyn Listener<ClientState>>>) -> (r: Channel)
    ensures r.cfg == (ChannelCfg { host: Some(host), path: None, serial: None, tls: Some(tls_config), max_queued: max_queued_requests,
        retry_min: retry.cfg_min(), retry_max: retry.cfg_max(), decode, has_listener: listener is Some }),
{ unimplemented!() }
#[verifier::external_body]
pub fn spawn_rtu_client_task(path: &String, serial_settings: crate::rodbus::SerialSettings, max_queued_requests: usize, retry: Box<dyn RetryStrategy>,
                             decode: DecodeLevel, listener: Option<Box<dyn Listener<PortState>>>) -> (r: Channel)
    ensures r.cfg == (ChannelCfg { host: None, path: Some(path@), serial: Some(serial_settings), tls: None, max_queued: max_queued_requests,
        retry_min: retry.cfg_min(), retry_max: retry.cfg_max(), decode, has_listener: listener is Some }),
{ unimplemented!() }
//@trusted rodbus::client::spawn_{tcp,tls,rtu}_client_task, FfiChannel::new (FFI unit): assumed contracts - the channel is configured with exactly the arguments given
