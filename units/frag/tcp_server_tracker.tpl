use vstd::prelude::*;
use crate::shims::btree::BTreeMap;
use crate::shims::tokio;
use crate::server::task::ServerCommand;

//@item rodbus/src/tcp/server.rs | SessionTracker

// ---- C15: the session table as an abstract map  session id -> command sender ----
impl SessionTracker {
    pub open spec fn view(&self) -> Map<u128, tokio::sync::mpsc::Sender<ServerCommand>> { self.sessions@ }
    // never more sessions than configured; ids are handed out in increasing order, so every live id is below the next one
    pub open spec fn wf(&self) -> bool {
        self.max_sessions >= 1
        && self.sessions@.dom().len() <= self.max_sessions
        && (forall|k: u128| #[trigger] self.sessions@.contains_key(k) ==> k < self.id)
    }
    // the oldest session = the least id (ids only grow)
    pub open spec fn oldest(&self) -> u128 { choose|k: u128| self.sessions.spec_least(k) }
    pub open spec fn is_least(&self, k: u128) -> bool {
        self.sessions.spec_least(k)
    }

//@fn rodbus/src/tcp/server.rs | SessionTracker::new | tags=C15
//@|    ensures r.wf(), r@ == Map::<u128, tokio::sync::mpsc::Sender<ServerCommand>>::empty(),
//@|        r.max_sessions == (if max_sessions == 0 { 1 } else { max_sessions }),

//@fn rodbus/src/tcp/server.rs | SessionTracker::get_next_id | tags=C15
//@|    requires old(self).id < u128::MAX,
//@|    ensures r == old(self).id, final(self).id == old(self).id + 1,
//@|        final(self).sessions == old(self).sessions, final(self).max_sessions == old(self).max_sessions,

// a new connection arriving at the limit is accepted and the OLDEST (least id) session is dropped; all others are untouched
//@fn rodbus/src/tcp/server.rs | SessionTracker::add | tags=C15
//@|    requires old(self).wf(), old(self).id < u128::MAX,
//@|    ensures final(self).wf(),
//@|        r == old(self).id, final(self).id == old(self).id + 1, final(self).max_sessions == old(self).max_sessions,
//@|        old(self)@.dom().len() < old(self).max_sessions ==> final(self)@ == old(self)@.insert(r, sender),
//@|        old(self)@.dom().len() >= old(self).max_sessions ==> old(self).is_least(old(self).oldest())
//@|            && final(self)@ == old(self)@.remove(old(self).oldest()).insert(r, sender),

//@fn rodbus/src/tcp/server.rs | SessionTracker::remove | tags=C15
//@|    requires old(self).wf(),
//@|    ensures final(self).wf(), final(self)@ == old(self)@.remove(id),
//@|        final(self).id == old(self).id, final(self).max_sessions == old(self).max_sessions,
}
