use vstd::prelude::*;
use crate::client::listener::*;
use crate::client::message::Command;
use crate::client::task::{ClientLoop, SessionError, StateChange};
use crate::common::frame::{FrameWriter, FramedReader};
use crate::common::phys::PhysLayer;
use crate::error::Shutdown;
use crate::retry::{RetryStrategy, RetryCall};
use crate::shims::net::SerialSettings;
use crate::decode::DecodeLevel;

//@item rodbus/src/serial/client.rs | SerialChannelTask

impl SerialChannelTask {
    pub open spec fn wf(&self) -> bool { self.client_loop.wf() && !self.client_loop.writer.is_tcp() }
    pub open spec fn states(&self) -> Seq<PortState> { self.listener.log() }

// a serial channel task speaks RTU on both halves (response parser), has no consecutive-timeout limit and starts disabled
//@fn rodbus/src/serial/client.rs | SerialChannelTask::new | tags=C06,C12,C13,C20
//@|    ensures r.wf(), r.client_loop.reader.parser is Rtu, r.client_loop.reader.logical().len() == 0,
//@|        r.client_loop.decode == decode, !r.client_loop.enabled, r.client_loop.rx == rx,
//@|        r.client_loop.timeout_counter.limit() is None,
//@|        r.retry == retry, r.listener == listener, r.serial_settings == serial_settings, r.path@ == path@,

// [C13] serial channel: Disabled first, Shutdown exactly once and last
//@fn rodbus/src/serial/client.rs | SerialChannelTask::run | tags=C13
//@|    requires old(self).wf(), old(self).states().len() == 0,
//@|    ensures port_legal(final(self).states()), final(self).states().len() >= 2, final(self).states()[0] is Disabled, final(self).states().last() is Shutdown,
//@|        forall|i: int| 0 <= i < final(self).states().len() - 1 ==> !(#[trigger] final(self).states()[i] is Shutdown),
//@exit 0| lemma_port_legal_push(old(self).states(), PortState::Disabled);

//@fn rodbus/src/serial/client.rs | SerialChannelTask::run_inner | tags=C13 | attr=#[verifier::exec_allows_no_decreases_clause]
//@|    requires old(self).wf(), port_legal(old(self).states()), old(self).states().len() > 0, old(self).states().last() is Disabled,
//@|        forall|i: int| 0 <= i < old(self).states().len() ==> !(#[trigger] old(self).states()[i] is Shutdown),
//@|    ensures final(self).wf(), port_legal(final(self).states()), final(self).states().len() > 0,
//@|        forall|i: int| 0 <= i < final(self).states().len() ==> !(#[trigger] final(self).states()[i] is Shutdown),
//@loop 0|            invariant self.wf(), port_legal(self.states()), self.states().len() > 0,
//@loop 0|                self.states().last() is Disabled || self.states().last() is Wait,
//@loop 0|                forall|i: int| 0 <= i < self.states().len() ==> !(#[trigger] self.states()[i] is Shutdown),

// [C13] Open only after a successful open; a wait state after every failed open or lost port; [C14] reset after a successful open,
// the announced delay is the strategy's value
//@fn rodbus/src/serial/client.rs | SerialChannelTask::try_open_and_run | tags=C13,C14
//@|    requires old(self).wf(), old(self).client_loop.enabled, port_legal(old(self).states()), old(self).states().len() > 0,
//@|        old(self).states().last() is Disabled || old(self).states().last() is Wait,
//@|        forall|i: int| 0 <= i < old(self).states().len() ==> !(#[trigger] old(self).states()[i] is Shutdown),
//@|    ensures final(self).wf(), port_legal(final(self).states()), final(self).states().len() > 0,
//@|        forall|i: int| 0 <= i < final(self).states().len() ==> !(#[trigger] final(self).states()[i] is Shutdown),
//@|        final(self).states().last() is Open || final(self).states().last() is Wait,
//@|        (r is Ok && final(self).client_loop.enabled) ==> final(self).states().last() is Wait,
//@|        r matches Err(StateChange::Disable) ==> !final(self).client_loop.enabled,
//@|        final(self).states().last() matches PortState::Wait(d) ==> (final(self).retry.calls().last() == RetryCall::AfterFailedConnect(d) || final(self).retry.calls().last() == RetryCall::AfterDisconnect(d)),
//@entry| lemma_port_legal_push(self.states(), PortState::Open); assert(forall|d: std::time::Duration| port_step(self.states().last(), PortState::Wait(d)));
//@exit 0| lemma_port_legal_push(old(self).states(), self.states().last());
//@exit 3| lemma_port_legal_push(old(self).states().push(PortState::Open), self.states().last());
}
