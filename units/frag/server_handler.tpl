use vstd::prelude::*;
use crate::exception::ExceptionCode;
use crate::server::types::{WriteCoils, WriteRegisters};
use crate::types::*;

// ---- ghost observation of the application (C02): every write invocation, with what it was given and what it answered ----
pub enum HandlerCall {
    WriteSingleCoil(Indexed<bool>),
    WriteSingleRegister(Indexed<u16>),
    WriteMultipleCoils(AddressRange, Seq<bool>),
    WriteMultipleRegisters(AddressRange, Seq<u16>),
}
pub struct HandlerEvent { pub call: HandlerCall, pub result: Result<(), ExceptionCode> }

// The declarations are /repo's.  Reads take `&self`: they cannot change application state, and the contract only says that the
// answer is one the handler `may` give for exactly that address (relational, no determinism assumed).  Writes append to the ghost log.
pub trait RequestHandler {
    spec fn log(&self) -> Seq<HandlerEvent>;
    spec fn may_read_coil(&self, a: u16, r: Result<bool, ExceptionCode>) -> bool;
    spec fn may_read_discrete_input(&self, a: u16, r: Result<bool, ExceptionCode>) -> bool;
    spec fn may_read_holding_register(&self, a: u16, r: Result<u16, ExceptionCode>) -> bool;
    spec fn may_read_input_register(&self, a: u16, r: Result<u16, ExceptionCode>) -> bool;

//@fn rodbus/src/server/handler.rs | trait RequestHandler::read_coil | tags=C01,C02 | nobody
//@|    ensures self.may_read_coil(_address, r),
//@fn rodbus/src/server/handler.rs | trait RequestHandler::read_discrete_input | tags=C01,C02 | nobody
//@|    ensures self.may_read_discrete_input(_address, r),
//@fn rodbus/src/server/handler.rs | trait RequestHandler::read_holding_register | tags=C01,C02 | nobody
//@|    ensures self.may_read_holding_register(_address, r),
//@fn rodbus/src/server/handler.rs | trait RequestHandler::read_input_register | tags=C01,C02 | nobody
//@|    ensures self.may_read_input_register(_address, r),
//@fn rodbus/src/server/handler.rs | trait RequestHandler::write_single_coil | tags=C01,C02 | nobody
//@|    ensures final(self).log() == old(self).log().push(HandlerEvent { call: HandlerCall::WriteSingleCoil(_value), result: r }),
//@fn rodbus/src/server/handler.rs | trait RequestHandler::write_single_register | tags=C01,C02 | nobody
//@|    ensures final(self).log() == old(self).log().push(HandlerEvent { call: HandlerCall::WriteSingleRegister(_value), result: r }),
// the handler can rely on a fresh iterator over exactly the announced range [C02]
//@fn rodbus/src/server/handler.rs | trait RequestHandler::write_multiple_coils | tags=C01,C02 | nobody
//@|    requires _values.iterator.wf(), _values.iterator.pos == 0, _values.iterator.range == _values.range,
//@|    ensures final(self).log() == old(self).log().push(HandlerEvent { call: HandlerCall::WriteMultipleCoils(_values.range, _values.iterator.spec_values()), result: r }),
//@fn rodbus/src/server/handler.rs | trait RequestHandler::write_multiple_registers | tags=C01,C02 | nobody
//@|    requires _values.iterator.wf(), _values.iterator.pos == 0, _values.iterator.range == _values.range,
//@|    ensures final(self).log() == old(self).log().push(HandlerEvent { call: HandlerCall::WriteMultipleRegisters(_values.range, _values.iterator.spec_values()), result: r }),
}

//@item rodbus/src/server/handler.rs | Authorization

// `&self` methods: no state, no log.  Relational contract: the answer is one the handler `may` give for exactly this call and role.
pub trait AuthorizationHandler {
    spec fn may_answer(&self, call: crate::server::task::AuthCall, role: Seq<char>, d: Authorization) -> bool;
//@fn rodbus/src/server/handler.rs | trait AuthorizationHandler::read_coils | tags=C08 | nobody
//@|    ensures self.may_answer(crate::server::task::AuthCall::ReadCoils(_unit_id, _range), _role@, r),
//@fn rodbus/src/server/handler.rs | trait AuthorizationHandler::read_discrete_inputs | tags=C08 | nobody
//@|    ensures self.may_answer(crate::server::task::AuthCall::ReadDiscreteInputs(_unit_id, _range), _role@, r),
//@fn rodbus/src/server/handler.rs | trait AuthorizationHandler::read_holding_registers | tags=C08 | nobody
//@|    ensures self.may_answer(crate::server::task::AuthCall::ReadHoldingRegisters(_unit_id, _range), _role@, r),
//@fn rodbus/src/server/handler.rs | trait AuthorizationHandler::read_input_registers | tags=C08 | nobody
//@|    ensures self.may_answer(crate::server::task::AuthCall::ReadInputRegisters(_unit_id, _range), _role@, r),
//@fn rodbus/src/server/handler.rs | trait AuthorizationHandler::write_single_coil | tags=C08 | nobody
//@|    ensures self.may_answer(crate::server::task::AuthCall::WriteSingleCoil(_unit_id, _idx), _role@, r),
//@fn rodbus/src/server/handler.rs | trait AuthorizationHandler::write_single_register | tags=C08 | nobody
//@|    ensures self.may_answer(crate::server::task::AuthCall::WriteSingleRegister(_unit_id, _idx), _role@, r),
//@fn rodbus/src/server/handler.rs | trait AuthorizationHandler::write_multiple_coils | tags=C08 | nobody
//@|    ensures self.may_answer(crate::server::task::AuthCall::WriteMultipleCoils(_unit_id, _range), _role@, r),
//@fn rodbus/src/server/handler.rs | trait AuthorizationHandler::write_multiple_registers | tags=C08 | nobody
//@|    ensures self.may_answer(crate::server::task::AuthCall::WriteMultipleRegisters(_unit_id, _range), _role@, r),
}

// [C08] default-deny: an authorization handler that overrides nothing denies everything.  The default bodies of the trait are
// verified as the methods of a marker type that overrides none of them (same text, R5)
pub struct NoOverride__;
impl AuthorizationHandler for NoOverride__ {
    open spec fn may_answer(&self, call: crate::server::task::AuthCall, role: Seq<char>, d: Authorization) -> bool { d == Authorization::Deny }
//@fn rodbus/src/server/handler.rs | trait AuthorizationHandler::read_coils | tags=C08 | keepvis
//@fn rodbus/src/server/handler.rs | trait AuthorizationHandler::read_discrete_inputs | tags=C08 | keepvis
//@fn rodbus/src/server/handler.rs | trait AuthorizationHandler::read_holding_registers | tags=C08 | keepvis
//@fn rodbus/src/server/handler.rs | trait AuthorizationHandler::read_input_registers | tags=C08 | keepvis
//@fn rodbus/src/server/handler.rs | trait AuthorizationHandler::write_single_coil | tags=C08 | keepvis
//@fn rodbus/src/server/handler.rs | trait AuthorizationHandler::write_single_register | tags=C08 | keepvis
//@fn rodbus/src/server/handler.rs | trait AuthorizationHandler::write_multiple_coils | tags=C08 | keepvis
//@fn rodbus/src/server/handler.rs | trait AuthorizationHandler::write_multiple_registers | tags=C08 | keepvis
}

// [C08] the built-in read-only policy allows every read and denies every write, whatever the unit, range or role
//@item rodbus/src/server/handler.rs | ReadOnlyAuthorizationHandler | derive=Clone,Copy
pub open spec fn read_only_answer(call: crate::server::task::AuthCall) -> Authorization {
    match call {
        crate::server::task::AuthCall::ReadCoils(_, _) | crate::server::task::AuthCall::ReadDiscreteInputs(_, _)
        | crate::server::task::AuthCall::ReadHoldingRegisters(_, _) | crate::server::task::AuthCall::ReadInputRegisters(_, _) => Authorization::Allow,
        _ => Authorization::Deny,
    }
}
impl AuthorizationHandler for ReadOnlyAuthorizationHandler {
    open spec fn may_answer(&self, call: crate::server::task::AuthCall, role: Seq<char>, d: Authorization) -> bool { d == read_only_answer(call) }
//@fn rodbus/src/server/handler.rs | AuthorizationHandler for ReadOnlyAuthorizationHandler::read_coils | tags=C08
//@fn rodbus/src/server/handler.rs | AuthorizationHandler for ReadOnlyAuthorizationHandler::read_discrete_inputs | tags=C08
//@fn rodbus/src/server/handler.rs | AuthorizationHandler for ReadOnlyAuthorizationHandler::read_holding_registers | tags=C08
//@fn rodbus/src/server/handler.rs | AuthorizationHandler for ReadOnlyAuthorizationHandler::read_input_registers | tags=C08
//@fn rodbus/src/server/handler.rs | AuthorizationHandler for ReadOnlyAuthorizationHandler::write_single_coil | tags=C08
//@fn rodbus/src/server/handler.rs | AuthorizationHandler for ReadOnlyAuthorizationHandler::write_single_register | tags=C08
//@fn rodbus/src/server/handler.rs | AuthorizationHandler for ReadOnlyAuthorizationHandler::write_multiple_coils | tags=C08
//@fn rodbus/src/server/handler.rs | AuthorizationHandler for ReadOnlyAuthorizationHandler::write_multiple_registers | tags=C08
}

// ---- the application as seen by the server: one abstract handler state per configured unit id ----
pub struct HState {
    pub log: Seq<HandlerEvent>,
    pub may_coil: spec_fn(u16, Result<bool, ExceptionCode>) -> bool,
    pub may_di: spec_fn(u16, Result<bool, ExceptionCode>) -> bool,
    pub may_hr: spec_fn(u16, Result<u16, ExceptionCode>) -> bool,
    pub may_ir: spec_fn(u16, Result<u16, ExceptionCode>) -> bool,
}
pub open spec fn hview<H: RequestHandler + ?Sized>(h: &H) -> HState {
    HState {
        log: h.log(),
        may_coil: |a: u16, r: Result<bool, ExceptionCode>| h.may_read_coil(a, r),
        may_di: |a: u16, r: Result<bool, ExceptionCode>| h.may_read_discrete_input(a, r),
        may_hr: |a: u16, r: Result<u16, ExceptionCode>| h.may_read_holding_register(a, r),
        may_ir: |a: u16, r: Result<u16, ExceptionCode>| h.may_read_input_register(a, r),
    }
}

// ---- shims for `ServerHandlerType<T> = Arc<Mutex<Box<T>>>` and `ServerHandlerMap<T>` (trusted: exclusive access to the handler
// while the lock is held, lock always succeeds, BTreeMap lookups / values_mut as documented).  The call-site text
// `handler.lock().unwrap().as_mut()` is unchanged; each step hands on a `&mut` whose final state is the final state of its parent.
#[verifier::external_body] pub struct ServerHandlerType<#[verifier::reject_recursive_types] T> { p: core::marker::PhantomData<T> }
#[verifier::external_body] pub struct Locked<#[verifier::reject_recursive_types] T> { p: core::marker::PhantomData<T> }
#[verifier::external_body] pub struct Guard<#[verifier::reject_recursive_types] T> { p: core::marker::PhantomData<T> }
impl<T: RequestHandler> ServerHandlerType<T> {
    pub uninterp spec fn st(&self) -> HState;
    #[verifier::external_body]
    pub fn lock(&mut self) -> (r: &mut Locked<T>)
        ensures r.st() == old(self).st(), final(self).st() == final(r).st() { unimplemented!() }
}
impl<T: RequestHandler> Locked<T> {
    pub uninterp spec fn st(&self) -> HState;
    #[verifier::external_body]
    pub fn unwrap(&mut self) -> (r: &mut Guard<T>)
        ensures r.st() == old(self).st(), final(self).st() == final(r).st() { unimplemented!() }
}
impl<T: RequestHandler> Guard<T> {
    pub uninterp spec fn st(&self) -> HState;
    #[verifier::external_body]
    pub fn as_mut(&mut self) -> (r: &mut T)
        ensures hview(r) == old(self).st(), final(self).st() == hview(final(r)) { unimplemented!() }
}

pub struct ServerHandlerMap<T> { pub ghost states: Map<u8, HState>, pub p: core::marker::PhantomData<T> }
// iterator over all configured handlers (values_mut): `ids` = unit ids still to be visited, `cur` = their current states,
// `fin` = the states the map will have when the iteration is over (prophecy; pinned down cell by cell by `next`)
pub struct HandlerIterMut<T> { pub ghost ids: Seq<u8>, pub ghost cur: Map<u8, HState>, pub ghost fin: Map<u8, HState>, pub p: core::marker::PhantomData<T> }
impl<T: RequestHandler> ServerHandlerMap<T> {
    #[verifier::external_body]
    pub fn get(&mut self, id: crate::types::UnitId) -> (r: Option<&mut ServerHandlerType<T>>)
        ensures
            r is None <==> !old(self).states.contains_key(id.value),
            r is None ==> final(self).states == old(self).states,
            r is Some ==> r->Some_0.st() == old(self).states[id.value]
                && final(self).states == old(self).states.insert(id.value, final(r->Some_0).st()),
    { unimplemented!() }
    #[verifier::external_body]
    pub fn iter_mut(&mut self) -> (it: HandlerIterMut<T>)
        ensures
            it.ids.no_duplicates(), it.ids.to_set() == old(self).states.dom(),   // every configured handler exactly once
            it.cur == old(self).states,
            it.fin.dom() == old(self).states.dom(),
            final(self).states == it.fin,
    { unimplemented!() }
}
impl<T: RequestHandler> HandlerIterMut<T> {
    #[verifier::external_body]
    pub fn next(&mut self) -> (r: Option<&mut ServerHandlerType<T>>)
        ensures
            final(self).fin == old(self).fin, final(self).cur == old(self).cur,
            old(self).ids.len() == 0 ==> r is None && final(self).ids == old(self).ids,
            old(self).ids.len() > 0 ==> r is Some && final(self).ids == old(self).ids.skip(1)
                && r->Some_0.st() == old(self).cur[old(self).ids[0]]
                && final(r->Some_0).st() == old(self).fin[old(self).ids[0]],
    { unimplemented!() }
}
//@trusted ServerHandlerMap / Arc<Mutex<Box<T>>>: lock() always succeeds and gives exclusive access to the handler; get() = BTreeMap::get_mut; iter_mut() = values_mut() yields every configured handler exactly once
