use vstd::prelude::*;
use crate::exception::ExceptionCode;
use crate::server::types::{WriteCoils, WriteRegisters};
use crate::types::*;

// ---- ghost observation of the application (C02): every write invocation, with what it was given and what it answered ----
pub enum HandlerCall {
    WriteSingleCoil(Indexed<bool>),
    WriteSingleRegister(Indexed<u16>),
    WriteMultipleCoils(AddressRange, Seq<bool>),
    WriteMultipleRegisters(AddressRange, Seq<u16>),
}
pub struct HandlerEvent { pub call: HandlerCall, pub result: Result<(), ExceptionCode> }

// The declarations are /repo's.  Reads take `&self`: they cannot change application state, and the contract only says that the
// answer is one the handler `may` give for exactly that address (relational, no determinism assumed).  Writes append to the ghost log.
pub trait RequestHandler {
    spec fn log(&self) -> Seq<HandlerEvent>;
    spec fn may_read_coil(&self, a: u16, r: Result<bool, ExceptionCode>) -> bool;
    spec fn may_read_discrete_input(&self, a: u16, r: Result<bool, ExceptionCode>) -> bool;
    spec fn may_read_holding_register(&self, a: u16, r: Result<u16, ExceptionCode>) -> bool;
    spec fn may_read_input_register(&self, a: u16, r: Result<u16, ExceptionCode>) -> bool;

//@fn rodbus/src/server/handler.rs | trait RequestHandler::read_coil | tags=C01,C02 | nobody
//@|    ensures self.may_read_coil(_address, r),
//@fn rodbus/src/server/handler.rs | trait RequestHandler::read_discrete_input | tags=C01,C02 | nobody
//@|    ensures self.may_read_discrete_input(_address, r),
//@fn rodbus/src/server/handler.rs | trait RequestHandler::read_holding_register | tags=C01,C02 | nobody
//@|    ensures self.may_read_holding_register(_address, r),
//@fn rodbus/src/server/handler.rs | trait RequestHandler::read_input_register | tags=C01,C02 | nobody
//@|    ensures self.may_read_input_register(_address, r),
//@fn rodbus/src/server/handler.rs | trait RequestHandler::write_single_coil | tags=C01,C02 | nobody
//@|    ensures final(self).log() == old(self).log().push(HandlerEvent { call: HandlerCall::WriteSingleCoil(_value), result: r }),
//@fn rodbus/src/server/handler.rs | trait RequestHandler::write_single_register | tags=C01,C02 | nobody
//@|    ensures final(self).log() == old(self).log().push(HandlerEvent { call: HandlerCall::WriteSingleRegister(_value), result: r }),
// the handler can rely on a fresh iterator over exactly the announced range [C02]
//@fn rodbus/src/server/handler.rs | trait RequestHandler::write_multiple_coils | tags=C01,C02 | nobody
//@|    requires _values.iterator.wf(), _values.iterator.pos == 0, _values.iterator.range == _values.range,
//@|    ensures final(self).log() == old(self).log().push(HandlerEvent { call: HandlerCall::WriteMultipleCoils(_values.range, _values.iterator.spec_values()), result: r }),
//@fn rodbus/src/server/handler.rs | trait RequestHandler::write_multiple_registers | tags=C01,C02 | nobody
//@|    requires _values.iterator.wf(), _values.iterator.pos == 0, _values.iterator.range == _values.range,
//@|    ensures final(self).log() == old(self).log().push(HandlerEvent { call: HandlerCall::WriteMultipleRegisters(_values.range, _values.iterator.spec_values()), result: r }),
}

//@item rodbus/src/server/handler.rs | Authorization
