use vstd::prelude::*;
//@fn rodbus/src/common/bits.rs | num_bytes_for_bits | tags=C01,C04,C07
//@|    ensures r as int == (count as int + 7) / 8, r <= 8192,
