    pub use listener::{NullListener, Listener, PortState};
    use vstd::prelude::*;
    use crate::client::channel::{Channel, ClientTask};
    use crate::client::listener::ClientState;
    use crate::retry::RetryStrategy;
    use crate::shims::net::HostAddr;
    use crate::types::ClientOptions;
// [C12,C13,C20] the public constructor hands host, retry strategy, listener and options to the channel task unchanged
//@fn rodbus/src/client/mod.rs | create_tcp_client_task_with_options | tags=C12,C13,C20
//@|    ensures r.1.is_tcp_task(), r.1.tcp_task().wf(), r.1.tcp_task().connection_handler is Tcp,
//@|        r.1.tcp_task().client_loop.decode == client_options.decode_level, !r.1.tcp_task().client_loop.enabled,
//@|        client_options.max_timeouts is None ==> r.1.tcp_task().client_loop.timeout_counter.limit() is None,
//@|        client_options.max_timeouts is Some ==> r.1.tcp_task().client_loop.timeout_counter.limit() == Some(crate::nz_value(client_options.max_timeouts->Some_0)),
//@|        r.1.tcp_task().client_loop.rx.0.chan == r.0.tx.chan,
//@|        listener matches Some(l) ==> r.1.tcp_task().states() == l.log(), listener is None ==> r.1.tcp_task().states().len() == 0,
//@closure 0| || -> (l: Box<dyn crate::client::listener::Listener<ClientState>>) ensures l.log().len() == 0
    use crate::tcp::tls::client::create_tls_channel;
    use crate::shims::net::TlsClientConfig;
    use crate::tcp::client::TcpTaskConnectionHandler;
// [C09] ... and the TLS constructor hands the TLS configuration as well
//@fn rodbus/src/client/mod.rs | create_tls_client_task_with_options | tags=C09,C12,C13,C20
//@|    ensures r.1.is_tcp_task(), r.1.tcp_task().wf(),
//@|        r.1.tcp_task().connection_handler matches TcpTaskConnectionHandler::Tls(c) && c.id == tls_config.id,
//@|        r.1.tcp_task().client_loop.decode == client_options.decode_level, !r.1.tcp_task().client_loop.enabled,
//@|        client_options.max_timeouts is None ==> r.1.tcp_task().client_loop.timeout_counter.limit() is None,
//@|        client_options.max_timeouts is Some ==> r.1.tcp_task().client_loop.timeout_counter.limit() == Some(crate::nz_value(client_options.max_timeouts->Some_0)),
//@|        r.1.tcp_task().client_loop.rx.0.chan == r.0.tx.chan,
//@|        listener matches Some(l) ==> r.1.tcp_task().states() == l.log(), listener is None ==> r.1.tcp_task().states().len() == 0,
//@closure 0| || -> (l: Box<dyn crate::client::listener::Listener<ClientState>>) ensures l.log().len() == 0
    use crate::decode::DecodeLevel;
    use crate::tcp::tls::client::spawn_tls_channel;
// [C18,C20] the legacy spawning constructors: queue size and decode level go into the options, everything else is passed on unchanged
//@fn rodbus/src/client/mod.rs | spawn_tcp_client_task | tags=C18,C20
//@|    requires listener matches Some(l) ==> l.log().len() == 0,
//@exit 0| assert(options.decode_level == decode_level && options.max_queued_requests == max_queued_requests);
//@closure 0| || -> (l: Box<dyn crate::client::listener::Listener<ClientState>>) ensures l.log().len() == 0
//@fn rodbus/src/client/mod.rs | spawn_tcp_client_task_with_options | tags=C18,C20
//@|    requires listener matches Some(l) ==> l.log().len() == 0,
//@closure 0| || -> (l: Box<dyn crate::client::listener::Listener<ClientState>>) ensures l.log().len() == 0
//@fn rodbus/src/client/mod.rs | spawn_tls_client_task | tags=C09,C18,C20
//@|    requires listener matches Some(l) ==> l.log().len() == 0,
//@exit 0| assert(options.decode_level == decode_level && options.max_queued_requests == max_queued_requests);
//@closure 0| || -> (l: Box<dyn crate::client::listener::Listener<ClientState>>) ensures l.log().len() == 0
    use crate::client::listener::PortState as PortState__;
//@fn rodbus/src/client/mod.rs | spawn_rtu_client_task | tags=C18,C20
//@|    requires listener matches Some(l) ==> l.log().len() == 0,
//@fn rodbus/src/client/mod.rs | create_rtu_client_task | tags=C13,C18,C20
//@|    ensures !r.1.is_tcp_task(), r.1.serial_task().wf(), r.1.serial_task().client_loop.decode == decode, !r.1.serial_task().client_loop.enabled,
//@|        r.1.serial_task().client_loop.rx.0.chan == r.0.tx.chan,
//@|        listener matches Some(l) ==> r.1.serial_task().states() == l.log(), listener is None ==> r.1.serial_task().states().len() == 0,
