// ---- client/ffi_channel.rs: the callback-style request API used by the bindings (C03 limits, C18 pass-through, C10 queue-full / closed) ----
        use vstd::prelude::*;
        use vstd::std_specs::convert::FromSpecImpl;
        use crate::shims::tokio;
        use crate::shims::tokio::sync::mpsc::error::TrySendError;
        use crate::client::channel::{Channel, RequestParam, queued, axiom_queue_inv_intro};
        use crate::client::message::{Command, Promise, Request, RequestDetails, Setting};
        use crate::client::requests::read_bits::ReadBits;
        use crate::client::requests::read_registers::ReadRegisters;
        use crate::client::requests::write_multiple::{MultipleWriteRequest, WriteMultiple};
        use crate::client::requests::write_single::SingleWrite;
        use crate::error::*;
        use crate::types::{AddressRange, BitIterator, Indexed, RegisterIterator};
        use crate::decode::DecodeLevel;

//@item rodbus/src/client/ffi_channel.rs | FfiChannel | derive=
//@item rodbus/src/client/ffi_channel.rs | FfiChannelError | derive=Clone,Copy

        impl FromSpecImpl<InvalidRange> for FfiChannelError {
            open spec fn obeys_from_spec() -> bool { true }
            open spec fn from_spec(err: InvalidRange) -> Self { FfiChannelError::BadRange(err) }
        }
        impl From<InvalidRange> for FfiChannelError {
//@fn rodbus/src/client/ffi_channel.rs | From<InvalidRange> for FfiChannelError::from | tags=C18
        }
        // [C10] a full queue and a closed queue are told apart
        impl<T> FromSpecImpl<TrySendError<T>> for FfiChannelError {
            open spec fn obeys_from_spec() -> bool { true }
            open spec fn from_spec(err: TrySendError<T>) -> Self { match err { TrySendError::Full(_) => FfiChannelError::ChannelFull, TrySendError::Closed(_) => FfiChannelError::ChannelClosed } }
        }
        impl<T> From<TrySendError<T>> for FfiChannelError {
//@fn rodbus/src/client/ffi_channel.rs | From<TrySendError<T>> for FfiChannelError::from | tags=C10,C18
        }

        impl FfiChannel {
//@fn rodbus/src/client/ffi_channel.rs | FfiChannel::new | tags=C18
//@|    ensures r.tx == channel.tx,

// the one place commands are queued: never blocks; a command that cannot be queued is dropped (its promise then completes with Shutdown)
//@fn rodbus/src/client/ffi_channel.rs | FfiChannel::send | tags=C03,C10,C18 | r10
//@|    requires tokio::sync::mpsc::queue_inv(command),
//@|    ensures final(self).tx == old(self).tx, r is Ok ==> old(self).tx.delivered(command),
//@|        r is Err ==> (r->Err_0 is ChannelFull || r->Err_0 is ChannelClosed), r matches Err(FfiChannelError::ChannelClosed) ==> old(self).tx.receiver_gone(),

//@fn rodbus/src/client/ffi_channel.rs | FfiChannel::enable | tags=C13,C18
//@|    ensures final(self).tx == old(self).tx, r is Ok ==> old(self).tx.delivered(Command::Setting(Setting::Enable)), !(r matches Err(FfiChannelError::BadRange(_))),
//@entry| broadcast use axiom_queue_inv_intro;
//@fn rodbus/src/client/ffi_channel.rs | FfiChannel::disable | tags=C13,C18
//@|    ensures final(self).tx == old(self).tx, r is Ok ==> old(self).tx.delivered(Command::Setting(Setting::Disable)), !(r matches Err(FfiChannelError::BadRange(_))),
//@entry| broadcast use axiom_queue_inv_intro;
//@fn rodbus/src/client/ffi_channel.rs | FfiChannel::set_decode_level | tags=C18,C20
//@|    ensures final(self).tx == old(self).tx, r is Ok ==> old(self).tx.delivered(Command::Setting(Setting::DecodeLevel(level))),
//@entry| broadcast use axiom_queue_inv_intro;

// [C03] the read limits are applied before anything is queued; [C18] unit id, timeout and range pass through unchanged
//@fn rodbus/src/client/ffi_channel.rs | FfiChannel::read_bits | tags=C03,C18 | r10
//@|    requires forall|x: ReadBits| #[trigger] call_requires(wrap_req, (x,)),
//@|        // the wrapper is one of the two read-bits constructors
//@|        forall|x: ReadBits, d: RequestDetails| #[trigger] call_ensures(wrap_req, (x,), d) ==> d == RequestDetails::ReadCoils(x) || d == RequestDetails::ReadDiscreteInputs(x),
//@|    ensures final(self).tx == old(self).tx,
//@|        !(range.wf() && range.count <= 2000) ==> r matches Err(FfiChannelError::BadRange(_)),
//@|        r is Ok ==> exists|q: Request, x: ReadBits| #[trigger] old(self).tx.delivered(Command::Request(q)) && q.id == param.id && q.timeout == param.response_timeout
//@|            && x.request.inner == range && #[trigger] call_ensures(wrap_req, (x,), q.details),
//@entry| broadcast use axiom_queue_inv_intro;
//@fn rodbus/src/client/ffi_channel.rs | FfiChannel::read_registers | tags=C03,C18 | r10
//@|    requires forall|x: ReadRegisters| #[trigger] call_requires(wrap_req, (x,)),
//@|        forall|x: ReadRegisters, d: RequestDetails| #[trigger] call_ensures(wrap_req, (x,), d) ==> d == RequestDetails::ReadHoldingRegisters(x) || d == RequestDetails::ReadInputRegisters(x),
//@|    ensures final(self).tx == old(self).tx,
//@|        !(range.wf() && range.count <= 125) ==> r matches Err(FfiChannelError::BadRange(_)),
//@|        r is Ok ==> exists|q: Request, x: ReadRegisters| #[trigger] old(self).tx.delivered(Command::Request(q)) && q.id == param.id && q.timeout == param.response_timeout
//@|            && x.request.inner == range && #[trigger] call_ensures(wrap_req, (x,), q.details),
//@entry| broadcast use axiom_queue_inv_intro;

//@fn rodbus/src/client/ffi_channel.rs | FfiChannel::read_coils | tags=C03,C18 | eta=RequestDetails::ReadCoils>ReadBits>RequestDetails | eta=RequestDetails::ReadDiscreteInputs>ReadBits>RequestDetails
//@|    ensures !(range.wf() && range.count <= 2000) ==> r matches Err(FfiChannelError::BadRange(_)),
//@|        r is Ok ==> queued(&old(self).tx, param, |d: RequestDetails| d matches RequestDetails::ReadCoils(x) && x.request.inner == range),
//@fn rodbus/src/client/ffi_channel.rs | FfiChannel::read_discrete_inputs | tags=C03,C18 | eta=RequestDetails::ReadCoils>ReadBits>RequestDetails | eta=RequestDetails::ReadDiscreteInputs>ReadBits>RequestDetails
//@|    ensures !(range.wf() && range.count <= 2000) ==> r matches Err(FfiChannelError::BadRange(_)),
//@|        r is Ok ==> queued(&old(self).tx, param, |d: RequestDetails| d matches RequestDetails::ReadDiscreteInputs(x) && x.request.inner == range),
//@fn rodbus/src/client/ffi_channel.rs | FfiChannel::read_holding_registers | tags=C03,C18 | eta=RequestDetails::ReadHoldingRegisters>ReadRegisters>RequestDetails | eta=RequestDetails::ReadInputRegisters>ReadRegisters>RequestDetails
//@|    ensures !(range.wf() && range.count <= 125) ==> r matches Err(FfiChannelError::BadRange(_)),
//@|        r is Ok ==> queued(&old(self).tx, param, |d: RequestDetails| d matches RequestDetails::ReadHoldingRegisters(x) && x.request.inner == range),
//@fn rodbus/src/client/ffi_channel.rs | FfiChannel::read_input_registers | tags=C03,C18 | eta=RequestDetails::ReadHoldingRegisters>ReadRegisters>RequestDetails | eta=RequestDetails::ReadInputRegisters>ReadRegisters>RequestDetails
//@|    ensures !(range.wf() && range.count <= 125) ==> r matches Err(FfiChannelError::BadRange(_)),
//@|        r is Ok ==> queued(&old(self).tx, param, |d: RequestDetails| d matches RequestDetails::ReadInputRegisters(x) && x.request.inner == range),
//@fn rodbus/src/client/ffi_channel.rs | FfiChannel::write_single_coil | tags=C03,C18
//@|    ensures r is Ok ==> queued(&old(self).tx, param, |d: RequestDetails| d matches RequestDetails::WriteSingleCoil(x) && x.request == value),
//@entry| broadcast use axiom_queue_inv_intro;
//@fn rodbus/src/client/ffi_channel.rs | FfiChannel::write_single_register | tags=C03,C18
//@|    ensures r is Ok ==> queued(&old(self).tx, param, |d: RequestDetails| d matches RequestDetails::WriteSingleRegister(x) && x.request == value),
//@entry| broadcast use axiom_queue_inv_intro;
//@fn rodbus/src/client/ffi_channel.rs | FfiChannel::write_multiple_registers | tags=C03,C18
//@|    requires value.wf(),
//@|    ensures r is Ok ==> queued(&old(self).tx, param, |d: RequestDetails| d matches RequestDetails::WriteMultipleRegisters(x) && x.request == value),
//@entry| broadcast use axiom_queue_inv_intro;
//@fn rodbus/src/client/ffi_channel.rs | FfiChannel::write_multiple_coils | tags=C03,C18
//@|    requires value.wf(),
//@|    ensures r is Ok ==> queued(&old(self).tx, param, |d: RequestDetails| d matches RequestDetails::WriteMultipleCoils(x) && x.request == value),
//@entry| broadcast use axiom_queue_inv_intro;
        }
