use vstd::prelude::*;
use crate::client::listener::*;
use crate::client::message::Command;
use crate::client::task::{ClientLoop, SessionError, StateChange};
use crate::common::frame::{FrameWriter, FramedReader};
use crate::common::phys::PhysLayer;
use crate::error::Shutdown;
use crate::retry::{RetryStrategy, RetryCall};
use crate::shims::net::{HostAddr, TcpStream, TlsClientConfig};
use crate::types::{ChannelLoggingMode, ClientOptions};
use crate::client::channel::{Channel, ClientTask};
use crate::shims::tokio;

//@item rodbus/src/tcp/client.rs | TcpTaskConnectionHandler
//@item rodbus/src/tcp/client.rs | TcpChannelTask

impl TcpTaskConnectionHandler {
// [C09] a channel configured for TLS never hands a plain-text layer to the session: the layer comes out of the handshake under the
// stored configuration; a plain TCP channel gets a plain layer
//@fn rodbus/src/tcp/client.rs | TcpTaskConnectionHandler::handle | tags=C09,C13
//@|    ensures r is Ok ==> r->Ok_0.sent.len() == 0,
//@|        *old(self) matches TcpTaskConnectionHandler::Tls(c) ==> (r is Ok ==> r->Ok_0.tls_by == Some(c.id)),
//@|        (r is Ok && *old(self) is Tcp) ==> r->Ok_0.tls_by is None,
//@|        *old(self) matches TcpTaskConnectionHandler::Tls(c) ==> *final(self) matches TcpTaskConnectionHandler::Tls(c2) && c2.id == c.id,
//@|        *old(self) is Tcp ==> *final(self) is Tcp,
}

impl TcpChannelTask {
    pub open spec fn wf(&self) -> bool { self.client_loop.wf() && self.client_loop.writer.is_tcp() }
    pub open spec fn states(&self) -> Seq<ClientState> { self.listener.log() }

// a TCP / TLS channel task speaks MBAP on both halves and takes decode level and timeout limit from the options it is given
//@fn rodbus/src/tcp/client.rs | TcpChannelTask::new | tags=C05,C12,C13,C20
//@|    ensures r.wf(), r.client_loop.reader.parser is Tcp, r.client_loop.reader.logical().len() == 0,
//@|        r.client_loop.decode == options.decode_level, !r.client_loop.enabled, r.client_loop.rx == rx,
//@|        r.client_loop.timeout_counter.count() == 0,
//@|        options.max_timeouts is None ==> r.client_loop.timeout_counter.limit() is None,
//@|        options.max_timeouts is Some ==> r.client_loop.timeout_counter.limit() == Some(crate::nz_value(options.max_timeouts->Some_0)),
//@|        r.connection_handler == connection_handler, r.connect_retry == connect_retry, r.listener == listener, r.host == host,
//@|        r.channel_logging == options.channel_logging,

// [C13] Disabled first, Shutdown exactly once and last
//@fn rodbus/src/tcp/client.rs | TcpChannelTask::run | tags=C13
//@|    requires old(self).wf(), old(self).states().len() == 0,
//@|    ensures legal(final(self).states()), final(self).states().len() >= 2, final(self).states()[0] is Disabled, final(self).states().last() is Shutdown,
//@|        forall|i: int| 0 <= i < final(self).states().len() - 1 ==> !(#[trigger] final(self).states()[i] is Shutdown),
//@exit 0| lemma_legal_push(old(self).states(), ClientState::Disabled);

// every pass through the loop leaves a legal trace that does not contain Shutdown and ends in Disabled or a wait state
//@fn rodbus/src/tcp/client.rs | TcpChannelTask::run_inner | tags=C13 | attr=#[verifier::exec_allows_no_decreases_clause]
//@|    requires old(self).wf(), legal(old(self).states()), old(self).states().len() > 0, old(self).states().last() is Disabled,
//@|        forall|i: int| 0 <= i < old(self).states().len() ==> !(#[trigger] old(self).states()[i] is Shutdown),
//@|    ensures final(self).wf(), legal(final(self).states()), final(self).states().len() > 0,
//@|        legal_step(final(self).states().last(), ClientState::Shutdown),
//@|        forall|i: int| 0 <= i < final(self).states().len() ==> !(#[trigger] final(self).states()[i] is Shutdown),
//@loop 0|            invariant self.wf(), legal(self.states()), self.states().len() > 0,
//@loop 0|                self.states().last() is Disabled || self.states().last() is WaitAfterFailedConnect || self.states().last() is WaitAfterDisconnect,
//@loop 0|                forall|i: int| 0 <= i < self.states().len() ==> !(#[trigger] self.states()[i] is Shutdown),

//@fn rodbus/src/tcp/client.rs | TcpChannelTask::connect | tags=C13 | r3
//@|    requires old(self).wf(),
//@|    ensures final(self).wf(), final(self).states() == old(self).states(), final(self).connect_retry.calls() == old(self).connect_retry.calls(),
//@|        r matches Err(StateChange::Disable) ==> !final(self).client_loop.enabled,

// [C13] Connecting only while enabled; then exactly one of Connected / WaitAfterFailedConnect
//@fn rodbus/src/tcp/client.rs | TcpChannelTask::try_connect_and_run | tags=C09,C13,C14 | r10=0 r10id=0
//@|    requires old(self).wf(), old(self).client_loop.enabled, legal(old(self).states()), old(self).states().len() > 0,
//@|        legal_step(old(self).states().last(), ClientState::Connecting),
//@|        forall|i: int| 0 <= i < old(self).states().len() ==> !(#[trigger] old(self).states()[i] is Shutdown),
//@|    ensures final(self).wf(), legal(final(self).states()), final(self).states().len() > 0,
//@|        forall|i: int| 0 <= i < final(self).states().len() ==> !(#[trigger] final(self).states()[i] is Shutdown),
//@|        legal_step(final(self).states().last(), ClientState::Shutdown),
//@|        // while still enabled the trace ends in a wait state (a wait after every failed connect or lost connection)
//@|        (r is Ok && final(self).client_loop.enabled) ==> (final(self).states().last() is WaitAfterFailedConnect || final(self).states().last() is WaitAfterDisconnect),
//@|        r matches Err(StateChange::Disable) ==> !final(self).client_loop.enabled,
//@|        !final(self).client_loop.enabled ==> legal_step(final(self).states().last(), ClientState::Disabled),
//@entry| lemma_legal_push(self.states(), ClientState::Connecting);

// [C13] Connected directly after Connecting; [C14] the strategy is reset only once the connection (including the TLS handshake) is complete
//@fn rodbus/src/tcp/client.rs | TcpChannelTask::run_connection | tags=C13,C14
//@|    requires old(self).wf(), legal(old(self).states()), old(self).states().len() > 0, old(self).states().last() is Connecting,
//@|        forall|i: int| 0 <= i < old(self).states().len() ==> !(#[trigger] old(self).states()[i] is Shutdown),
//@|    ensures final(self).wf(), legal(final(self).states()), final(self).states().len() > 0,
//@|        forall|i: int| 0 <= i < final(self).states().len() ==> !(#[trigger] final(self).states()[i] is Shutdown),
//@|        final(self).states().last() is Connected || final(self).states().last() is WaitAfterDisconnect,
//@|        (r is Ok && final(self).client_loop.enabled) ==> final(self).states().last() is WaitAfterDisconnect,
//@|        r matches Err(StateChange::Disable) ==> !final(self).client_loop.enabled,
//@|        // [C14] reset first; after a lost connection the announced delay is the strategy's after_disconnect value
//@|        final(self).connect_retry.calls().len() > old(self).connect_retry.calls().len()
//@|            && final(self).connect_retry.calls()[old(self).connect_retry.calls().len() as int] is Reset,
//@|        final(self).states().last() matches ClientState::WaitAfterDisconnect(d) ==> final(self).connect_retry.calls().last() == RetryCall::AfterDisconnect(d),
//@entry| lemma_legal_push(self.states(), ClientState::Connected);

// [C14] the delay announced after a failed connect is the strategy's after_failed_connect value
//@fn rodbus/src/tcp/client.rs | TcpChannelTask::handle_failed_connection | tags=C13,C14
//@|    requires old(self).wf(), legal(old(self).states()), old(self).states().len() > 0, old(self).states().last() is Connecting,
//@|        forall|i: int| 0 <= i < old(self).states().len() ==> !(#[trigger] old(self).states()[i] is Shutdown),
//@|    ensures final(self).wf(), legal(final(self).states()), final(self).states().len() > 0,
//@|        forall|i: int| 0 <= i < final(self).states().len() ==> !(#[trigger] final(self).states()[i] is Shutdown),
//@|        final(self).states().last() is WaitAfterFailedConnect,
//@|        r matches Err(StateChange::Disable) ==> !final(self).client_loop.enabled,
//@|        final(self).states().last() matches ClientState::WaitAfterFailedConnect(d) ==> final(self).connect_retry.calls() == old(self).connect_retry.calls().push(RetryCall::AfterFailedConnect(d)),
}

// the public pieces: handle + task.  The handle's sender and the task's receiver are the two ends of one queue of the configured size
//@fn rodbus/src/tcp/client.rs | create_tcp_channel | tags=C10,C12,C13,C20
//@|    ensures r.1.is_tcp_task(), r.1.tcp_task().wf(), r.1.tcp_task().states() == listener.log(),
//@|        r.1.tcp_task().connection_handler is Tcp,
//@|        r.1.tcp_task().client_loop.decode == options.decode_level, !r.1.tcp_task().client_loop.enabled,
//@|        options.max_timeouts is None ==> r.1.tcp_task().client_loop.timeout_counter.limit() is None,
//@|        options.max_timeouts is Some ==> r.1.tcp_task().client_loop.timeout_counter.limit() == Some(crate::nz_value(options.max_timeouts->Some_0)),
//@|        r.1.tcp_task().client_loop.rx.0.chan == r.0.tx.chan,
// [C18,C20] the spawning variant: the task handed to the runtime is the one built from exactly the arguments
//@fn rodbus/src/tcp/client.rs | spawn_tcp_channel | tags=C12,C13,C18,C20
//@|    requires listener.log().len() == 0,      // (the ghost log of a listener that has not been used yet)
//@exit 0| assert(task.is_tcp_task() && task.tcp_task().connection_handler is Tcp && task.tcp_task().client_loop.decode == client_options.decode_level
//@exit 0|     && task.tcp_task().states() == listener.log() && task.tcp_task().client_loop.rx.0.chan == handle.tx.chan
//@exit 0|     && (client_options.max_timeouts is None ==> task.tcp_task().client_loop.timeout_counter.limit() is None));
