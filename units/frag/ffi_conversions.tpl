use vstd::prelude::*;
use vstd::std_specs::convert::FromSpecImpl;
use crate::ffi;
use crate::rodbus;
use crate::rodbus::server::Authorization;
use crate::rodbus::AddressRange;
use crate::rodbus::Shutdown;

// ---- [C18] each error, exception, decode level ... is reported as its same-named counterpart ----
pub open spec fn spec_ffi_exception(x: rodbus::ExceptionCode) -> ffi::RequestError {
    match x {
        rodbus::ExceptionCode::IllegalFunction => ffi::RequestError::ModbusExceptionIllegalFunction,
        rodbus::ExceptionCode::IllegalDataAddress => ffi::RequestError::ModbusExceptionIllegalDataAddress,
        rodbus::ExceptionCode::IllegalDataValue => ffi::RequestError::ModbusExceptionIllegalDataValue,
        rodbus::ExceptionCode::ServerDeviceFailure => ffi::RequestError::ModbusExceptionServerDeviceFailure,
        rodbus::ExceptionCode::Acknowledge => ffi::RequestError::ModbusExceptionAcknowledge,
        rodbus::ExceptionCode::ServerDeviceBusy => ffi::RequestError::ModbusExceptionServerDeviceBusy,
        rodbus::ExceptionCode::MemoryParityError => ffi::RequestError::ModbusExceptionMemoryParityError,
        rodbus::ExceptionCode::GatewayPathUnavailable => ffi::RequestError::ModbusExceptionGatewayPathUnavailable,
        rodbus::ExceptionCode::GatewayTargetDeviceFailedToRespond => ffi::RequestError::ModbusExceptionGatewayTargetDeviceFailedToRespond,
        rodbus::ExceptionCode::Unknown(_) => ffi::RequestError::ModbusExceptionUnknown,
    }
}
pub open spec fn spec_ffi_error(err: rodbus::RequestError) -> ffi::RequestError {
    match err {
        rodbus::RequestError::Io(_) => ffi::RequestError::IoError,
        rodbus::RequestError::Exception(ex) => spec_ffi_exception(ex),
        rodbus::RequestError::BadRequest(_) => ffi::RequestError::BadRequest,
        rodbus::RequestError::BadFrame(_) => ffi::RequestError::BadFraming,
        rodbus::RequestError::BadResponse(_) => ffi::RequestError::BadResponse,
        rodbus::RequestError::Internal(_) => ffi::RequestError::InternalError,
        rodbus::RequestError::ResponseTimeout => ffi::RequestError::ResponseTimeout,
        rodbus::RequestError::NoConnection => ffi::RequestError::NoConnection,
        rodbus::RequestError::Shutdown => ffi::RequestError::Shutdown,
    }
}
impl FromSpecImpl<rodbus::ExceptionCode> for ffi::RequestError {
    open spec fn obeys_from_spec() -> bool { true }
    open spec fn from_spec(x: rodbus::ExceptionCode) -> Self { spec_ffi_exception(x) }
}
impl From<rodbus::ExceptionCode> for ffi::RequestError {
//@fn ffi/rodbus-ffi/src/helpers/conversions.rs | From<rodbus::ExceptionCode> for ffi::RequestError::from | tags=C18
}
impl FromSpecImpl<rodbus::RequestError> for ffi::RequestError {
    open spec fn obeys_from_spec() -> bool { true }
    open spec fn from_spec(err: rodbus::RequestError) -> Self { spec_ffi_error(err) }
}
impl From<rodbus::RequestError> for ffi::RequestError {
//@fn ffi/rodbus-ffi/src/helpers/conversions.rs | From<rodbus::RequestError> for ffi::RequestError::from | tags=C18
}

pub open spec fn spec_decode_level(level: ffi::DecodeLevel) -> rodbus::DecodeLevel {
    rodbus::DecodeLevel {
        app: match ffi::app_level_of(level.app) {
            ffi::AppDecodeLevel::Nothing => rodbus::AppDecodeLevel::Nothing, ffi::AppDecodeLevel::FunctionCode => rodbus::AppDecodeLevel::FunctionCode,
            ffi::AppDecodeLevel::DataHeaders => rodbus::AppDecodeLevel::DataHeaders, ffi::AppDecodeLevel::DataValues => rodbus::AppDecodeLevel::DataValues },
        frame: match ffi::frame_level_of(level.frame) {
            ffi::FrameDecodeLevel::Nothing => rodbus::FrameDecodeLevel::Nothing, ffi::FrameDecodeLevel::Header => rodbus::FrameDecodeLevel::Header,
            ffi::FrameDecodeLevel::Payload => rodbus::FrameDecodeLevel::Payload },
        physical: match ffi::phys_level_of(level.physical) {
            ffi::PhysDecodeLevel::Nothing => rodbus::PhysDecodeLevel::Nothing, ffi::PhysDecodeLevel::Length => rodbus::PhysDecodeLevel::Length,
            ffi::PhysDecodeLevel::Data => rodbus::PhysDecodeLevel::Data },
    }
}
impl FromSpecImpl<ffi::DecodeLevel> for rodbus::DecodeLevel {
    open spec fn obeys_from_spec() -> bool { true }
    open spec fn from_spec(level: ffi::DecodeLevel) -> Self { spec_decode_level(level) }
}
impl From<ffi::DecodeLevel> for rodbus::DecodeLevel {
//@fn ffi/rodbus-ffi/src/helpers/conversions.rs | From<ffi::DecodeLevel> for rodbus::DecodeLevel::from | tags=C18,C20
}

impl FromSpecImpl<ffi::BitValue> for rodbus::Indexed<bool> {
    open spec fn obeys_from_spec() -> bool { true }
    open spec fn from_spec(x: ffi::BitValue) -> Self { rodbus::Indexed { index: x.index, value: x.value } }
}
impl std::convert::From<ffi::BitValue> for rodbus::Indexed<bool> {
//@fn ffi/rodbus-ffi/src/helpers/conversions.rs | std::convert::From<ffi::BitValue> for rodbus::Indexed<bool>::from | tags=C18
}
impl FromSpecImpl<ffi::RegisterValue> for rodbus::Indexed<u16> {
    open spec fn obeys_from_spec() -> bool { true }
    open spec fn from_spec(x: ffi::RegisterValue) -> Self { rodbus::Indexed { index: x.index, value: x.value } }
}
impl std::convert::From<ffi::RegisterValue> for rodbus::Indexed<u16> {
//@fn ffi/rodbus-ffi/src/helpers/conversions.rs | std::convert::From<ffi::RegisterValue> for rodbus::Indexed<u16>::from | tags=C18
}
impl FromSpecImpl<AddressRange> for ffi::AddressRange {
    open spec fn obeys_from_spec() -> bool { true }
    open spec fn from_spec(x: AddressRange) -> Self { ffi::AddressRange { start: x.start, count: x.count } }
}
impl From<AddressRange> for ffi::AddressRange {
//@fn ffi/rodbus-ffi/src/helpers/conversions.rs | From<AddressRange> for ffi::AddressRange::from | tags=C18
}
impl FromSpecImpl<ffi::Authorization> for Authorization {
    open spec fn obeys_from_spec() -> bool { true }
    open spec fn from_spec(x: ffi::Authorization) -> Self { match x { ffi::Authorization::Allow => Authorization::Allow, ffi::Authorization::Deny => Authorization::Deny } }
}
impl From<ffi::Authorization> for Authorization {
//@fn ffi/rodbus-ffi/src/helpers/conversions.rs | From<ffi::Authorization> for Authorization::from | tags=C18,C08
}
impl FromSpecImpl<rodbus::Shutdown> for ffi::ParamError {
    open spec fn obeys_from_spec() -> bool { true }
    open spec fn from_spec(s: rodbus::Shutdown) -> Self { ffi::ParamError::Shutdown }
}
impl From<rodbus::Shutdown> for ffi::ParamError {
//@fn ffi/rodbus-ffi/src/helpers/conversions.rs | From<rodbus::Shutdown> for ffi::ParamError::from | tags=C18
}

// [C18,C09] TLS configuration enums and errors keep their names across the boundary
impl FromSpecImpl<ffi::MinTlsVersion> for rodbus::client::MinTlsVersion {
    open spec fn obeys_from_spec() -> bool { true }
    open spec fn from_spec(from: ffi::MinTlsVersion) -> Self { match from { ffi::MinTlsVersion::V12 => rodbus::client::MinTlsVersion::V1_2, ffi::MinTlsVersion::V13 => rodbus::client::MinTlsVersion::V1_3 } }
}
impl From<ffi::MinTlsVersion> for rodbus::client::MinTlsVersion {
//@fn ffi/rodbus-ffi/src/helpers/conversions.rs | From<ffi::MinTlsVersion> for rodbus::client::MinTlsVersion::from | tags=C09,C18
}
impl FromSpecImpl<ffi::CertificateMode> for rodbus::client::CertificateMode {
    open spec fn obeys_from_spec() -> bool { true }
    open spec fn from_spec(from: ffi::CertificateMode) -> Self { match from { ffi::CertificateMode::AuthorityBased => rodbus::client::CertificateMode::AuthorityBased, ffi::CertificateMode::SelfSigned => rodbus::client::CertificateMode::SelfSigned } }
}
impl From<ffi::CertificateMode> for rodbus::client::CertificateMode {
//@fn ffi/rodbus-ffi/src/helpers/conversions.rs | From<ffi::CertificateMode> for rodbus::client::CertificateMode::from | tags=C09,C18
}
pub open spec fn spec_tls_error(error: rodbus::client::TlsError) -> ffi::ParamError {
    match error {
        rodbus::client::TlsError::InvalidDnsName => ffi::ParamError::InvalidDnsName,
        rodbus::client::TlsError::InvalidPeerCertificate(_) => ffi::ParamError::InvalidPeerCertificate,
        rodbus::client::TlsError::InvalidLocalCertificate(_) => ffi::ParamError::InvalidLocalCertificate,
        rodbus::client::TlsError::InvalidPrivateKey(_) => ffi::ParamError::InvalidPrivateKey,
        rodbus::client::TlsError::BadConfig(_) => ffi::ParamError::BadTlsConfig,
    }
}
impl FromSpecImpl<rodbus::client::TlsError> for ffi::ParamError {
    open spec fn obeys_from_spec() -> bool { true }
    open spec fn from_spec(error: rodbus::client::TlsError) -> Self { spec_tls_error(error) }
}
impl From<rodbus::client::TlsError> for ffi::ParamError {
//@fn ffi/rodbus-ffi/src/helpers/conversions.rs | From<rodbus::client::TlsError> for ffi::ParamError::from | tags=C18
}

// ---- [C18] serial port settings: every field reaches the Rust API as its same-named counterpart ----
pub open spec fn spec_serial_settings(from: ffi::SerialPortSettings) -> rodbus::SerialSettings {
    rodbus::SerialSettings {
        baud_rate: from.baud_rate,
        data_bits: match ffi::data_bits_of(from.data_bits) { ffi::DataBits::Five => rodbus::DataBits::Five, ffi::DataBits::Six => rodbus::DataBits::Six,
            ffi::DataBits::Seven => rodbus::DataBits::Seven, ffi::DataBits::Eight => rodbus::DataBits::Eight },
        flow_control: match ffi::flow_control_of(from.flow_control) { ffi::FlowControl::None => rodbus::FlowControl::None,
            ffi::FlowControl::Software => rodbus::FlowControl::Software, ffi::FlowControl::Hardware => rodbus::FlowControl::Hardware },
        stop_bits: match ffi::stop_bits_of(from.stop_bits) { ffi::StopBits::One => rodbus::StopBits::One, ffi::StopBits::Two => rodbus::StopBits::Two },
        parity: match ffi::parity_of(from.parity) { ffi::Parity::None => rodbus::Parity::None, ffi::Parity::Odd => rodbus::Parity::Odd, ffi::Parity::Even => rodbus::Parity::Even },
    }
}
impl FromSpecImpl<ffi::SerialPortSettings> for rodbus::SerialSettings {
    open spec fn obeys_from_spec() -> bool { true }
    open spec fn from_spec(from: ffi::SerialPortSettings) -> Self { spec_serial_settings(from) }
}
impl From<ffi::SerialPortSettings> for rodbus::SerialSettings {
//@fn ffi/rodbus-ffi/src/helpers/conversions.rs | From<ffi::SerialPortSettings> for rodbus::SerialSettings::from | tags=C18
}
