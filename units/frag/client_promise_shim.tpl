// ---- shims of the three Promise types (trusted contracts; the real bodies - Option::take, oneshot::Sender::send, Box<dyn FnOnce> -
// are outside the Verus subset and were tried with Kani and time out after 20 min: ASSUMED).  A promise completes at most once:
// `outcome()` is None while pending and keeps the FIRST completion forever [C10].
