// ---- shims of the three Promise types (trusted contracts; the real bodies - Option::take, oneshot::Sender::send, Box<dyn FnOnce> -
// are outside the Verus subset and are checked by the Kani harnesses k_promise_*).  A promise completes at most once:
// `outcome()` is None while pending and keeps the FIRST completion forever [C10].
