    pub mod listener {
        use vstd::prelude::*;
        use crate::maybe_async::MaybeAsync;
        // the declaration is /repo's; the ghost log records every notification, in order (C13)
        pub trait Listener<T> {
            spec fn log(&self) -> Seq<T>;
//@fn rodbus/src/client/listener.rs | trait Listener::update | tags=C13 | nobody
//@|    ensures final(self).log() == old(self).log().push(_value),
        }
//@item rodbus/src/client/listener.rs | ClientState | derive=Copy,Clone
//@item rodbus/src/client/listener.rs | PortState | derive=Copy,Clone

        // ---- C13: the legal connection life-cycle, as an automaton over the states the listener observes ----
        pub open spec fn legal_step(a: ClientState, b: ClientState) -> bool {
            match a {
                ClientState::Disabled => b is Connecting || b is Shutdown,
                // Connected only directly after Connecting; a wait state after a failed connect; Disabled after a disable
                ClientState::Connecting => b is Connected || b is WaitAfterFailedConnect || b is Disabled || b is Shutdown,
                ClientState::Connected => b is WaitAfterDisconnect || b is Disabled || b is Shutdown,
                ClientState::WaitAfterFailedConnect(_) => b is Connecting || b is Disabled || b is Shutdown,
                ClientState::WaitAfterDisconnect(_) => b is Connecting || b is Disabled || b is Shutdown,
                ClientState::Shutdown => false,     // Shutdown is last
            }
        }
        pub open spec fn legal(log: Seq<ClientState>) -> bool {
            (log.len() > 0 ==> log[0] is Disabled)              // Disabled first
            && forall|i: int| 0 <= i < log.len() - 1 ==> legal_step(#[trigger] log[i], log[i + 1])
        }
        pub proof fn lemma_legal_push(log: Seq<ClientState>, s: ClientState)
            requires legal(log), log.len() > 0 ==> legal_step(log.last(), s), log.len() == 0 ==> s is Disabled,
            ensures legal(log.push(s)),
        {
            let l2 = log.push(s);
            assert forall|i: int| 0 <= i < l2.len() - 1 implies legal_step(#[trigger] l2[i], l2[i + 1]) by {
                if i < log.len() - 1 { assert(l2[i] == log[i] && l2[i + 1] == log[i + 1]); }
            }
        }
        pub open spec fn port_step(a: PortState, b: PortState) -> bool {
            match a {
                PortState::Disabled => b is Open || b is Wait || b is Shutdown,
                PortState::Open => b is Wait || b is Disabled || b is Shutdown,
                PortState::Wait(_) => b is Open || b is Wait || b is Disabled || b is Shutdown,
                PortState::Shutdown => false,
            }
        }
        pub open spec fn port_legal(log: Seq<PortState>) -> bool {
            (log.len() > 0 ==> log[0] is Disabled)
            && forall|i: int| 0 <= i < log.len() - 1 ==> port_step(#[trigger] log[i], log[i + 1])
        }
        pub proof fn lemma_port_legal_push(log: Seq<PortState>, s: PortState)
            requires port_legal(log), log.len() > 0 ==> port_step(log.last(), s), log.len() == 0 ==> s is Disabled,
            ensures port_legal(log.push(s)),
        {
            let l2 = log.push(s);
            assert forall|i: int| 0 <= i < l2.len() - 1 implies port_step(#[trigger] l2[i], l2[i + 1]) by {
                if i < log.len() - 1 { assert(l2[i] == log[i] && l2[i + 1] == log[i + 1]); }
            }
        }
    }
