// ---- shim of the `scursor` crate (trusted model of its documented behaviour; cross-checked against the real crate by the Kani
// conformance harnesses, and every Kani harness of rodbus functions runs on the REAL scursor) ----
use vstd::prelude::*;
use vstd::slice::slice_subrange;

pub struct ReadError;
pub struct Count { pub v: usize }
impl Count { pub fn get(self) -> (r: usize) ensures r == self.v, { self.v } }
pub struct TrailingBytes { pub count: Count }

// a read cursor over a byte slice: `rest` = the bytes not yet consumed
pub struct ReadCursor<'a> { pub input: &'a [u8], pub pos: usize }
impl<'a> ReadCursor<'a> {
    pub open spec fn wf(&self) -> bool { self.pos <= self.input@.len() }
    pub open spec fn rest(&self) -> Seq<u8> { self.input@.subrange(self.pos as int, self.input@.len() as int) }

    pub fn new(input: &'a [u8]) -> (r: Self) ensures r.wf(), r.rest() == input@, { Self { pos: 0, input } }

    pub fn read_u8(&mut self) -> (r: Result<u8, ReadError>)
        requires old(self).wf(),
        ensures final(self).wf(), final(self).input == old(self).input,
            r is Ok <==> old(self).rest().len() >= 1,
            r is Ok ==> r->Ok_0 == old(self).rest()[0] && final(self).rest() == old(self).rest().subrange(1, old(self).rest().len() as int),
            r is Err ==> final(self).rest() == old(self).rest(),
    {
        if self.pos < self.input.len() { let v = self.input[self.pos]; self.pos = self.pos + 1; Ok(v) } else { Err(ReadError) }
    }
    pub fn read_u16_be(&mut self) -> (r: Result<u16, ReadError>)
        requires old(self).wf(),
        ensures final(self).wf(), final(self).input == old(self).input,
            r is Ok <==> old(self).rest().len() >= 2,
            r is Ok ==> r->Ok_0 as int == old(self).rest()[0] as int * 256 + old(self).rest()[1] as int
                && final(self).rest() == old(self).rest().subrange(2, old(self).rest().len() as int),
            r is Err ==> final(self).rest() == old(self).rest(),
    {
        if self.input.len() - self.pos >= 2 {
            let hi = self.input[self.pos] as u16; let lo = self.input[self.pos + 1] as u16;
            self.pos = self.pos + 2;
            assert((hi << 8) | lo == hi * 256 + lo) by (bit_vector) requires hi < 256, lo < 256;
            Ok((hi << 8) | lo)
        } else { Err(ReadError) }
    }
    pub fn read_bytes(&mut self, count: usize) -> (r: Result<&'a [u8], ReadError>)
        requires old(self).wf(),
        ensures final(self).wf(), final(self).input == old(self).input,
            r is Ok <==> count <= old(self).rest().len(),
            r is Ok ==> r->Ok_0@ == old(self).rest().subrange(0, count as int)
                && final(self).rest() == old(self).rest().subrange(count as int, old(self).rest().len() as int),
            r is Err ==> final(self).rest() == old(self).rest(),
    {
        if count <= self.input.len() - self.pos {
            let ret = slice_subrange(self.input, self.pos, self.pos + count);
            self.pos = self.pos + count;
            Ok(ret)
        } else { Err(ReadError) }
    }
    pub fn expect_empty(&self) -> (r: Result<(), TrailingBytes>)
        requires self.wf(),
        ensures r is Ok <==> self.rest().len() == 0,
            r is Err ==> r->Err_0.count.v == self.rest().len(),
    {
        if self.input.len() - self.pos == 0 { Ok(()) } else { Err(TrailingBytes { count: Count { v: self.input.len() - self.pos } }) }
    }
    pub fn remaining(&self) -> (r: usize) requires self.wf(), ensures r == self.rest().len(), { self.input.len() - self.pos }
    pub fn is_empty(&self) -> (r: bool) requires self.wf(), ensures r == (self.rest().len() == 0), { self.input.len() - self.pos == 0 }
}

pub enum WriteError {
    NumericOverflow,
    WriteOverflow { remaining: usize, written: usize },
    BadSeek { length: usize, pos: usize },
}

// a write cursor over a mutable byte slice.  `buf()` is the whole underlying buffer, `pos` the write position;
// the last clause of every contract says the cursor keeps writing into the same borrowed memory (prophecy of the &mut)
pub struct WriteCursor<'a> { pub dest: &'a mut [u8], pub pos: usize }
impl<'a> WriteCursor<'a> {
    pub open spec fn wf(&self) -> bool { self.pos <= self.dest@.len() }
    pub open spec fn buf(&self) -> Seq<u8> { self.dest@ }
    pub open spec fn cap(&self) -> nat { self.dest@.len() }

    pub fn new(dest: &'a mut [u8]) -> (r: WriteCursor<'a>)
        ensures r.pos == 0, r.wf(), r.buf() == old(dest)@, final(r.dest)@ == final(dest)@,
    { WriteCursor { dest, pos: 0 } }

    pub fn position(&self) -> (r: usize) ensures r == self.pos, { self.pos }

    pub fn get(&self, range: core::ops::Range<usize>) -> (r: Option<&[u8]>)
        ensures r is Some <==> (range.start <= range.end && range.end <= self.cap()),
            r is Some ==> r->Some_0@ == self.buf().subrange(range.start as int, range.end as int),
    {
        if range.start <= range.end && range.end <= self.dest.len() { Some(slice_subrange(self.dest, range.start, range.end)) } else { None }
    }

    pub fn skip(&mut self, count: usize) -> (r: Result<(), WriteError>)
        requires old(self).wf(),
        ensures final(self).wf(), final(self).buf() == old(self).buf(), final(final(self).dest)@ == final(old(self).dest)@,
            r is Ok <==> old(self).pos + count <= old(self).cap(),
            r is Ok ==> final(self).pos == old(self).pos + count,
            r is Err ==> final(self).pos == old(self).pos,
    {
        if count <= self.dest.len() - self.pos { self.pos = self.pos + count; Ok(()) } else { Err(WriteError::NumericOverflow) }
    }
    pub fn seek_to(&mut self, pos: usize) -> (r: Result<(), WriteError>)
        ensures final(self).buf() == old(self).buf(), final(final(self).dest)@ == final(old(self).dest)@,
            r is Ok <==> pos <= old(self).cap(),
            r is Ok ==> final(self).pos == pos,
            r is Err ==> final(self).pos == old(self).pos,
    {
        if pos <= self.dest.len() { self.pos = pos; Ok(()) } else { Err(WriteError::BadSeek { length: self.dest.len(), pos }) }
    }
    pub fn write_u8(&mut self, value: u8) -> (r: Result<(), WriteError>)
        requires old(self).wf(),
        ensures final(self).wf(), final(self).cap() == old(self).cap(), final(final(self).dest)@ == final(old(self).dest)@,
            r is Ok <==> old(self).pos < old(self).cap(),
            r is Ok ==> final(self).pos == old(self).pos + 1 && final(self).buf() == old(self).buf().update(old(self).pos as int, value),
            r is Err ==> final(self).pos == old(self).pos && final(self).buf() == old(self).buf(),   // a failed write has no effect
    {
        if self.pos < self.dest.len() { self.dest[self.pos] = value; self.pos = self.pos + 1; Ok(()) }
        else { Err(WriteError::WriteOverflow { remaining: 0, written: 1 }) }
    }
    pub fn write_u16_be(&mut self, value: u16) -> (r: Result<(), WriteError>)
        requires old(self).wf(),
        ensures final(self).wf(), final(self).cap() == old(self).cap(), final(final(self).dest)@ == final(old(self).dest)@,
            r is Ok <==> old(self).pos + 2 <= old(self).cap(),
            r is Ok ==> final(self).pos == old(self).pos + 2
                && final(self).buf() == old(self).buf().update(old(self).pos as int, (value / 256) as u8).update(old(self).pos + 1, (value % 256) as u8),
            r is Err ==> final(self).pos == old(self).pos && final(self).buf() == old(self).buf(),
    {
        if self.dest.len() - self.pos >= 2 {
            self.dest[self.pos] = (value / 256) as u8; self.dest[self.pos + 1] = (value % 256) as u8; self.pos = self.pos + 2; Ok(())
        } else { Err(WriteError::WriteOverflow { remaining: self.dest.len() - self.pos, written: 2 }) }
    }
    pub fn write_u16_le(&mut self, value: u16) -> (r: Result<(), WriteError>)
        requires old(self).wf(),
        ensures final(self).wf(), final(self).cap() == old(self).cap(), final(final(self).dest)@ == final(old(self).dest)@,
            r is Ok <==> old(self).pos + 2 <= old(self).cap(),
            r is Ok ==> final(self).pos == old(self).pos + 2
                && final(self).buf() == old(self).buf().update(old(self).pos as int, (value % 256) as u8).update(old(self).pos + 1, (value / 256) as u8),
            r is Err ==> final(self).pos == old(self).pos && final(self).buf() == old(self).buf(),
    {
        if self.dest.len() - self.pos >= 2 {
            self.dest[self.pos] = (value % 256) as u8; self.dest[self.pos + 1] = (value / 256) as u8; self.pos = self.pos + 2; Ok(())
        } else { Err(WriteError::WriteOverflow { remaining: self.dest.len() - self.pos, written: 2 }) }
    }
}
// "cursor `n` extends cursor `o` by exactly the bytes `out`" - the frame condition of every serializer
pub open spec fn appended(o: &WriteCursor, n: &WriteCursor, out: Seq<u8>) -> bool {
    n.wf() && n.cap() == o.cap() && n.pos == o.pos + out.len()
    && (forall|i: int| 0 <= i < o.pos ==> #[trigger] n.buf()[i] == o.buf()[i])
    && (forall|i: int| 0 <= i < out.len() ==> #[trigger] n.buf()[o.pos + i] == out[i])
}
// updating a byte outside [a, b) does not change that sub-range (pure sequence fact)
pub broadcast proof fn lemma_subrange_update_outside(s: Seq<u8>, i: int, v: u8, a: int, b: int)
    requires 0 <= a <= b <= s.len(), 0 <= i < s.len(), i < a || b <= i,
    ensures #[trigger] s.update(i, v).subrange(a, b) == s.subrange(a, b)
{
    assert(s.update(i, v).subrange(a, b) =~= s.subrange(a, b));
}
//@trusted scursor::{ReadCursor,WriteCursor}: hand-written model with the documented semantics (sequence reads; writes fail without effect when space is short; seek/skip bounded by the buffer) - conformance to the real crate: Kani harnesses k_scursor_* (bounded buffers)
