use vstd::prelude::*;
use std::collections::hash_map::Entry;
use std::collections::HashMap;
use crate::ffi;

//@item ffi/rodbus-ffi/src/database.rs | Database | derive=

impl Database {
//@fn ffi/rodbus-ffi/src/database.rs | Database::new | tags=C19
//@|    ensures r.coils@.len() == 0, r.discrete_input@.len() == 0, r.holding_registers@.len() == 0, r.input_registers@.len() == 0,
}

// [C19] one map per point type: add succeeds only for absent indices ...
//@fn ffi/rodbus-ffi/src/database.rs | add_entry | tags=C19
//@|    ensures r == !old(map)@.contains_key(index),
//@|        r ==> final(map)@ == old(map)@.insert(index, value),
//@|        !r ==> final(map)@ == old(map)@,
// ... get fails for absent ones ...
//@fn ffi/rodbus-ffi/src/database.rs | get_entry | tags=C19
//@|    ensures final(map)@ == old(map)@,
//@|        old(map)@.contains_key(index) ==> r == Ok::<T, ffi::ParamError>(old(map)@[index]),
//@|        !old(map)@.contains_key(index) ==> r == Err::<T, ffi::ParamError>(ffi::ParamError::InvalidIndex),
// ... update only for present ones
//@fn ffi/rodbus-ffi/src/database.rs | update_entry | tags=C19
//@|    ensures r == old(map)@.contains_key(index),
//@|        r ==> final(map)@ == old(map)@.insert(index, value),
//@|        !r ==> final(map)@ == old(map)@,
