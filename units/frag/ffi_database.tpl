use vstd::prelude::*;
use std::collections::hash_map::Entry;
use std::collections::HashMap;
use crate::ffi;

//@item ffi/rodbus-ffi/src/database.rs | Database | derive=

impl Database {
//@fn ffi/rodbus-ffi/src/database.rs | Database::new | tags=C19
//@|    ensures r.coils@.len() == 0, r.discrete_input@.len() == 0, r.holding_registers@.len() == 0, r.input_registers@.len() == 0,
}

// [C19] one map per point type: add succeeds only for absent indices ...
//@fn ffi/rodbus-ffi/src/database.rs | add_entry | tags=C19
//@|    ensures r == !old(map)@.contains_key(index),
//@|        r ==> final(map)@ == old(map)@.insert(index, value),
//@|        !r ==> final(map)@ == old(map)@,
// ... get fails for absent ones ...
//@fn ffi/rodbus-ffi/src/database.rs | get_entry | tags=C19
//@|    ensures final(map)@ == old(map)@,
//@|        old(map)@.contains_key(index) ==> r == Ok::<T, ffi::ParamError>(old(map)@[index]),
//@|        !old(map)@.contains_key(index) ==> r == Err::<T, ffi::ParamError>(ffi::ParamError::InvalidIndex),
// ... update only for present ones
//@fn ffi/rodbus-ffi/src/database.rs | update_entry | tags=C19
//@|    ensures r == old(map)@.contains_key(index),
//@|        r ==> final(map)@ == old(map)@.insert(index, value),
//@|        !r ==> final(map)@ == old(map)@,

// [C19] the C entry points: each one operates on the map of ITS point type and leaves the three others untouched
//@fn ffi/rodbus-ffi/src/database.rs | database_add_coil | tags=C19 | r24m
//@|    ensures r == !old(database).coils@.contains_key(index), final(database).discrete_input@ == old(database).discrete_input@ && final(database).holding_registers@ == old(database).holding_registers@ && final(database).input_registers@ == old(database).input_registers@,
//@|        r ==> final(database).coils@ == old(database).coils@.insert(index, value), !r ==> final(database).coils@ == old(database).coils@,
//@fn ffi/rodbus-ffi/src/database.rs | database_get_coil | tags=C19 | r24m
//@|    ensures final(database).coils@ == old(database).coils@, final(database).discrete_input@ == old(database).discrete_input@ && final(database).holding_registers@ == old(database).holding_registers@ && final(database).input_registers@ == old(database).input_registers@,
//@|        old(database).coils@.contains_key(index) ==> r == Ok::<bool, ffi::ParamError>(old(database).coils@[index]),
//@|        !old(database).coils@.contains_key(index) ==> r == Err::<bool, ffi::ParamError>(ffi::ParamError::InvalidIndex),
//@fn ffi/rodbus-ffi/src/database.rs | database_update_coil | tags=C19 | r24m
//@|    ensures r == old(database).coils@.contains_key(index), final(database).discrete_input@ == old(database).discrete_input@ && final(database).holding_registers@ == old(database).holding_registers@ && final(database).input_registers@ == old(database).input_registers@,
//@|        r ==> final(database).coils@ == old(database).coils@.insert(index, value), !r ==> final(database).coils@ == old(database).coils@,
//@fn ffi/rodbus-ffi/src/database.rs | database_delete_coil | tags=C19 | r24m
//@|    ensures r == old(database).coils@.contains_key(index), final(database).discrete_input@ == old(database).discrete_input@ && final(database).holding_registers@ == old(database).holding_registers@ && final(database).input_registers@ == old(database).input_registers@,
//@|        final(database).coils@ == old(database).coils@.remove(index),
//@fn ffi/rodbus-ffi/src/database.rs | database_add_discrete_input | tags=C19 | r24m
//@|    ensures r == !old(database).discrete_input@.contains_key(index), final(database).coils@ == old(database).coils@ && final(database).holding_registers@ == old(database).holding_registers@ && final(database).input_registers@ == old(database).input_registers@,
//@|        r ==> final(database).discrete_input@ == old(database).discrete_input@.insert(index, value), !r ==> final(database).discrete_input@ == old(database).discrete_input@,
//@fn ffi/rodbus-ffi/src/database.rs | database_get_discrete_input | tags=C19 | r24m
//@|    ensures final(database).discrete_input@ == old(database).discrete_input@, final(database).coils@ == old(database).coils@ && final(database).holding_registers@ == old(database).holding_registers@ && final(database).input_registers@ == old(database).input_registers@,
//@|        old(database).discrete_input@.contains_key(index) ==> r == Ok::<bool, ffi::ParamError>(old(database).discrete_input@[index]),
//@|        !old(database).discrete_input@.contains_key(index) ==> r == Err::<bool, ffi::ParamError>(ffi::ParamError::InvalidIndex),
//@fn ffi/rodbus-ffi/src/database.rs | database_update_discrete_input | tags=C19 | r24m
//@|    ensures r == old(database).discrete_input@.contains_key(index), final(database).coils@ == old(database).coils@ && final(database).holding_registers@ == old(database).holding_registers@ && final(database).input_registers@ == old(database).input_registers@,
//@|        r ==> final(database).discrete_input@ == old(database).discrete_input@.insert(index, value), !r ==> final(database).discrete_input@ == old(database).discrete_input@,
//@fn ffi/rodbus-ffi/src/database.rs | database_delete_discrete_input | tags=C19 | r24m
//@|    ensures r == old(database).discrete_input@.contains_key(index), final(database).coils@ == old(database).coils@ && final(database).holding_registers@ == old(database).holding_registers@ && final(database).input_registers@ == old(database).input_registers@,
//@|        final(database).discrete_input@ == old(database).discrete_input@.remove(index),
//@fn ffi/rodbus-ffi/src/database.rs | database_add_holding_register | tags=C19 | r24m
//@|    ensures r == !old(database).holding_registers@.contains_key(index), final(database).coils@ == old(database).coils@ && final(database).discrete_input@ == old(database).discrete_input@ && final(database).input_registers@ == old(database).input_registers@,
//@|        r ==> final(database).holding_registers@ == old(database).holding_registers@.insert(index, value), !r ==> final(database).holding_registers@ == old(database).holding_registers@,
//@fn ffi/rodbus-ffi/src/database.rs | database_get_holding_register | tags=C19 | r24m
//@|    ensures final(database).holding_registers@ == old(database).holding_registers@, final(database).coils@ == old(database).coils@ && final(database).discrete_input@ == old(database).discrete_input@ && final(database).input_registers@ == old(database).input_registers@,
//@|        old(database).holding_registers@.contains_key(index) ==> r == Ok::<u16, ffi::ParamError>(old(database).holding_registers@[index]),
//@|        !old(database).holding_registers@.contains_key(index) ==> r == Err::<u16, ffi::ParamError>(ffi::ParamError::InvalidIndex),
//@fn ffi/rodbus-ffi/src/database.rs | database_update_holding_register | tags=C19 | r24m
//@|    ensures r == old(database).holding_registers@.contains_key(index), final(database).coils@ == old(database).coils@ && final(database).discrete_input@ == old(database).discrete_input@ && final(database).input_registers@ == old(database).input_registers@,
//@|        r ==> final(database).holding_registers@ == old(database).holding_registers@.insert(index, value), !r ==> final(database).holding_registers@ == old(database).holding_registers@,
//@fn ffi/rodbus-ffi/src/database.rs | database_delete_holding_register | tags=C19 | r24m
//@|    ensures r == old(database).holding_registers@.contains_key(index), final(database).coils@ == old(database).coils@ && final(database).discrete_input@ == old(database).discrete_input@ && final(database).input_registers@ == old(database).input_registers@,
//@|        final(database).holding_registers@ == old(database).holding_registers@.remove(index),
//@fn ffi/rodbus-ffi/src/database.rs | database_add_input_register | tags=C19 | r24m
//@|    ensures r == !old(database).input_registers@.contains_key(index), final(database).coils@ == old(database).coils@ && final(database).discrete_input@ == old(database).discrete_input@ && final(database).holding_registers@ == old(database).holding_registers@,
//@|        r ==> final(database).input_registers@ == old(database).input_registers@.insert(index, value), !r ==> final(database).input_registers@ == old(database).input_registers@,
//@fn ffi/rodbus-ffi/src/database.rs | database_get_input_register | tags=C19 | r24m
//@|    ensures final(database).input_registers@ == old(database).input_registers@, final(database).coils@ == old(database).coils@ && final(database).discrete_input@ == old(database).discrete_input@ && final(database).holding_registers@ == old(database).holding_registers@,
//@|        old(database).input_registers@.contains_key(index) ==> r == Ok::<u16, ffi::ParamError>(old(database).input_registers@[index]),
//@|        !old(database).input_registers@.contains_key(index) ==> r == Err::<u16, ffi::ParamError>(ffi::ParamError::InvalidIndex),
//@fn ffi/rodbus-ffi/src/database.rs | database_update_input_register | tags=C19 | r24m
//@|    ensures r == old(database).input_registers@.contains_key(index), final(database).coils@ == old(database).coils@ && final(database).discrete_input@ == old(database).discrete_input@ && final(database).holding_registers@ == old(database).holding_registers@,
//@|        r ==> final(database).input_registers@ == old(database).input_registers@.insert(index, value), !r ==> final(database).input_registers@ == old(database).input_registers@,
//@fn ffi/rodbus-ffi/src/database.rs | database_delete_input_register | tags=C19 | r24m
//@|    ensures r == old(database).input_registers@.contains_key(index), final(database).coils@ == old(database).coils@ && final(database).discrete_input@ == old(database).discrete_input@ && final(database).holding_registers@ == old(database).holding_registers@,
//@|        final(database).input_registers@ == old(database).input_registers@.remove(index),
