// ---- tokio channel shims (trusted; tokio is outside the verifier's reach) ----
use vstd::prelude::*;
pub mod sync {
    pub mod mpsc {
        use vstd::prelude::*;
        // a sender is identified by the ghost id of its channel
        pub struct Sender<T> { pub ghost chan: int, pub _p: core::marker::PhantomData<T> }
        pub struct Receiver<T> { pub ghost chan: int, pub _p: core::marker::PhantomData<T> }
        impl<T> Receiver<T> {
            // the environment decides what arrives and when; None = every sender has been dropped
            #[verifier::external_body]
            pub async fn recv(&mut self) -> (r: Option<T>) ensures final(self).chan == old(self).chan, { unimplemented!() }
        }
    }
}
//@trusted tokio::sync::mpsc::{Sender,Receiver}: opaque handles identified by a ghost channel id; delivery / drop propagation not modelled
