// ---- tokio channel shims (trusted; tokio is outside the verifier's reach) ----
use vstd::prelude::*;
pub mod sync {
    pub mod mpsc {
        use vstd::prelude::*;
        // a sender is identified by the ghost id of its channel
        pub struct Sender<T> { pub ghost chan: int, pub _p: core::marker::PhantomData<T> }
        pub struct Receiver<T> { pub ghost chan: int, pub _p: core::marker::PhantomData<T> }
    }
}
//@trusted tokio::sync::mpsc::{Sender,Receiver}: opaque handles identified by a ghost channel id; delivery / drop propagation not modelled
