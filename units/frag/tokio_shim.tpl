// ---- tokio channel shims (trusted; tokio is outside the verifier's reach) ----
use vstd::prelude::*;
pub mod sync {
    pub mod mpsc {
        use vstd::prelude::*;
        // a sender is identified by the ghost id of its channel
        pub struct Sender<T> { pub ghost chan: int, pub _p: core::marker::PhantomData<T> }
        pub struct Receiver<T> { pub ghost chan: int, pub _p: core::marker::PhantomData<T> }
        #[verifier::external_body]
        pub fn channel<T>(buffer: usize) -> (r: (Sender<T>, Receiver<T>)) ensures !r.1.all_senders_dropped(), { unimplemented!() }
        // what is known about every value taken out of a queue (the invariant the senders maintain; see client::message::axiom_queue_inv)
        pub uninterp spec fn queue_inv<T>(v: T) -> bool;
        impl<T> Receiver<T> {
            // true once every Sender of this channel has been dropped (it stays false while the owner of the receiver keeps a sender)
            pub uninterp spec fn all_senders_dropped(&self) -> bool;
            // the environment decides what arrives and when; None = every sender has been dropped
            #[verifier::external_body]
            pub async fn recv(&mut self) -> (r: Option<T>)
                ensures final(self).chan == old(self).chan, r matches Some(v) ==> queue_inv(v),
                    r is None ==> old(self).all_senders_dropped(),
                    !old(self).all_senders_dropped() ==> !final(self).all_senders_dropped(),
            { unimplemented!() }
        }
    }
}
//@trusted tokio::sync::mpsc::{Sender,Receiver}: opaque handles identified by a ghost channel id; delivery / drop propagation not modelled
pub mod time {
    use vstd::prelude::*;
    // wall-clock time is not modelled: an Instant is an opaque point in time, timers fire no earlier than their deadline (assumed)
    pub struct Instant { pub ghost t: int }
    impl Instant {
        #[verifier::external_body]
        pub fn now() -> (r: Instant) { unimplemented!() }
    }
    impl vstd::std_specs::ops::AddSpecImpl<std::time::Duration> for Instant {
        open spec fn obeys_add_spec() -> bool { false }
        open spec fn add_req(self, rhs: std::time::Duration) -> bool { true }
        open spec fn add_spec(self, rhs: std::time::Duration) -> Instant { self }
    }
    impl core::ops::Add<std::time::Duration> for Instant {
        type Output = Instant;
        #[verifier::external_body]
        fn add(self, rhs: std::time::Duration) -> (r: Instant) ensures r.t == self.t + crate::nanos(rhs) { unimplemented!() }
    }
    #[verifier::external_body]
    pub async fn sleep_until(deadline: Instant) { unimplemented!() }
}
//@trusted tokio::time::{Instant, sleep_until}: opaque; a timer fires no earlier than its deadline (not modelled)
//@include-if accept frag/tokio_net_accept.tpl
