// ---- tokio channel shims (trusted; tokio is outside the verifier's reach) ----
use vstd::prelude::*;
pub mod sync {
    pub mod mpsc {
        use vstd::prelude::*;
        // a sender is identified by the ghost id of its channel
        pub struct Sender<T> { pub ghost chan: int, pub _p: core::marker::PhantomData<T> }
        pub struct Receiver<T> { pub ghost chan: int, pub _p: core::marker::PhantomData<T> }
        #[verifier::external_body]
        pub fn channel<T>(buffer: usize) -> (r: (Sender<T>, Receiver<T>)) ensures !r.1.all_senders_dropped(), r.0.chan == r.1.chan, { unimplemented!() }
        // what is known about every value taken out of a queue (the invariant the senders maintain; see client::message::axiom_queue_inv)
        pub uninterp spec fn queue_inv<T>(v: T) -> bool;
        pub mod error {
            pub struct SendError<T> { pub v: T }
            pub enum TrySendError<T> { Full(T), Closed(T) }
        }
        pub use error::{SendError, TrySendError};
        impl<T> Clone for Sender<T> {
            #[verifier::external_body]
            fn clone(&self) -> (r: Self) ensures r.chan == self.chan { unimplemented!() }
        }
        impl<T> Sender<T> {
            // `v` has been put into the channel's queue at some point
            pub uninterp spec fn delivered(&self, v: T) -> bool;
            // the receiving half has been closed or dropped
            pub uninterp spec fn receiver_gone(&self) -> bool;
            // waits for capacity: fails only when the receiver is gone. Whatever is put into a queue satisfies that queue's invariant
            // (`queue_inv`, which `recv` hands to the consumer): assume / guarantee across the channel
            #[verifier::external_body]
            pub async fn send(&self, v: T) -> (r: Result<(), SendError<T>>)
                requires queue_inv(v),
                ensures r is Ok ==> self.delivered(v), r is Err ==> self.receiver_gone(),
            { unimplemented!() }
            // never waits: also fails when the queue is full
            #[verifier::external_body]
            pub fn try_send(&self, v: T) -> (r: Result<(), TrySendError<T>>)
                requires queue_inv(v),
                ensures r is Ok ==> self.delivered(v), r matches Err(TrySendError::Closed(_)) ==> self.receiver_gone(),
            { unimplemented!() }
        }
        impl<T> Receiver<T> {
            // true once every Sender of this channel has been dropped (it stays false while the owner of the receiver keeps a sender)
            pub uninterp spec fn all_senders_dropped(&self) -> bool;
            // the environment decides what arrives and when; None = every sender has been dropped
            #[verifier::external_body]
            pub async fn recv(&mut self) -> (r: Option<T>)
                ensures final(self).chan == old(self).chan, r matches Some(v) ==> queue_inv(v),
                    r is None ==> old(self).all_senders_dropped(),
                    !old(self).all_senders_dropped() ==> !final(self).all_senders_dropped(),
            { unimplemented!() }
        }
    }
    pub mod oneshot {
        use vstd::prelude::*;
        pub struct Sender<T> { pub ghost chan: int, pub _p: core::marker::PhantomData<T> }
        pub struct Receiver<T> { pub ghost chan: int, pub _p: core::marker::PhantomData<T> }
        pub mod error { pub struct RecvError { pub x: u8 } }
        #[verifier::external_body]
        pub fn channel<T>() -> (r: (Sender<T>, Receiver<T>)) ensures r.0.chan == r.1.chan { unimplemented!() }
        // awaiting the receiver yields the value the promise was completed with, or RecvError when the sender was dropped
        #[verifier::external]
        impl<T> core::future::Future for Receiver<T> {
            type Output = Result<T, error::RecvError>;
            fn poll(self: core::pin::Pin<&mut Self>, cx: &mut core::task::Context<'_>) -> core::task::Poll<Self::Output> { unimplemented!() }
        }
    }
}
//@trusted tokio::sync::oneshot: opaque (the value received is whatever the promise was completed with; not related to the promise in the contracts)
//@trusted tokio::sync::mpsc::{Sender,Receiver}: opaque handles identified by a ghost channel id; send().await fails only when the receiver is gone, try_send may also fail on a full queue; drop propagation not modelled
#[verifier::external_body]
pub fn spawn<F: core::future::Future>(f: F) { unimplemented!() }
//@trusted tokio::spawn: the future is run to completion on another task (scheduling not modelled; the JoinHandle is not used by the verified callers)
pub mod time {
    use vstd::prelude::*;
    // wall-clock time is not modelled: an Instant is an opaque point in time, timers fire no earlier than their deadline (assumed)
    #[derive(Clone, Copy)]
    pub struct Instant { pub ghost t: int }
    impl Instant {
        #[verifier::external_body]
        pub fn now() -> (r: Instant) { unimplemented!() }
    }
    impl vstd::std_specs::ops::AddSpecImpl<std::time::Duration> for Instant {
        open spec fn obeys_add_spec() -> bool { false }
        open spec fn add_req(self, rhs: std::time::Duration) -> bool { true }
        open spec fn add_spec(self, rhs: std::time::Duration) -> Instant { self }
    }
    impl core::ops::Add<std::time::Duration> for Instant {
        type Output = Instant;
        #[verifier::external_body]
        fn add(self, rhs: std::time::Duration) -> (r: Instant) ensures r.t == self.t + crate::nanos(rhs) { unimplemented!() }
    }
    #[verifier::external_body]
    pub async fn sleep_until(deadline: Instant) { unimplemented!() }

    pub mod error {
        pub struct Elapsed { pub x: u8 }
        impl Elapsed { pub fn new() -> Elapsed { Elapsed { x: 0 } } }
    }
    // R21: a function-local ghost clock (virtual time in nanoseconds). Time passes only at `.await`s; a timer is armed when its
    // future is created (tokio::time::sleep computes its deadline at creation, sleep_until takes it as given).
    pub struct Clock { pub ghost t: int }
    pub struct Timer { pub ghost at: int }
    impl Clock {
        #[verifier::external_body]
        pub fn start() -> (r: Clock) { unimplemented!() }
        #[verifier::external_body]
        pub fn now(&self) -> (r: Instant) ensures r.t == self.t { unimplemented!() }
        // an await on anything but a timer: an arbitrary, non-negative amount of time passes
        #[verifier::external_body]
        pub fn elapse(&mut self) ensures final(self).t >= old(self).t { unimplemented!() }
        #[verifier::external_body]
        pub fn timer_until(&self, deadline: Instant) -> (r: Timer) ensures r.at == deadline.t { unimplemented!() }
        #[verifier::external_body]
        pub fn timer_after(&self, d: std::time::Duration) -> (r: Timer) ensures r.at == self.t + crate::nanos(d) { unimplemented!() }
        // the timer arm of a select! wins: the clock reads the deadline (or is unchanged when the deadline has already passed)
        #[verifier::external_body]
        pub fn fire(&mut self, timer: &Timer) ensures final(self).t == (if old(self).t >= timer.at { old(self).t } else { timer.at }) { unimplemented!() }
        // another arm of the select! wins the race against `timer`: it completed no later than the timer would have fired
        #[verifier::external_body]
        pub fn won_against(&mut self, timer: &Timer)
            ensures final(self).t >= old(self).t, final(self).t <= (if old(self).t >= timer.at { old(self).t } else { timer.at }) { unimplemented!() }
    }
}
//@trusted tokio::time::{Instant, sleep_until}: opaque; a timer fires no earlier than its deadline (not modelled outside R21 functions)
//@trusted tokio::time virtual clock (R21: Clock/Timer): time passes only at awaits; a select! timer arm fires exactly at its deadline; an arm that wins against a timer completed no later than that deadline (tokio::select! race semantics, assumed)
//@include-if accept frag/tokio_net_accept.tpl
