use vstd::prelude::*;
use crate::error::*;
use crate::shims::scursor::ReadCursor;
use crate::be16;

//@item rodbus/src/types.rs | UnitId | structeq
//@item rodbus/src/types.rs | AddressRange | structeq
//@item rodbus/src/types.rs | ReadBitsRange
//@item rodbus/src/types.rs | ReadRegistersRange
//@item rodbus/src/types.rs | Indexed | enumeq
//@item rodbus/src/types.rs | BitIterator
//@item rodbus/src/types.rs | AddressIterator
//@item rodbus/src/types.rs | ChannelLoggingMode
//@item rodbus/src/types.rs | RegisterIterator

// ---- specification vocabulary (from the property statements) ----
// a range is valid iff it is non-empty and does not run past address 0xFFFF
pub open spec fn valid_range(start: u16, count: u16) -> bool {
    count != 0 && start as int + count as int <= 65536
}
// LSB-first bit numbering: bit b of a byte has the value 2^b
pub open spec fn spec_bit_of_byte(byte: u8, b: u8) -> bool { byte & (1u8 << b) != 0 }
pub open spec fn spec_bit(bytes: Seq<u8>, i: int) -> bool { spec_bit_of_byte(bytes[i / 8], (i % 8) as u8) }
// (the same thing in arithmetic, so that the bitwise definition cannot hide a different numbering)
pub proof fn lemma_bit_is_lsb_first(byte: u8, b: u8)
    requires b < 8
    ensures spec_bit_of_byte(byte, b) == ((byte >> b) & 1u8 == 1u8)
{
    assert((byte & (1u8 << b) != 0) == ((byte >> b) & 1u8 == 1u8)) by (bit_vector) requires b < 8;
}

impl ReadBitsRange {
//@fn rodbus/src/types.rs | ReadBitsRange::get | tags=C01,C03
//@|    ensures r == self.inner,
}
impl ReadRegistersRange {
//@fn rodbus/src/types.rs | ReadRegistersRange::get | tags=C01,C03
//@|    ensures r == self.inner,
}

impl<T> Indexed<T> {
//@fn rodbus/src/types.rs | Indexed<T>::new | tags=C02,C04
//@|    ensures r.index == index, r.value == value,
}

impl UnitId {
//@fn rodbus/src/types.rs | UnitId::new | tags=C01,C17
//@|    ensures r.value == value,
//@fn rodbus/src/types.rs | UnitId::broadcast | tags=C17
//@|    ensures r.value == 0,
//@fn rodbus/src/types.rs | UnitId::is_rtu_reserved | tags=C06
//@|    ensures r == (self.value >= 248),
}

//@fn rodbus/src/types.rs | coil_from_u16 | tags=C01,C02,C04
//@|    ensures value == 0xFF00 ==> r == Ok::<bool, AduParseError>(true),
//@|            value == 0x0000 ==> r == Ok::<bool, AduParseError>(false),
//@|            (value != 0xFF00 && value != 0) ==> r == Err::<bool, AduParseError>(AduParseError::UnknownCoilState(value)),
//@fn rodbus/src/types.rs | coil_to_u16 | tags=C01,C03
//@|    ensures r == (if value { 0xFF00u16 } else { 0u16 }),

impl AddressRange {
    pub open spec fn wf(&self) -> bool { valid_range(self.start, self.count) }

//@fn rodbus/src/types.rs | AddressRange::try_from | tags=C01,C02,C03,C07
//@|    ensures
//@|        r is Ok <==> valid_range(start, count),
//@|        r is Ok ==> r->Ok_0.start == start && r->Ok_0.count == count && r->Ok_0.wf(),
//@|        count == 0 ==> r == Err::<AddressRange, InvalidRange>(InvalidRange::CountOfZero),
//@|        (count != 0 && !valid_range(start, count)) ==> r == Err::<AddressRange, InvalidRange>(InvalidRange::AddressOverflow(start, count)),

//@fn rodbus/src/types.rs | AddressRange::to_std_range | tags=C07
//@|    ensures r.start == self.start as usize, r.end == self.start as usize + self.count as usize,

//@fn rodbus/src/types.rs | AddressRange::iter | tags=C01,C02,C07 | sub=impl Iterator<Item = u16>=>AddressIterator
//@|    requires self.wf(),
//@|    ensures r.current == self.start, r.remain == self.count, r.wf(),

// [C03] empty or address-overflowing ranges are rejected here too: the fields of AddressRange are public, so a value that did not come
// from try_from may reach the request API
//@fn rodbus/src/types.rs | AddressRange::of_read_bits | tags=C01,C03 | r10 r10id=0
//@|    ensures
//@|        r is Ok <==> self.wf() && self.count <= 2000,   // limit taken from the property text, not from constants.rs
//@|        r is Ok ==> r->Ok_0.inner == self,
//@|        (self.wf() && r is Err) ==> r->Err_0 == InvalidRange::CountTooLargeForType(self.count, 2000),

//@fn rodbus/src/types.rs | AddressRange::of_read_registers | tags=C01,C03 | r10 r10id=0
//@|    ensures
//@|        r is Ok <==> self.wf() && self.count <= 125,
//@|        r is Ok ==> r->Ok_0.inner == self,
//@|        (self.wf() && r is Err) ==> r->Err_0 == InvalidRange::CountTooLargeForType(self.count, 125),

//@fn rodbus/src/types.rs | AddressRange::limited_count | tags=C01,C03 | r10 r10id=0
//@|    ensures
//@|        r is Ok <==> self.wf() && self.count <= limit,
//@|        r is Ok ==> r->Ok_0 == self,
//@|        (self.wf() && r is Err) ==> r->Err_0 == InvalidRange::CountTooLargeForType(self.count, limit),
}

impl AddressIterator {
    // the addresses still to be produced do not run past 0xFFFF
    pub open spec fn wf(&self) -> bool { self.current as int + self.remain as int <= 65536 }

//@fn rodbus/src/types.rs | AddressIterator::new | tags=C01,C02
//@|    ensures r.current == current, r.remain == remain,

// R5: `impl Iterator for AddressIterator { fn next }` emitted as an inherent method (Verus forbids `requires` on trait impls);
// an inherent method shadows the trait method at every call site, so `it.next()` in the callers is unchanged.
//@fn rodbus/src/types.rs | Iterator for AddressIterator::next | tags=C01,C02,C07 | sub=Self::Item=>u16 | inherent
//@|    requires old(self).wf(),
//@|    ensures
//@|        final(self).wf(),
//@|        old(self).remain == 0 ==> r is None && *final(self) == *old(self),
//@|        old(self).remain > 0 ==> r == Some(old(self).current)
//@|            && final(self).remain == old(self).remain - 1
//@|            && final(self).current as int == (old(self).current as int + 1) % 65536,
}

impl<'a> RegisterIterator<'a> {
    // established by parse_all: a valid range, exactly 2*count bytes
    pub open spec fn wf(&self) -> bool {
        self.range.wf() && self.pos <= self.range.count && self.bytes@.len() as int == 2 * self.range.count as int
    }
    // the k-th register of the payload, big-endian, at address start+k
    pub open spec fn spec_item(&self, k: int) -> Indexed<u16> {
        Indexed { index: (self.range.start as int + k) as u16, value: be16(self.bytes@, 2 * k) as u16 }
    }
    // all values, in order (what the handler / the caller of the client API receives)
    pub open spec fn spec_values(&self) -> Seq<u16> { Seq::new(self.range.count as nat, |k: int| be16(self.bytes@, 2 * k) as u16) }

// exact-length parse: the body must be exactly 2*count bytes [C01,C04]
//@fn rodbus/src/types.rs | RegisterIterator<'a>::parse_all | tags=C01,C02,C04,C07 | r10
//@|    requires old(cursor).wf(),
//@|    ensures final(cursor).wf(),
//@|        r is Ok <==> old(cursor).rest().len() == 2 * range.count as int,
//@|        r is Ok ==> r->Ok_0.range == range && r->Ok_0.pos == 0 && r->Ok_0.bytes@ == old(cursor).rest() && (range.wf() ==> r->Ok_0.wf()),
//@|        r is Err ==> r->Err_0 is BadResponse,

// (slice pattern `Some([high, low])` is outside the Verus subset: the body is decided by Kani, harness k_register_iterator_next
//  [complete for every payload of 1..=125 registers and every position]; only the contract is used by Verus callers)
//@fn rodbus/src/types.rs | Iterator for RegisterIterator<'a>::next | tags=C02,C04,C07 | sub=Self::Item=>Indexed<u16> | inherent | ext_body
//@|    requires old(self).wf(),
//@|    ensures
//@|        final(self).wf(),
//@|        final(self).bytes@ == old(self).bytes@, final(self).range == old(self).range,
//@|        old(self).pos == old(self).range.count ==> r is None && final(self).pos == old(self).pos,
//@|        old(self).pos < old(self).range.count ==> r == Some(old(self).spec_item(old(self).pos as int))
//@|            && final(self).pos == old(self).pos + 1,
}

impl<'a> BitIterator<'a> {
    pub open spec fn spec_values(&self) -> Seq<bool> { Seq::new(self.range.count as nat, |k: int| spec_bit(self.bytes@, k)) }

// exact-length parse: the body must be exactly ceil(count/8) bytes [C01,C04]
//@fn rodbus/src/types.rs | BitIterator<'a>::parse_all | tags=C01,C02,C04,C07 | r10
//@|    requires old(cursor).wf(),
//@|    ensures final(cursor).wf(),
//@|        r is Ok <==> old(cursor).rest().len() == (range.count as int + 7) / 8,
//@|        r is Ok ==> r->Ok_0.range == range && r->Ok_0.pos == 0 && r->Ok_0.bytes@ == old(cursor).rest() && (range.wf() ==> r->Ok_0.wf()),
//@|        r is Err ==> r->Err_0 is BadResponse,

    // established by parse_all: a valid range, exactly ceil(count/8) bytes
    pub open spec fn wf(&self) -> bool {
        self.range.wf() && self.pos <= self.range.count
        && self.bytes@.len() as int == (self.range.count as int + 7) / 8
    }
    // the values still to be yielded, in order: (start+pos+k, bit pos+k of the body)
    pub open spec fn spec_item(&self, k: int) -> Indexed<bool> {
        Indexed { index: (self.range.start as int + k) as u16, value: spec_bit(self.bytes@, k) }
    }

//@fn rodbus/src/types.rs | Iterator for BitIterator<'a>::next | tags=C02,C04,C07 | sub=Self::Item=>Indexed<bool> | inherent
//@|    requires old(self).wf(),
//@|    ensures
//@|        final(self).wf(),
//@|        final(self).bytes@ == old(self).bytes@, final(self).range == old(self).range,
//@|        old(self).pos == old(self).range.count ==> r is None && final(self).pos == old(self).pos,
//@|        old(self).pos < old(self).range.count ==> r == Some(old(self).spec_item(old(self).pos as int))
//@|            && final(self).pos == old(self).pos + 1,
}
