use vstd::prelude::*;
use crate::common::traits::Parse;
use crate::error::*;
use crate::types::{coil_from_u16, AddressRange, Indexed, valid_range};
use crate::shims::scursor::ReadCursor;
use crate::be16;

impl Parse for AddressRange {
    // start and quantity, big-endian; the range must be non-empty and must not run past 0xFFFF [C01]
    open spec fn spec_parse(body: Seq<u8>) -> Option<Self> {
        if body.len() >= 4 && valid_range(be16(body, 0) as u16, be16(body, 2) as u16) {
            Some(AddressRange { start: be16(body, 0) as u16, count: be16(body, 2) as u16 })
        } else { None }
    }
//@fn rodbus/src/common/parse.rs | Parse for AddressRange::parse | tags=C01,C02,C04,C07 | r10
}
impl Parse for Indexed<bool> {
    // address and coil value; only 0xFF00 (on) and 0x0000 (off) are defined [C01]
    open spec fn spec_parse(body: Seq<u8>) -> Option<Self> {
        if body.len() >= 4 && (be16(body, 2) == 0xFF00 || be16(body, 2) == 0) {
            Some(Indexed { index: be16(body, 0) as u16, value: be16(body, 2) == 0xFF00 })
        } else { None }
    }
//@fn rodbus/src/common/parse.rs | Parse for Indexed<bool>::parse | tags=C01,C02,C04,C07 | r10
}
impl Parse for Indexed<u16> {
    open spec fn spec_parse(body: Seq<u8>) -> Option<Self> {
        if body.len() >= 4 { Some(Indexed { index: be16(body, 0) as u16, value: be16(body, 2) as u16 }) } else { None }
    }
//@fn rodbus/src/common/parse.rs | Parse for Indexed<u16>::parse | tags=C01,C02,C04,C07 | r10
}
