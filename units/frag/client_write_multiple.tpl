use vstd::prelude::*;
use crate::common::function::FunctionCode;
use crate::common::traits::{Parse, Serialize};
use crate::error::RequestError;
use crate::error::*;
use crate::types::{AddressRange, Indexed};
use crate::shims::scursor::{ReadCursor, WriteCursor};
use vstd::std_specs::iter::IteratorSpec;

//@item rodbus/src/client/requests/write_multiple.rs | WriteMultiple | derive=

impl<T> WriteMultiple<T> {
    // what `from` guarantees and every other function relies on: the range covers exactly the values
    pub open spec fn wf(&self) -> bool { self.range.wf() && self.range.count as int == self.values@.len() }

// [C03] empty or address-overflowing collections are rejected at construction
//@fn rodbus/src/client/requests/write_multiple.rs | WriteMultiple<T>::from | tags=C03,C07
//@|    ensures
//@|        r is Ok <==> (1 <= values@.len() <= 65535 && start as int + values@.len() <= 65536),
//@|        r is Ok ==> r->Ok_0.range.start == start && r->Ok_0.values@ == values@ && r->Ok_0.wf(),
}

// ---- C07 / C20: the iterator the client's request decoding (logging) walks a write-multiple request with: one (address, value)
// pair per value, addresses counted from the start of the range without overflow (the range covers exactly the values)
//@item rodbus/src/client/requests/write_multiple.rs | WriteMultipleIterator
impl<'a, T> WriteMultipleIterator<'a, T> {
    #[verifier::prophetic]
    pub open spec fn wf(&self) -> bool {
        self.range.wf() && self.pos <= self.range.count && self.iter.remaining().len() == self.range.count - self.pos
    }
//@fn rodbus/src/client/requests/write_multiple.rs | WriteMultipleIterator<'a,T>::new | tags=C07,C20
//@|    requires range.wf(), iter.remaining().len() == range.count as int,
//@|    ensures r.wf(), r.pos == 0, r.range == range, r.iter.remaining() == iter.remaining(),
}
impl<T: Copy> WriteMultipleIterator<'_, T> {
//@fn rodbus/src/client/requests/write_multiple.rs | Iterator for WriteMultipleIterator<'_,T>::next | tags=C07,C20 | inherent | sub=Self::Item=>Indexed<T>
//@|    requires old(self).wf(),
//@|    ensures final(self).wf(), final(self).range == old(self).range,
//@|        old(self).pos == old(self).range.count ==> r is None && final(self).pos == old(self).pos,
//@|        old(self).pos < old(self).range.count ==> final(self).pos == old(self).pos + 1 && r is Some
//@|            && r->0.index as int == old(self).range.start + old(self).pos && r->0.value == *old(self).iter.remaining()[0],
//@fn rodbus/src/client/requests/write_multiple.rs | Iterator for WriteMultipleIterator<'_,T>::size_hint | tags=C07 | inherent
//@|    requires self.wf(),
}
impl<T> WriteMultiple<T> {
//@fn rodbus/src/client/requests/write_multiple.rs | WriteMultiple<T>::iter | tags=C07,C20
//@|    requires self.wf(),
//@|    ensures r.wf(), r.pos == 0, r.range == self.range,
}
