use vstd::prelude::*;
use crate::common::function::FunctionCode;
use crate::common::traits::{Parse, Serialize};
use crate::error::RequestError;
use crate::error::*;
use crate::types::{AddressRange, Indexed};
use crate::shims::scursor::{ReadCursor, WriteCursor};

//@item rodbus/src/client/requests/write_multiple.rs | WriteMultiple | derive=

impl<T> WriteMultiple<T> {
    // what `from` guarantees and every other function relies on: the range covers exactly the values
    pub open spec fn wf(&self) -> bool { self.range.wf() && self.range.count as int == self.values@.len() }

// [C03] empty or address-overflowing collections are rejected at construction
//@fn rodbus/src/client/requests/write_multiple.rs | WriteMultiple<T>::from | tags=C03,C07
//@|    ensures
//@|        r is Ok <==> (1 <= values@.len() <= 65535 && start as int + values@.len() <= 65536),
//@|        r is Ok ==> r->Ok_0.range.start == start && r->Ok_0.values@ == values@ && r->Ok_0.wf(),
}
