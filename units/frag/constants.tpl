    pub mod coil {
//@item rodbus/src/constants.rs | coil::ON
//@item rodbus/src/constants.rs | coil::OFF
    }
    pub mod limits {
//@item rodbus/src/constants.rs | limits::MAX_READ_COILS_COUNT
//@item rodbus/src/constants.rs | limits::MAX_READ_REGISTERS_COUNT
//@item rodbus/src/constants.rs | limits::MAX_WRITE_COILS_COUNT
//@item rodbus/src/constants.rs | limits::MAX_WRITE_REGISTERS_COUNT
    }
    pub mod exceptions {
//@item rodbus/src/constants.rs | exceptions::ILLEGAL_FUNCTION
//@item rodbus/src/constants.rs | exceptions::ILLEGAL_DATA_ADDRESS
//@item rodbus/src/constants.rs | exceptions::ILLEGAL_DATA_VALUE
//@item rodbus/src/constants.rs | exceptions::SERVER_DEVICE_FAILURE
//@item rodbus/src/constants.rs | exceptions::ACKNOWLEDGE
//@item rodbus/src/constants.rs | exceptions::SERVER_DEVICE_BUSY
//@item rodbus/src/constants.rs | exceptions::MEMORY_PARITY_ERROR
//@item rodbus/src/constants.rs | exceptions::GATEWAY_PATH_UNAVAILABLE
//@item rodbus/src/constants.rs | exceptions::GATEWAY_TARGET_DEVICE_FAILED_TO_RESPOND
    }
