    pub mod client {
//@include frag/tcp_client.tpl
    }
    pub mod tls {
        pub use crate::shims::net::TlsClientConfig;
        pub mod client {
            use vstd::prelude::*;
            use crate::client::channel::{Channel, ClientTask};
            use crate::client::listener::{ClientState, Listener};
            use crate::retry::RetryStrategy;
            use crate::shims::net::{HostAddr, TlsClientConfig};
            use crate::tcp::client::{TcpChannelTask, TcpTaskConnectionHandler};
            use crate::types::ClientOptions;
            use crate::shims::tokio;
// [C09] a TLS channel is a channel task whose connection handler is the TLS upgrade under exactly the configuration it was given
// (everything else as for the plain TCP channel)
//@fn rodbus/src/tcp/tls/client.rs | create_tls_channel | tags=C09,C10,C12,C13,C20
//@|    ensures r.1.is_tcp_task(), r.1.tcp_task().wf(), r.1.tcp_task().states() == listener.log(),
//@|        r.1.tcp_task().connection_handler matches TcpTaskConnectionHandler::Tls(c) && c.id == tls_config.id,
//@|        r.1.tcp_task().client_loop.decode == options.decode_level, !r.1.tcp_task().client_loop.enabled,
//@|        options.max_timeouts is None ==> r.1.tcp_task().client_loop.timeout_counter.limit() is None,
//@|        options.max_timeouts is Some ==> r.1.tcp_task().client_loop.timeout_counter.limit() == Some(crate::nz_value(options.max_timeouts->Some_0)),
//@|        r.1.tcp_task().client_loop.rx.0.chan == r.0.tx.chan,
//@fn rodbus/src/tcp/tls/client.rs | spawn_tls_channel | tags=C09,C13,C18,C20
//@|    requires listener.log().len() == 0,
//@exit 0| assert(task.is_tcp_task() && (task.tcp_task().connection_handler matches TcpTaskConnectionHandler::Tls(c) && c.id == tls_config.id)
//@exit 0|     && task.tcp_task().client_loop.decode == options.decode_level && task.tcp_task().states() == listener.log()
//@exit 0|     && task.tcp_task().client_loop.rx.0.chan == handle.tx.chan);
        }
    }
