    pub mod client {
//@include frag/tcp_client.tpl
    }
    pub mod tls {
        pub use crate::shims::net::TlsClientConfig;
    }
