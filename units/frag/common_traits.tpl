use vstd::prelude::*;
use crate::error::*;
use crate::exception::ExceptionCode;
use crate::shims::scursor::{ReadCursor, WriteCursor, appended};

// the trait declarations are /repo's; the `spec fn`s are the specification vocabulary each implementation must define
pub trait Serialize {
    // what the caller must establish (e.g. "the getter may be called for every address of the range")
    spec fn ser_pre(&self) -> bool;
    // `out` is a correct serialization of self
    spec fn ser_ok(&self, out: Seq<u8>) -> bool;
    // serialization may legitimately fail with this exception (a point handler raised it)
    spec fn ser_exc(&self, e: ExceptionCode) -> bool;
    // serialization may refuse the value as an invalid request (only the client's write-multiple requests do) [C03]
    spec fn ser_may_reject(&self) -> bool;

//@fn rodbus/src/common/traits.rs | trait Serialize::serialize | tags=C01,C03
//@|    requires old(cursor).wf(), self.ser_pre(),
//@|    ensures final(cursor).wf(), final(cursor).cap() == old(cursor).cap(), final(cursor).pos >= old(cursor).pos,
//@|        final(final(cursor).dest)@ == final(old(cursor).dest)@,
//@|        (forall|i: int| 0 <= i < old(cursor).pos ==> #[trigger] final(cursor).buf()[i] == old(cursor).buf()[i]),   // nothing already written is touched
//@|        r is Ok ==> self.ser_ok(final(cursor).buf().subrange(old(cursor).pos as int, final(cursor).pos as int)),
//@|        r matches Err(RequestError::Exception(e)) ==> self.ser_exc(e),
//@|        r is Err ==> (r->Err_0 is Exception || r->Err_0 is Internal || (r->Err_0 is BadRequest && self.ser_may_reject())),   // nothing else can go wrong while serializing
}

// R8: `Loggable` bodies are formatting code and are not extracted; the trait is kept as a marker so that bounds type-check
pub trait Loggable {}

pub trait Parse: Sized {
    // the value encoded at the front of `body` (all three implementations consume exactly 4 bytes)
    spec fn spec_parse(body: Seq<u8>) -> Option<Self>;

//@fn rodbus/src/common/traits.rs | trait Parse::parse | tags=C01,C02,C04,C07
//@|    requires old(cursor).wf(),
//@|    ensures final(cursor).wf(), final(cursor).input == old(cursor).input,
//@|        r is Ok <==> Self::spec_parse(old(cursor).rest()) is Some,
//@|        r is Ok ==> Self::spec_parse(old(cursor).rest()) == Some(r->Ok_0) && old(cursor).rest().len() >= 4
//@|            && final(cursor).rest() == old(cursor).rest().subrange(4, old(cursor).rest().len() as int),
//@|        r is Err ==> (r->Err_0 is BadResponse || r->Err_0 is BadRequest),
}
