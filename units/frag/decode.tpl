use vstd::prelude::*;
//@item rodbus/src/decode.rs | DecodeLevel
//@item rodbus/src/decode.rs | AppDecodeLevel
//@item rodbus/src/decode.rs | FrameDecodeLevel
//@item rodbus/src/decode.rs | PhysDecodeLevel
impl AppDecodeLevel {
//@fn rodbus/src/decode.rs | AppDecodeLevel::enabled | tags=C20
//@fn rodbus/src/decode.rs | AppDecodeLevel::header | tags=C20
//@fn rodbus/src/decode.rs | AppDecodeLevel::data_headers | tags=C20
//@fn rodbus/src/decode.rs | AppDecodeLevel::data_values | tags=C20
}
impl FrameDecodeLevel {
//@fn rodbus/src/decode.rs | FrameDecodeLevel::enabled | tags=C20
//@fn rodbus/src/decode.rs | FrameDecodeLevel::header_enabled | tags=C20
}
impl PhysDecodeLevel {
//@fn rodbus/src/decode.rs | PhysDecodeLevel::enabled | tags=C20
//@fn rodbus/src/decode.rs | PhysDecodeLevel::length_enabled | tags=C20
}
