use vstd::prelude::*;
//@item rodbus/src/decode.rs | DecodeLevel | structeq
//@item rodbus/src/decode.rs | AppDecodeLevel | enumeq
//@item rodbus/src/decode.rs | FrameDecodeLevel | enumeq
//@item rodbus/src/decode.rs | PhysDecodeLevel | enumeq
impl DecodeLevel {
// (Self::default() comes from derive(Default), for which Verus has no specification: contract only; both callers are decode-level tests)
//@fn rodbus/src/decode.rs | DecodeLevel::nothing | tags=C20 | ext_body
//@|    ensures r.app is Nothing, r.frame is Nothing, r.physical is Nothing,
}
impl AppDecodeLevel {
//@fn rodbus/src/decode.rs | AppDecodeLevel::enabled | tags=C20
//@fn rodbus/src/decode.rs | AppDecodeLevel::header | tags=C20
//@fn rodbus/src/decode.rs | AppDecodeLevel::data_headers | tags=C20
//@fn rodbus/src/decode.rs | AppDecodeLevel::data_values | tags=C20
}
impl FrameDecodeLevel {
//@fn rodbus/src/decode.rs | FrameDecodeLevel::enabled | tags=C20
//@fn rodbus/src/decode.rs | FrameDecodeLevel::header_enabled | tags=C20
//@fn rodbus/src/decode.rs | FrameDecodeLevel::payload_enabled | tags=C20
}
impl PhysDecodeLevel {
//@fn rodbus/src/decode.rs | PhysDecodeLevel::enabled | tags=C20
//@fn rodbus/src/decode.rs | PhysDecodeLevel::length_enabled | tags=C20
//@fn rodbus/src/decode.rs | PhysDecodeLevel::data_enabled | tags=C20
}
