// (kept in a module of its own: with these definitions inside `server::request` the installed Verus reports a spurious failure
//  of an unrelated function, `From<WriteError> for RequestError::from` - found by bisection, reason unknown)
use vstd::prelude::*;
use crate::common::function::FunctionCode;
use crate::common::frame::{FrameHeader, frame_ok, frame_ok_p};
use crate::common::traits::Serialize;
use crate::common::serialize::{bit, be16_at};
use crate::exception::ExceptionCode;
use crate::server::handler::{RequestHandler, HState};
use crate::server::request::SpecRequest;
use crate::types::*;

// ---- the reference server's reply (C01), stated over the handler's possible answers ----
pub open spec fn fcv(f: FunctionCode) -> u8 { crate::common::function::spec_fc_value(f) }

pub open spec fn may_bit(h: HState, coils: bool, start: u16, i: int, r: Result<bool, ExceptionCode>) -> bool {
    if coils { (h.may_coil)((start + i) as u16, r) } else { (h.may_di)((start + i) as u16, r) }
}
pub open spec fn may_reg(h: HState, holding: bool, start: u16, i: int, r: Result<u16, ExceptionCode>) -> bool {
    if holding { (h.may_hr)((start + i) as u16, r) } else { (h.may_ir)((start + i) as u16, r) }
}
// byte count, then one bit per address of the range - each a value the handler supplies for that address - LSB first, padding zero
pub open spec fn read_bits_ok(h: HState, coils: bool, range: AddressRange, o: Seq<u8>) -> bool {
    let n = range.count as int;
    &&& o.len() == 1 + (n + 7) / 8
    &&& o[0] as int == (n + 7) / 8
    &&& (forall|i: int| 0 <= i < n ==> #[trigger] may_bit(h, coils, range.start, i, Ok(bit(o[1 + i / 8], i % 8))))
    &&& (n % 8 != 0 ==> forall|k: u8| n % 8 <= k < 8 ==> !#[trigger] bit(o[o.len() - 1], k as int))
}
// byte count, then one big-endian register per address of the range
pub open spec fn read_regs_ok(h: HState, holding: bool, range: AddressRange, o: Seq<u8>) -> bool {
    let n = range.count as int;
    &&& o.len() == 1 + 2 * n
    &&& o[0] as int == 2 * n
    &&& (forall|i: int| 0 <= i < n ==> #[trigger] may_reg(h, holding, range.start, i, Ok(be16_at(o, 1 + 2 * i))))
}
pub open spec fn bits_refused(h: HState, coils: bool, range: AddressRange, e: ExceptionCode) -> bool {
    exists|i: int| 0 <= i < range.count && #[trigger] may_bit(h, coils, range.start, i, Err(e))
}
pub open spec fn regs_refused(h: HState, holding: bool, range: AddressRange, e: ExceptionCode) -> bool {
    exists|i: int| 0 <= i < range.count && #[trigger] may_reg(h, holding, range.start, i, Err(e))
}
// bodies described without reference to Serialize implementations (see the note at the top of this file)
pub open spec fn exc_body(e: ExceptionCode) -> spec_fn(Seq<u8>) -> bool { |o: Seq<u8>| o.len() == 1 && o[0] == crate::exception::spec_exception_value(e) }
pub open spec fn pair_body(a: u16, b: u16) -> spec_fn(Seq<u8>) -> bool { |o: Seq<u8>| crate::common::serialize::is_be16_pair(o, a, b) }
pub open spec fn exc_frame(tcp: bool, b: Seq<u8>, header: FrameHeader, f: FunctionCode, e: ExceptionCode) -> bool {
    frame_ok_p(tcp, b, b.len() as int, header, fcv(f) | 0x80, exc_body(e))
}
pub open spec fn read_bits_reply(tcp: bool, b: Seq<u8>, header: FrameHeader, f: FunctionCode, h: HState, coils: bool, range: AddressRange) -> bool {
    frame_ok_p(tcp, b, b.len() as int, header, fcv(f), |o: Seq<u8>| read_bits_ok(h, coils, range, o))
    || exists|e: ExceptionCode| #[trigger] bits_refused(h, coils, range, e) && exc_frame(tcp, b, header, f, e)
}
pub open spec fn read_regs_reply(tcp: bool, b: Seq<u8>, header: FrameHeader, f: FunctionCode, h: HState, holding: bool, range: AddressRange) -> bool {
    frame_ok_p(tcp, b, b.len() as int, header, fcv(f), |o: Seq<u8>| read_regs_ok(h, holding, range, o))
    || exists|e: ExceptionCode| #[trigger] regs_refused(h, holding, range, e) && exc_frame(tcp, b, header, f, e)
}
// a write is answered with the echo of the request (two big-endian words), or with the exception the write handler raised
pub open spec fn write_reply(tcp: bool, b: Seq<u8>, header: FrameHeader, f: FunctionCode, w0: u16, w1: u16, res: Result<(), ExceptionCode>) -> bool {
    match res {
        Ok(_) => frame_ok_p(tcp, b, b.len() as int, header, fcv(f), pair_body(w0, w1)),
        Err(e) => exc_frame(tcp, b, header, f, e),
    }
}
// [C01] the reply bytes for decoded request `q`, given the handler `h` consulted for reads and the result `res` of the write call
pub open spec fn reply_ok(tcp: bool, b: Seq<u8>, header: FrameHeader, q: SpecRequest, h: HState, res: Result<(), ExceptionCode>) -> bool {
    match q {
        SpecRequest::ReadCoils(range) => read_bits_reply(tcp, b, header, FunctionCode::ReadCoils, h, true, range),
        SpecRequest::ReadDiscreteInputs(range) => read_bits_reply(tcp, b, header, FunctionCode::ReadDiscreteInputs, h, false, range),
        SpecRequest::ReadHoldingRegisters(range) => read_regs_reply(tcp, b, header, FunctionCode::ReadHoldingRegisters, h, true, range),
        SpecRequest::ReadInputRegisters(range) => read_regs_reply(tcp, b, header, FunctionCode::ReadInputRegisters, h, false, range),
        SpecRequest::WriteSingleCoil(x) => write_reply(tcp, b, header, FunctionCode::WriteSingleCoil, x.index, if x.value { 0xFF00u16 } else { 0u16 }, res),
        SpecRequest::WriteSingleRegister(x) => write_reply(tcp, b, header, FunctionCode::WriteSingleRegister, x.index, x.value, res),
        SpecRequest::WriteMultipleCoils(range, _) => write_reply(tcp, b, header, FunctionCode::WriteMultipleCoils, range.start, range.count, res),
        SpecRequest::WriteMultipleRegisters(range, _) => write_reply(tcp, b, header, FunctionCode::WriteMultipleRegisters, range.start, range.count, res),
    }
}

