use crate::common::frame::{FrameInfo, FrameType, FunctionField, is_rtu_frame};
use crate::common::traits::Serialize;
use crate::shims::scursor::WriteCursor;

// [C06] address, function, body, then the CRC of address + PDU, low byte first
//@fn rodbus/src/serial/frame.rs | format_rtu_pdu | tags=C01,C03,C06 | r10 r10id=2 | sub=fn format_rtu_pdu(=>fn format_rtu_pdu<S: Serialize + ?Sized>( | sub=&dyn Serialize=>&S
//@|    requires old(cursor).wf(), old(cursor).pos == 0, old(cursor).cap() <= 260, msg.ser_pre(),
//@|    ensures final(cursor).wf(), final(cursor).cap() == old(cursor).cap(), final(final(cursor).dest)@ == final(old(cursor).dest)@,
//@|        r is Ok ==> is_rtu_frame(final(cursor).buf(), final(cursor).pos as int, header.destination.spec_value(), function.spec_value(), msg)
//@|            && r->Ok_0.pdu_body.start == 2 && r->Ok_0.pdu_body.end == final(cursor).pos - 2,
//@|        r matches Err(RequestError::Exception(e)) ==> msg.ser_exc(e),
//@|        r is Err ==> (r->Err_0 is Exception || r->Err_0 is Internal || (r->Err_0 is BadRequest && msg.ser_may_reject())),
//@entry| broadcast use crate::shims::scursor::lemma_subrange_update_outside;

// ---- C07 / C20: frame-level decoding (logging) of an RTU frame
//@item rodbus/src/serial/frame.rs | RtuDisplay
impl<'a> RtuDisplay<'a> {
//@fn rodbus/src/serial/frame.rs | RtuDisplay<'a>::new | tags=C07,C20
//@|    ensures r.level == level, r.destination == destination, r.payload@ == payload@, r.crc == crc,
//@fn rodbus/src/serial/frame.rs | std::fmt::Display for RtuDisplay<'a>::fmt | tags=C07,C20 | inherent r28
}
