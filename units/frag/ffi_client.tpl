// ---- ffi/rodbus-ffi/src/client.rs: the client operations of the C ABI (C18: unit ids, ranges, values, timeouts pass through unchanged) ----
use vstd::prelude::*;
use vstd::std_specs::convert::FromSpecImpl;
use crate::ffi;
use crate::ffi::ParamError;
use crate::rodbus::client::{FfiChannel, FfiChannelError, RequestParam, WriteMultiple, FfiCall, ClientState, MaybeAsync, RetryStrategy, Listener};
use crate::rodbus;
use crate::rodbus::{AddressRange, UnitId};
use crate::sfio_promise;
use crate::rodbus::{InvalidRange, InvalidRequest};

//@item ffi/rodbus-ffi/src/client.rs | ClientChannel
//@item ffi/rodbus-ffi/src/list.rs | BitList
//@item ffi/rodbus-ffi/src/list.rs | RegisterList

// [C18] each error is reported as its same-named counterpart
impl FromSpecImpl<crate::rodbus::InvalidRange> for ParamError {
    open spec fn obeys_from_spec() -> bool { true }
    open spec fn from_spec(e: crate::rodbus::InvalidRange) -> Self { ParamError::InvalidRange }
}
impl From<crate::rodbus::InvalidRange> for ParamError {
//@fn ffi/rodbus-ffi/src/error.rs | From<InvalidRange> for ffi::ParamError::from | tags=C18
}
impl FromSpecImpl<crate::rodbus::InvalidRequest> for ParamError {
    open spec fn obeys_from_spec() -> bool { true }
    open spec fn from_spec(e: crate::rodbus::InvalidRequest) -> Self { ParamError::InvalidRequest }
}
impl From<crate::rodbus::InvalidRequest> for ParamError {
//@fn ffi/rodbus-ffi/src/error.rs | From<InvalidRequest> for ffi::ParamError::from | tags=C18
}
pub open spec fn spec_channel_error(err: FfiChannelError) -> ParamError {
    match err {
        FfiChannelError::ChannelFull => ParamError::TooManyRequests,
        FfiChannelError::ChannelClosed => ParamError::Shutdown,
        FfiChannelError::BadRange(_) => ParamError::InvalidRange,
    }
}
impl FromSpecImpl<FfiChannelError> for ParamError {
    open spec fn obeys_from_spec() -> bool { true }
    open spec fn from_spec(err: FfiChannelError) -> Self { spec_channel_error(err) }
}
impl From<FfiChannelError> for ParamError {
//@fn ffi/rodbus-ffi/src/client.rs | From<FfiChannelError> for ParamError::from | tags=C18
}
// [C18] unit id and timeout pass through unchanged
pub open spec fn spec_param(value: ffi::RequestParam) -> RequestParam {
    RequestParam { id: UnitId { value: value.unit_id }, response_timeout: ffi::spec_millis(value.timeout) }
}
impl FromSpecImpl<ffi::RequestParam> for RequestParam {
    open spec fn obeys_from_spec() -> bool { true }
    open spec fn from_spec(value: ffi::RequestParam) -> Self { spec_param(value) }
}
impl From<ffi::RequestParam> for RequestParam {
//@fn ffi/rodbus-ffi/src/client.rs | From<ffi::RequestParam> for RequestParam::from | tags=C18
}

// every wrapper makes exactly one call on the channel, with the converted arguments, and reports the channel's error (if any) as its
// same-named ParamError; an argument rejected by validation makes no call at all
pub open spec fn one_call(old_ch: &ClientChannel, new_ch: &ClientChannel, c: FfiCall) -> bool { new_ch.inner.calls == old_ch.inner.calls.push(c) }

//@fn ffi/rodbus-ffi/src/client.rs | client_channel_read_coils | tags=C18 | r24 r10
//@|    ensures !crate::types::valid_range(range.start, range.count) ==> r is Err && final(channel).inner.calls == old(channel).inner.calls,
//@|        crate::types::valid_range(range.start, range.count) ==> one_call(old(channel), final(channel), FfiCall::ReadCoils(spec_param(param), AddressRange { start: range.start, count: range.count })),
//@fn ffi/rodbus-ffi/src/client.rs | client_channel_read_discrete_inputs | tags=C18 | r24 r10
//@|    ensures !crate::types::valid_range(range.start, range.count) ==> r is Err && final(channel).inner.calls == old(channel).inner.calls,
//@|        crate::types::valid_range(range.start, range.count) ==> one_call(old(channel), final(channel), FfiCall::ReadDiscreteInputs(spec_param(param), AddressRange { start: range.start, count: range.count })),
//@fn ffi/rodbus-ffi/src/client.rs | client_channel_read_holding_registers | tags=C18 | r24 r10
//@|    ensures !crate::types::valid_range(range.start, range.count) ==> r is Err && final(channel).inner.calls == old(channel).inner.calls,
//@|        crate::types::valid_range(range.start, range.count) ==> one_call(old(channel), final(channel), FfiCall::ReadHoldingRegisters(spec_param(param), AddressRange { start: range.start, count: range.count })),
//@fn ffi/rodbus-ffi/src/client.rs | client_channel_read_input_registers | tags=C18 | r24 r10
//@|    ensures !crate::types::valid_range(range.start, range.count) ==> r is Err && final(channel).inner.calls == old(channel).inner.calls,
//@|        crate::types::valid_range(range.start, range.count) ==> one_call(old(channel), final(channel), FfiCall::ReadInputRegisters(spec_param(param), AddressRange { start: range.start, count: range.count })),
//@fn ffi/rodbus-ffi/src/client.rs | client_channel_write_single_coil | tags=C18 | r24 r10
//@|    ensures one_call(old(channel), final(channel), FfiCall::WriteSingleCoil(spec_param(param), crate::rodbus::Indexed { index: bit.index, value: bit.value })),
//@fn ffi/rodbus-ffi/src/client.rs | client_channel_write_single_register | tags=C18 | r24 r10
//@|    ensures one_call(old(channel), final(channel), FfiCall::WriteSingleRegister(spec_param(param), crate::rodbus::Indexed { index: register.index, value: register.value })),
// the list object belongs to the C caller: it is only read
//@fn ffi/rodbus-ffi/src/client.rs | client_channel_write_multiple_coils | tags=C18 | r24 r10
//@|    ensures final(items).inner@ == old(items).inner@,
//@|        !(1 <= old(items).inner@.len() <= 65535 && start as int + old(items).inner@.len() <= 65536) ==> r is Err && final(channel).inner.calls == old(channel).inner.calls,
//@|        (1 <= old(items).inner@.len() <= 65535 && start as int + old(items).inner@.len() <= 65536) ==> one_call(old(channel), final(channel),
//@|            FfiCall::WriteMultipleCoils(spec_param(param), AddressRange { start, count: old(items).inner@.len() as u16 }, old(items).inner@)),
//@fn ffi/rodbus-ffi/src/client.rs | client_channel_write_multiple_registers | tags=C18 | r24 r10
//@|    ensures final(items).inner@ == old(items).inner@,
//@|        !(1 <= old(items).inner@.len() <= 65535 && start as int + old(items).inner@.len() <= 65536) ==> r is Err && final(channel).inner.calls == old(channel).inner.calls,
//@|        (1 <= old(items).inner@.len() <= 65535 && start as int + old(items).inner@.len() <= 65536) ==> one_call(old(channel), final(channel),
//@|            FfiCall::WriteMultipleRegisters(spec_param(param), AddressRange { start, count: old(items).inner@.len() as u16 }, old(items).inner@)),
//@fn ffi/rodbus-ffi/src/client.rs | client_channel_enable | tags=C18 | r24 r10
//@|    ensures one_call(old(channel), final(channel), FfiCall::Enable), r matches Err(e) ==> e is TooManyRequests || e is Shutdown,
//@fn ffi/rodbus-ffi/src/client.rs | client_channel_disable | tags=C18 | r24 r10
//@|    ensures one_call(old(channel), final(channel), FfiCall::Disable),
//@fn ffi/rodbus-ffi/src/client.rs | client_channel_set_decode_level | tags=C18,C20 | r24 r10
//@|    ensures one_call(old(channel), final(channel), FfiCall::SetDecodeLevel(crate::helpers::conversions::spec_decode_level(level))),

// [C18] each connection state is reported as its same-named counterpart (the wait states lose their duration, which C has no field for)
pub open spec fn spec_client_state(x: crate::rodbus::client::ClientState) -> ffi::ClientState {
    match x {
        crate::rodbus::client::ClientState::Disabled => ffi::ClientState::Disabled,
        crate::rodbus::client::ClientState::Connecting => ffi::ClientState::Connecting,
        crate::rodbus::client::ClientState::Connected => ffi::ClientState::Connected,
        crate::rodbus::client::ClientState::WaitAfterFailedConnect(_) => ffi::ClientState::WaitAfterFailedConnect,
        crate::rodbus::client::ClientState::WaitAfterDisconnect(_) => ffi::ClientState::WaitAfterDisconnect,
        crate::rodbus::client::ClientState::Shutdown => ffi::ClientState::Shutdown,
    }
}
impl FromSpecImpl<crate::rodbus::client::ClientState> for ffi::ClientState {
    open spec fn obeys_from_spec() -> bool { true }
    open spec fn from_spec(x: crate::rodbus::client::ClientState) -> Self { spec_client_state(x) }
}
impl From<crate::rodbus::client::ClientState> for ffi::ClientState {
//@fn ffi/rodbus-ffi/src/client.rs | From<ClientState> for ffi::ClientState::from | tags=C18
}
pub open spec fn spec_port_state(x: crate::rodbus::client::PortState) -> ffi::PortState {
    match x {
        crate::rodbus::client::PortState::Disabled => ffi::PortState::Disabled,
        crate::rodbus::client::PortState::Wait(_) => ffi::PortState::Wait,
        crate::rodbus::client::PortState::Open => ffi::PortState::Open,
        crate::rodbus::client::PortState::Shutdown => ffi::PortState::Shutdown,
    }
}
impl FromSpecImpl<crate::rodbus::client::PortState> for ffi::PortState {
    open spec fn obeys_from_spec() -> bool { true }
    open spec fn from_spec(x: crate::rodbus::client::PortState) -> Self { spec_port_state(x) }
}
impl From<crate::rodbus::client::PortState> for ffi::PortState {
//@fn ffi/rodbus-ffi/src/client.rs | From<rodbus::client::PortState> for ffi::PortState::from | tags=C18
}

// [C18] the connection-state listener handed to the channel reports every state to the C callback as its same-named counterpart
//@item ffi/rodbus-ffi/src/client.rs | ClientStateListener
impl crate::rodbus::client::Listener<ClientState> for ClientStateListener {
//@fn ffi/rodbus-ffi/src/client.rs | Listener<ClientState> for ClientStateListener::update | tags=C18
//@|    ensures final(self).inner == old(self).inner, old(self).inner.notified(spec_client_state(value)),
}
//@item ffi/rodbus-ffi/src/client.rs | PortStateListener
impl crate::rodbus::client::Listener<crate::rodbus::client::PortState> for PortStateListener {
//@fn ffi/rodbus-ffi/src/client.rs | Listener<rodbus::client::PortState> for PortStateListener::update | tags=C18
//@|    ensures final(self).inner == old(self).inner, old(self).inner.notified(spec_port_state(value)),
}
// [C18,C14] the reconnect strategy is built from exactly the minimum and maximum delay passed by C
impl From<ffi::RetryStrategy> for Box<dyn crate::rodbus::client::RetryStrategy> {
//@fn ffi/rodbus-ffi/src/helpers/conversions.rs | From<ffi::RetryStrategy> for Box<dyn RetryStrategy>::from | tags=C14,C18
//@|    ensures r.cfg_min() == ffi::spec_millis(from.min_delay), r.cfg_max() == ffi::spec_millis(from.max_delay),
}
impl FromSpecImpl<ffi::RetryStrategy> for Box<dyn crate::rodbus::client::RetryStrategy> {
    open spec fn obeys_from_spec() -> bool { false }
    open spec fn from_spec(from: ffi::RetryStrategy) -> Self { arbitrary() }
}

// ---- [C18] the channel constructors: queue size, reconnect strategy, decode level, serial settings and TLS configuration reach the
// rodbus constructor unchanged, and a state listener is always installed.  (R23: the null check of the runtime pointer - and for TLS the
// conversion of the TLS configuration object and the address parsing - are not part of the verified text)
pub struct CStr__ { pub x: u8 }
impl CStr__ {
    #[verifier::external_body]
    pub fn to_string_lossy(&self) -> (r: String) { unimplemented!() }
}
pub uninterp spec fn spec_host_addr(host: &CStr__, port: u16) -> rodbus::client::HostAddr;
// (the real get_host_addr parses text: std::net::IpAddr::from_str / CStr::to_str, outside the verifier's reach)
#[verifier::external_body]
pub fn get_host_addr(host: &CStr__, port: u16) -> (r: Result<rodbus::client::HostAddr, ffi::ParamError>)
    ensures r matches Ok(h) ==> h == spec_host_addr(host, port) { unimplemented!() }
//@trusted ffi client.rs get_host_addr: assumed (text parsing of the host string; `spec_host_addr` uninterpreted)
pub struct EnterGuard__ { pub x: u8 }
impl crate::Runtime {
    #[verifier::external_body]
    pub fn enter(&self) -> (r: EnterGuard__) { unimplemented!() }
}
impl FromSpecImpl<ffi::ClientStateListener> for Box<dyn Listener<ClientState>> {
    open spec fn obeys_from_spec() -> bool { false }
    open spec fn from_spec(from: ffi::ClientStateListener) -> Self { arbitrary() }
}
impl FromSpecImpl<ffi::PortStateListener> for Box<dyn Listener<rodbus::client::PortState>> {
    open spec fn obeys_from_spec() -> bool { false }
    open spec fn from_spec(from: ffi::PortStateListener) -> Self { arbitrary() }
}
impl From<ffi::ClientStateListener> for Box<dyn Listener<ClientState>> {
//@fn ffi/rodbus-ffi/src/client.rs | From<ffi::ClientStateListener> for Box<dyn Listener<ClientState>>::from | tags=C18
}
impl From<ffi::PortStateListener> for Box<dyn Listener<rodbus::client::PortState>> {
//@fn ffi/rodbus-ffi/src/client.rs | From<ffi::PortStateListener> for Box<dyn Listener<rodbus::client::PortState>>::from | tags=C18
}
pub open spec fn created(p: *mut ClientChannel, max_queued_requests: u16, retry_strategy: ffi::RetryStrategy, decode_level: ffi::DecodeLevel) -> bool {
    let c = crate::ffi_server::pointee(p).inner;
    c.calls.len() == 0 && c.cfg.max_queued == max_queued_requests as usize && c.cfg.has_listener
    && c.cfg.retry_min == ffi::spec_millis(retry_strategy.min_delay) && c.cfg.retry_max == ffi::spec_millis(retry_strategy.max_delay)
    && c.cfg.decode == crate::helpers::conversions::spec_decode_level(decode_level)
}
//@fn ffi/rodbus-ffi/src/client.rs | client_channel_create_tcp | tags=C18 | r23=1 r10 | bsub=Box::into_raw(Box::new(=>crate::ffi_server::Box::into_raw(crate::ffi_server::Box::new(
//@suffix| pub fn client_channel_create_tcp(runtime: &crate::Runtime, host: &CStr__, port: u16, max_queued_requests: u16, retry_strategy: ffi::RetryStrategy,
//@suffix|     decode_level: ffi::DecodeLevel, listener: ffi::ClientStateListener) -> (r: Result<*mut crate::ClientChannel, ffi::ParamError>)
//@|    ensures r matches Ok(p) ==> created(p, max_queued_requests, retry_strategy, decode_level)
//@|        && crate::ffi_server::pointee(p).inner.cfg.host == Some(spec_host_addr(host, port)) && crate::ffi_server::pointee(p).inner.cfg.tls is None
//@|        && crate::ffi_server::pointee(p).inner.cfg.serial is None,
//@fn ffi/rodbus-ffi/src/client.rs | client_channel_create_rtu | tags=C18 | r23=1 | bsub=Box::into_raw(Box::new(=>crate::ffi_server::Box::into_raw(crate::ffi_server::Box::new(
//@suffix| pub fn client_channel_create_rtu(runtime: &crate::Runtime, path: &CStr__, serial_params: ffi::SerialPortSettings, max_queued_requests: u16,
//@suffix|     retry_strategy: ffi::RetryStrategy, decode_level: ffi::DecodeLevel, listener: ffi::PortStateListener) -> (r: Result<*mut crate::ClientChannel, ffi::ParamError>)
//@|    ensures r matches Ok(p) ==> created(p, max_queued_requests, retry_strategy, decode_level)
//@|        && crate::ffi_server::pointee(p).inner.cfg.serial == Some(crate::helpers::conversions::spec_serial_settings(serial_params))
//@|        && crate::ffi_server::pointee(p).inner.cfg.tls is None && crate::ffi_server::pointee(p).inner.cfg.host is None,
//@fn ffi/rodbus-ffi/src/client.rs | client_channel_create_tls | tags=C09,C18 | r23=3 | bsub=Box::into_raw(Box::new(=>crate::ffi_server::Box::into_raw(crate::ffi_server::Box::new(
//@suffix| pub fn client_channel_create_tls(runtime: &crate::Runtime, host_addr: rodbus::client::HostAddr, tls_config: rodbus::client::TlsClientConfig,
//@suffix|     max_queued_requests: u16, retry_strategy: ffi::RetryStrategy, decode_level: ffi::DecodeLevel, listener: ffi::ClientStateListener)
//@suffix|     -> (r: Result<*mut crate::ClientChannel, ffi::ParamError>)
//@|    ensures r matches Ok(p) ==> created(p, max_queued_requests, retry_strategy, decode_level)
//@|        && crate::ffi_server::pointee(p).inner.cfg.host == Some(host_addr) && crate::ffi_server::pointee(p).inner.cfg.tls == Some(tls_config)
//@|        && crate::ffi_server::pointee(p).inner.cfg.serial is None,
// not under contract (CStr / str glue): guarded against change only
//@reviewed ffi/rodbus-ffi/src/client.rs | TryFrom<ffi::TlsClientConfig> for rodbus::client::TlsClientConfig::try_from | tags=C09,C18
//@reviewed ffi/rodbus-ffi/src/client.rs | get_host_addr | tags=C18
