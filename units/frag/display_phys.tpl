// ---- C07 / C20: the hex dump used by the physical-layer and frame-level decoding (logging).  Free of panics for every byte string:
// `chunks` gets a non-zero chunk size, nothing is indexed.  What is printed is opaque (R28).
#[verifier::external_type_specification]
#[verifier::external_body]
#[verifier::accept_recursive_types(T)]
pub struct ExChunks<'a, T: 'a>(core::slice::Chunks<'a, T>);
pub uninterp spec fn chunks_rest<'a, T>(c: &core::slice::Chunks<'a, T>) -> Seq<T>;
pub uninterp spec fn chunks_size<'a, T>(c: &core::slice::Chunks<'a, T>) -> nat;
pub assume_specification<'a, T>[ <[T]>::chunks ](s: &'a [T], n: usize) -> (r: core::slice::Chunks<'a, T>)
    requires n != 0,       // std: "Panics if chunk_size is zero"
    ensures chunks_rest(&r) == s@, chunks_size(&r) == n as nat;
pub assume_specification<'a, T>[ <core::slice::Chunks<'a, T> as Iterator>::next ](c: &mut core::slice::Chunks<'a, T>) -> (r: Option<&'a [T]>)
    ensures
        chunks_size(final(c)) == chunks_size(old(c)),
        chunks_rest(old(c)).len() == 0 ==> r is None && chunks_rest(final(c)) == chunks_rest(old(c)),
        chunks_rest(old(c)).len() > 0 ==> r is Some
            && r->0@.len() == (if chunks_rest(old(c)).len() < chunks_size(old(c)) { chunks_rest(old(c)).len() } else { chunks_size(old(c)) })
            && r->0@ == chunks_rest(old(c)).subrange(0, r->0@.len() as int)
            && chunks_rest(final(c)) == chunks_rest(old(c)).subrange(r->0@.len() as int, chunks_rest(old(c)).len() as int);
//@trusted <[T]>::chunks / Chunks::next: std documentation (chunks of the given non-zero size, the last one possibly shorter; panics on size 0)
pub assume_specification<'a>[ <std::fmt::Formatter<'a> as std::fmt::Write>::write_char ](f: &mut std::fmt::Formatter<'a>, c: char) -> (r: std::fmt::Result);
use std::fmt::Write;

//@item rodbus/src/common/phys.rs | BYTES_PER_DECODE_LINE
//@fn rodbus/src/common/phys.rs | format_bytes | tags=C07,C20 | r28 r4=0 r4n=1 | attr=#[verifier::exec_allows_no_decreases_clause]
//@loop 0|            invariant chunks_size(&it__0) > 0,
//@item rodbus/src/common/phys.rs | PhysDisplay
impl<'a> PhysDisplay<'a> {
//@fn rodbus/src/common/phys.rs | PhysDisplay<'a>::new | tags=C07,C20
//@|    ensures r.level == level, r.data@ == data@,
//@fn rodbus/src/common/phys.rs | std::fmt::Display for PhysDisplay<'a>::fmt | tags=C07,C20 | inherent r28
}
