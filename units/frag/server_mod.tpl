// ---- server/mod.rs: the public constructors of the TCP / TLS server tasks (C16: the filter is forwarded by every constructor) ----
use vstd::prelude::*;
use crate::shims::net2::SocketAddr;
use crate::shims::tokio;
use crate::decode::DecodeLevel;
use crate::server::task::ServerCommand;
use crate::server::handler::*;
use crate::server::address_filter::*;
use crate::tcp::server::{ServerTask as TcpServerTask, TcpServerConnectionHandler};
use crate::tcp::tls::TlsServerConfig;

//@item rodbus/src/server/mod.rs | SERVER_COMMAND_CHANNEL_CAPACITY
//@item rodbus/src/server/mod.rs | ServerHandle
//@item rodbus/src/server/mod.rs | ServerTask
//@item rodbus/src/server/mod.rs | ServerTaskInner

impl<T: RequestHandler> ServerTask<T> {
    // the TCP/TLS accept-loop task inside the public task object
    pub open spec fn is_tcp(&self) -> bool { self.inner is Tcp }
    pub open spec fn tcp_task(&self) -> TcpServerTask<T> { *self.inner->Tcp_0 }
    // what a TCP/TLS server task is configured with
    pub open spec fn configured(&self, max_sessions: usize, connection_handler: TcpServerConnectionHandler, filter: AddressFilter, decode: DecodeLevel) -> bool {
        self.is_tcp() && self.tcp_task().wf()
        && self.tcp_task().filter == filter
        && self.tcp_task().decode == decode
        && self.tcp_task().connection_handler == connection_handler
        && self.tcp_task().tracker.max_sessions == (if max_sessions == 0 { 1 } else { max_sessions })
        && self.tcp_task().tracker@.dom().len() == 0
    }
    // the command channel the accept loop listens on
    pub open spec fn commands_chan(&self) -> int { self.inner->Tcp_1.chan }

//@fn rodbus/src/server/mod.rs | ServerTask<T>::tcp | tags=C16
//@|    ensures r.is_tcp(), r.tcp_task() == task, r.inner->Tcp_1 == commands,

// [C15] the public task runs the accept loop it was built with
//@fn rodbus/src/server/mod.rs | ServerTask<T>::run | tags=C15,C16
//@|    requires self.is_tcp() ==> self.tcp_task().wf(),
}

impl ServerHandle {
//@fn rodbus/src/server/mod.rs | ServerHandle::new | tags=C15
//@|    ensures r.tx == tx,
}

// "the handle whose command channel is `chan` controls an accept-loop task configured with exactly these arguments"
pub open spec fn serves<T: RequestHandler>(chan: int, max_sessions: usize, connection_handler: TcpServerConnectionHandler, filter: AddressFilter, decode: DecodeLevel) -> bool {
    exists|t: ServerTask<T>| #[trigger] t.configured(max_sessions, connection_handler, filter, decode) && t.commands_chan() == chan
}

// [C16] every constructor hands the caller's filter (and session limit, decode level, connection upgrade) to the accept-loop task
//@fn rodbus/src/server/mod.rs | create_tcp_server_task | tags=C15,C16,C20
//@|    ensures r.1.configured(max_sessions, TcpServerConnectionHandler::Tcp, filter, decode), r.1.commands_chan() == r.0.tx.chan,

//@fn rodbus/src/server/mod.rs | create_tls_server_task_impl | tags=C09,C15,C16,C20
//@|    ensures r.1.configured(max_sessions, TcpServerConnectionHandler::Tls(tls_config, auth_handler), filter, decode), r.1.commands_chan() == r.0.tx.chan,

//@fn rodbus/src/server/mod.rs | create_tls_server_task | tags=C09,C15,C16,C20
//@|    ensures r.1.configured(max_sessions, TcpServerConnectionHandler::Tls(tls_config, None), filter, decode), r.1.commands_chan() == r.0.tx.chan,

//@fn rodbus/src/server/mod.rs | create_tls_server_task_with_authz | tags=C08,C09,C15,C16,C20
//@|    ensures r.1.configured(max_sessions, TcpServerConnectionHandler::Tls(tls_config, Some(auth_handler)), filter, decode), r.1.commands_chan() == r.0.tx.chan,

// the spawn_* functions bind the listener and hand the task built by create_* to tokio::spawn
//@fn rodbus/src/server/mod.rs | spawn_tcp_server_task | tags=C15,C16,C20 | r10 r10id=0
//@|    ensures r matches Ok(h) ==> serves::<T>(h.tx.chan, max_sessions, TcpServerConnectionHandler::Tcp, filter, decode),
//@exit 0| assert(task.configured(max_sessions, TcpServerConnectionHandler::Tcp, filter, decode) && task.commands_chan() == handle.tx.chan);

//@fn rodbus/src/server/mod.rs | spawn_tls_server_task_impl | tags=C09,C15,C16,C20 | r10 r10id=0
//@|    ensures r matches Ok(h) ==> serves::<T>(h.tx.chan, max_sessions, TcpServerConnectionHandler::Tls(tls_config, auth_handler), filter, decode),
//@exit 0| assert(task.configured(max_sessions, TcpServerConnectionHandler::Tls(tls_config, auth_handler), filter, decode) && task.commands_chan() == handle.tx.chan);

//@fn rodbus/src/server/mod.rs | spawn_tls_server_task | tags=C09,C15,C16,C20
//@|    ensures r matches Ok(h) ==> serves::<T>(h.tx.chan, max_sessions, TcpServerConnectionHandler::Tls(tls_config, None), filter, decode),
//@fn rodbus/src/server/mod.rs | spawn_tls_server_task_with_authz | tags=C08,C09,C15,C16,C20
//@|    ensures r matches Ok(h) ==> serves::<T>(h.tx.chan, max_sessions, TcpServerConnectionHandler::Tls(tls_config, Some(auth_handler)), filter, decode),
