use vstd::prelude::*;
// Arc<T>: shared, immutable access to the inner value (trusted)
#[verifier::external_body]
pub struct Arc<#[verifier::reject_recursive_types] T: ?Sized> { p: std::sync::Arc<T> }
impl<T: ?Sized> Arc<T> {
    pub uninterp spec fn inner(&self) -> &T;
    #[verifier::external_body]
    pub fn as_ref(&self) -> (r: &T) ensures r == self.inner() { self.p.as_ref() }
}
//@trusted std::sync::Arc<T>::as_ref: shared reference to the inner value
