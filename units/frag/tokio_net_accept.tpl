pub mod net {
    pub use crate::shims::net2::{TcpStream, TcpListener};
}
