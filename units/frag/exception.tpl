use vstd::prelude::*;
use vstd::std_specs::convert::FromSpecImpl;

//@item rodbus/src/exception.rs | ExceptionCode

// the protocol's exception table, written from the Modbus specification (not from constants.rs)
pub open spec fn spec_exception_of(v: u8) -> ExceptionCode {
    if v == 1 { ExceptionCode::IllegalFunction }
    else if v == 2 { ExceptionCode::IllegalDataAddress }
    else if v == 3 { ExceptionCode::IllegalDataValue }
    else if v == 4 { ExceptionCode::ServerDeviceFailure }
    else if v == 5 { ExceptionCode::Acknowledge }
    else if v == 6 { ExceptionCode::ServerDeviceBusy }
    else if v == 8 { ExceptionCode::MemoryParityError }
    else if v == 10 { ExceptionCode::GatewayPathUnavailable }
    else if v == 11 { ExceptionCode::GatewayTargetDeviceFailedToRespond }
    else { ExceptionCode::Unknown(v) }
}
pub open spec fn spec_exception_value(e: ExceptionCode) -> u8 {
    match e {
        ExceptionCode::IllegalFunction => 1,
        ExceptionCode::IllegalDataAddress => 2,
        ExceptionCode::IllegalDataValue => 3,
        ExceptionCode::ServerDeviceFailure => 4,
        ExceptionCode::Acknowledge => 5,
        ExceptionCode::ServerDeviceBusy => 6,
        ExceptionCode::MemoryParityError => 8,
        ExceptionCode::GatewayPathUnavailable => 10,
        ExceptionCode::GatewayTargetDeviceFailedToRespond => 11,
        ExceptionCode::Unknown(v) => v,
    }
}
// what goes on the wire comes back as the same code (C04: "yields exactly that exception code")
pub proof fn lemma_exception_roundtrip(v: u8)
    ensures spec_exception_value(spec_exception_of(v)) == v
{}

impl FromSpecImpl<u8> for ExceptionCode {
    open spec fn obeys_from_spec() -> bool { true }
    open spec fn from_spec(value: u8) -> Self { spec_exception_of(value) }
}
impl From<u8> for ExceptionCode {
//@fn rodbus/src/exception.rs | From<u8> for ExceptionCode::from | tags=C04,C01
}
impl FromSpecImpl<ExceptionCode> for u8 {
    open spec fn obeys_from_spec() -> bool { true }
    open spec fn from_spec(ex: ExceptionCode) -> Self { spec_exception_value(ex) }
}
impl From<ExceptionCode> for u8 {
//@fn rodbus/src/exception.rs | From<ExceptionCode> for u8::from | tags=C01,C04
}
