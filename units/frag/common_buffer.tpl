use vstd::prelude::*;
use crate::common::phys::PhysLayer;
use crate::error::InternalError;
use crate::decode::PhysDecodeLevel;

//@item rodbus/src/common/buffer.rs | ReadBuffer

pub proof fn lemma_stream_conserved(a0: Seq<u8>, p0: Seq<u8>, a1: Seq<u8>, p1: Seq<u8>, k: int)
    requires 0 <= k <= p0.len(), a1.len() == a0.len() + k,
        forall|i: int| 0 <= i < a0.len() ==> #[trigger] a1[i] == a0[i],
        forall|i: int| 0 <= i < k ==> #[trigger] a1[a0.len() + i] == p0[i],
        p1 == p0.subrange(k, p0.len() as int),
    ensures a1 + p1 =~= a0 + p0
{
    assert forall|j: int| 0 <= j < (a1 + p1).len() implies (a1 + p1)[j] == (a0 + p0)[j] by {
        if j < a0.len() { } else if j < a1.len() { assert(a1[a0.len() + (j - a0.len())] == p0[j - a0.len()]); } else { }
    }
}

impl ReadBuffer {
    // data-structure invariant and abstract view: the bytes buffered and not yet consumed
    pub closed spec fn wf(&self) -> bool { self.begin <= self.end <= 260 }
    pub closed spec fn view(&self) -> Seq<u8> { self.buffer@.subrange(self.begin as int, self.end as int) }
    pub proof fn lemma_len(&self) requires self.wf() ensures self@.len() <= 260 {}

//@fn rodbus/src/common/buffer.rs | ReadBuffer::new | tags=C05,C06,C07
//@|    ensures r.wf(), r@.len() == 0,

//@fn rodbus/src/common/buffer.rs | ReadBuffer::len | tags=C05,C06,C07
//@|    requires self.wf(),
//@|    ensures r == self@.len(), r <= 260,

//@fn rodbus/src/common/buffer.rs | ReadBuffer::is_empty | tags=C05,C06,C07
//@|    requires self.wf(),
//@|    ensures r == (self@.len() == 0),

//@fn rodbus/src/common/buffer.rs | ReadBuffer::read | tags=C05,C06,C07
//@|    requires old(self).wf(),
//@|    ensures final(self).wf(),
//@|        r is Ok <==> count <= old(self)@.len(),
//@|        r is Ok ==> r->Ok_0@ == old(self)@.subrange(0, count as int)
//@|            && final(self)@ == old(self)@.subrange(count as int, old(self)@.len() as int),   // bytes after the read are neither lost nor re-read [C05]
//@|        r is Err ==> final(self)@ == old(self)@,

//@fn rodbus/src/common/buffer.rs | ReadBuffer::read_u8 | tags=C05,C06,C07
//@|    requires old(self).wf(),
//@|    ensures final(self).wf(),
//@|        r is Ok <==> old(self)@.len() > 0,
//@|        r is Ok ==> r->Ok_0 == old(self)@[0] && final(self)@ == old(self)@.subrange(1, old(self)@.len() as int),
//@|        r is Err ==> final(self)@ == old(self)@,

//@fn rodbus/src/common/buffer.rs | ReadBuffer::peek_at | tags=C06,C07
//@|    requires old(self).wf(), idx <= 260,
//@|    ensures final(self).wf(), final(self)@ == old(self)@,
//@|        idx < old(self)@.len() ==> r is Ok && r->Ok_0 == old(self)@[idx as int],

//@fn rodbus/src/common/buffer.rs | ReadBuffer::read_u16_be | tags=C05,C07
//@|    requires old(self).wf(),
//@|    ensures final(self).wf(),
//@|        r is Ok <==> old(self)@.len() >= 2,
//@|        r is Ok ==> r->Ok_0 as int == old(self)@[0] as int * 256 + old(self)@[1] as int
//@|            && final(self)@ == old(self)@.subrange(2, old(self)@.len() as int),
//@exit 0| assert((b1 << 8) | b2 == b1 * 256 + b2) by (bit_vector) requires b1 < 256, b2 < 256;

//@fn rodbus/src/common/buffer.rs | ReadBuffer::read_u16_le | tags=C06,C07
//@|    requires old(self).wf(),
//@|    ensures final(self).wf(),
//@|        r is Ok <==> old(self)@.len() >= 2,
//@|        r is Ok ==> r->Ok_0 as int == old(self)@[0] as int + old(self)@[1] as int * 256
//@|            && final(self)@ == old(self)@.subrange(2, old(self)@.len() as int),
//@exit 0| assert((b2 << 8) | b1 == b2 * 256 + b1) by (bit_vector) requires b1 < 256, b2 < 256;

//@fn rodbus/src/common/buffer.rs | ReadBuffer::read_some | tags=C05,C06,C07
//@|    requires old(self).wf(), old(self)@.len() < 260,
//@|    ensures final(self).wf(),
//@|        final(io).sent == old(io).sent,
//@|        r is Ok ==> r->Ok_0 >= 1,                                    // progress: no spin without input [C07]
//@|        r is Ok ==> final(self)@.len() == old(self)@.len() + r->Ok_0,
//@|        r is Ok ==> (forall|i: int| 0 <= i < old(self)@.len() ==> #[trigger] final(self)@[i] == old(self)@[i]),   // compaction preserves the view [C05]
//@|        r is Ok ==> (forall|i: int| 0 <= i < r->Ok_0 ==> #[trigger] final(self)@[old(self)@.len() + i] == old(io).pending[i]),
//@|        r is Ok ==> r->Ok_0 <= old(io).pending.len() && final(io).pending == old(io).pending.subrange(r->Ok_0 as int, old(io).pending.len() as int),
//@|        r is Err ==> final(self)@ =~= old(self)@,                     // a failed read loses nothing that was buffered
//@|        r is Ok ==> final(io).read_errs == old(io).read_errs,
//@|        final(self)@ + final(io).pending =~= old(self)@ + old(io).pending,   // the byte stream is conserved, whatever the chunking
//@exit 1| lemma_stream_conserved(old(self)@, old(io).pending, self@, io.pending, count as int);
}
