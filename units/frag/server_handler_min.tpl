use vstd::prelude::*;
// only what the accept loop needs from server/handler.rs: the handler map as an opaque, clonable value
pub trait RequestHandler {}
pub struct ServerHandlerMap<T> { pub p: core::marker::PhantomData<T> }
