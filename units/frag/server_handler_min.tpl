use vstd::prelude::*;
// only what the accept loop needs from server/handler.rs: the handler map as an opaque, clonable value
pub trait RequestHandler {}
pub trait AuthorizationHandler {}
pub struct ServerHandlerMap<T> { pub p: core::marker::PhantomData<T> }
impl<T> Clone for ServerHandlerMap<T> {
    #[verifier::external_body]
    fn clone(&self) -> (r: Self) ensures r == *self { unimplemented!() }
}
