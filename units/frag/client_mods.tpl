    pub mod listener {
        use vstd::prelude::*;
        use crate::maybe_async::MaybeAsync;
        // the declaration is /repo's; the ghost log records every notification, in order (C13)
        pub trait Listener<T> {
            spec fn log(&self) -> Seq<T>;
//@fn rodbus/src/client/listener.rs | trait Listener::update | tags=C13 | nobody
//@|    ensures final(self).log() == old(self).log().push(_value),
        }
        // a listener that ignores every notification (its conceptual log stays empty until someone looks - nobody can)
        pub struct NullListener;
        impl NullListener {
            #[verifier::external_body]
            pub fn create<T>() -> (r: Box<dyn Listener<T>>) ensures r.log().len() == 0 { unimplemented!() }
        }
//@trusted client::NullListener::create: shim (a boxed listener whose log is empty)
//@item rodbus/src/client/listener.rs | ClientState | derive=Copy,Clone
//@item rodbus/src/client/listener.rs | PortState | derive=Copy,Clone

        // ---- C13: the legal connection life-cycle, as an automaton over the states the listener observes ----
        pub open spec fn legal_step(a: ClientState, b: ClientState) -> bool {
            match a {
                ClientState::Disabled => b is Connecting || b is Shutdown,
                // Connected only directly after Connecting; a wait state after a failed connect; Disabled after a disable
                ClientState::Connecting => b is Connected || b is WaitAfterFailedConnect || b is Disabled || b is Shutdown,
                ClientState::Connected => b is WaitAfterDisconnect || b is Disabled || b is Shutdown,
                ClientState::WaitAfterFailedConnect(_) => b is Connecting || b is Disabled || b is Shutdown,
                ClientState::WaitAfterDisconnect(_) => b is Connecting || b is Disabled || b is Shutdown,
                ClientState::Shutdown => false,     // Shutdown is last
            }
        }
        pub open spec fn legal(log: Seq<ClientState>) -> bool {
            (log.len() > 0 ==> log[0] is Disabled)              // Disabled first
            && forall|i: int| 0 <= i < log.len() - 1 ==> legal_step(#[trigger] log[i], log[i + 1])
        }
        pub proof fn lemma_legal_push(log: Seq<ClientState>, s: ClientState)
            requires legal(log), log.len() > 0 ==> legal_step(log.last(), s), log.len() == 0 ==> s is Disabled,
            ensures legal(log.push(s)),
        {
            let l2 = log.push(s);
            assert forall|i: int| 0 <= i < l2.len() - 1 implies legal_step(#[trigger] l2[i], l2[i + 1]) by {
                if i < log.len() - 1 { assert(l2[i] == log[i] && l2[i + 1] == log[i + 1]); }
            }
        }
        pub open spec fn port_step(a: PortState, b: PortState) -> bool {
            match a {
                PortState::Disabled => b is Open || b is Wait || b is Shutdown,
                PortState::Open => b is Wait || b is Disabled || b is Shutdown,
                PortState::Wait(_) => b is Open || b is Wait || b is Disabled || b is Shutdown,
                PortState::Shutdown => false,
            }
        }
        pub open spec fn port_legal(log: Seq<PortState>) -> bool {
            (log.len() > 0 ==> log[0] is Disabled)
            && forall|i: int| 0 <= i < log.len() - 1 ==> port_step(#[trigger] log[i], log[i + 1])
        }
        pub proof fn lemma_port_legal_push(log: Seq<PortState>, s: PortState)
            requires port_legal(log), log.len() > 0 ==> port_step(log.last(), s), log.len() == 0 ==> s is Disabled,
            ensures port_legal(log.push(s)),
        {
            let l2 = log.push(s);
            assert forall|i: int| 0 <= i < l2.len() - 1 implies port_step(#[trigger] l2[i], l2[i + 1]) by {
                if i < log.len() - 1 { assert(l2[i] == log[i] && l2[i + 1] == log[i + 1]); }
            }
        }
    }
    pub mod message {
        use vstd::prelude::*;
        use crate::common::function::FunctionCode;
        use crate::common::traits::{Loggable, Serialize};
        use crate::decode::{AppDecodeLevel, DecodeLevel};
        use crate::error::*;
        use crate::exception::ExceptionCode;
        use crate::client::requests::read_bits::ReadBits;
        use crate::client::requests::read_registers::ReadRegisters;
        use crate::client::requests::write_multiple::MultipleWriteRequest;
        use crate::client::requests::write_single::SingleWrite;
        use crate::types::{Indexed, UnitId, AddressRange};
        use crate::shims::scursor::{ReadCursor, WriteCursor};
        use std::time::Duration;

//@include frag/client_promise_shim.tpl
        #[verifier::external_body]
        pub struct Promise<#[verifier::accept_recursive_types] T> { p: core::marker::PhantomData<T> }
        impl<T> Promise<T> {
            pub uninterp spec fn outcome(&self) -> Option<Result<T, RequestError>>;
            #[verifier::external_body]
            pub fn failure(&mut self, err: RequestError)
                ensures final(self).outcome() == (if old(self).outcome() is None { Some(Err::<T, RequestError>(err)) } else { old(self).outcome() }),
            { unimplemented!() }
            #[verifier::external_body]
            pub fn success(&mut self, value: T)
                ensures final(self).outcome() == (if old(self).outcome() is None { Some(Ok::<T, RequestError>(value)) } else { old(self).outcome() }),
            { unimplemented!() }
            #[verifier::external_body]
            pub fn new<F>(callback: F) -> (r: Self) ensures r.outcome() is None { unimplemented!() }
            // a fresh promise is pending
            #[verifier::external_body]
            pub fn channel(tx: crate::shims::tokio::sync::oneshot::Sender<Result<T, RequestError>>) -> (r: Self) ensures r.outcome() is None { unimplemented!() }
        }
//@trusted client::message::Promise<T>::{success,failure}: complete the callback / oneshot at most once (first completion wins) - not cross-checked: Kani cannot handle Box<dyn FnOnce> + oneshot within 20 min

//@item rodbus/src/client/message.rs | Setting
//@item rodbus/src/client/message.rs | Command
//@item rodbus/src/client/message.rs | Request
//@item rodbus/src/client/message.rs | RequestDetails

        // ---- the reference response decoder (C04) ----
        pub enum SpecResponse {
            Bits(crate::client::requests::read_bits::BitsValue),
            Regs(crate::client::requests::read_registers::RegsValue),
            Coil(Indexed<bool>), Reg(Indexed<u16>), Range(AddressRange),
        }
        pub enum SpecReply { Accept(SpecResponse), Exception(ExceptionCode), Bad }

        impl RequestDetails {
            pub open spec fn wf(&self) -> bool {
                match self {
                    RequestDetails::ReadCoils(x) => x.wf(), RequestDetails::ReadDiscreteInputs(x) => x.wf(),
                    RequestDetails::ReadHoldingRegisters(x) => x.wf(), RequestDetails::ReadInputRegisters(x) => x.wf(),
                    RequestDetails::WriteSingleCoil(_) => true, RequestDetails::WriteSingleRegister(_) => true,
                    RequestDetails::WriteMultipleCoils(x) => x.request.wf(), RequestDetails::WriteMultipleRegisters(x) => x.request.wf(),
                }
            }
            // [C03] the protocol quantity limits for writes (reads are limited when the request is built: ReadBitsRange / ReadRegistersRange)
            pub open spec fn in_limits(&self) -> bool {
                match self {
                    RequestDetails::WriteMultipleCoils(x) => x.request.range.count <= 1968,
                    RequestDetails::WriteMultipleRegisters(x) => x.request.range.count <= 123,
                    _ => true,
                }
            }
            pub open spec fn spec_function(&self) -> FunctionCode {
                match self {
                    RequestDetails::ReadCoils(_) => FunctionCode::ReadCoils, RequestDetails::ReadDiscreteInputs(_) => FunctionCode::ReadDiscreteInputs,
                    RequestDetails::ReadHoldingRegisters(_) => FunctionCode::ReadHoldingRegisters, RequestDetails::ReadInputRegisters(_) => FunctionCode::ReadInputRegisters,
                    RequestDetails::WriteSingleCoil(_) => FunctionCode::WriteSingleCoil, RequestDetails::WriteSingleRegister(_) => FunctionCode::WriteSingleRegister,
                    RequestDetails::WriteMultipleCoils(_) => FunctionCode::WriteMultipleCoils, RequestDetails::WriteMultipleRegisters(_) => FunctionCode::WriteMultipleRegisters,
                }
            }
            // the request-specific body check: exactly the length implied by the request; writes must echo the request
            pub open spec fn spec_accept(&self, body: Seq<u8>) -> Option<SpecResponse> {
                match self {
                    RequestDetails::ReadCoils(x) | RequestDetails::ReadDiscreteInputs(x) =>
                        if body.len() == 1 + (x.request.inner.count as int + 7) / 8 {
                            Some(SpecResponse::Bits(crate::client::requests::read_bits::BitsValue { range: x.request.inner,
                                values: Seq::new(x.request.inner.count as nat, |k: int| crate::types::spec_bit(body.subrange(1, body.len() as int), k)) }))
                        } else { None },
                    RequestDetails::ReadHoldingRegisters(x) | RequestDetails::ReadInputRegisters(x) =>
                        if body.len() == 1 + 2 * x.request.inner.count as int {
                            Some(SpecResponse::Regs(crate::client::requests::read_registers::RegsValue { range: x.request.inner,
                                values: Seq::new(x.request.inner.count as nat, |k: int| crate::be16(body.subrange(1, body.len() as int), 2 * k) as u16) }))
                        } else { None },
                    RequestDetails::WriteSingleCoil(x) =>
                        if body.len() == 4 && <Indexed<bool> as crate::common::traits::Parse>::spec_parse(body) == Some(x.request) { Some(SpecResponse::Coil(x.request)) } else { None },
                    RequestDetails::WriteSingleRegister(x) =>
                        if body.len() == 4 && <Indexed<u16> as crate::common::traits::Parse>::spec_parse(body) == Some(x.request) { Some(SpecResponse::Reg(x.request)) } else { None },
                    RequestDetails::WriteMultipleCoils(x) =>
                        if body.len() == 4 && <AddressRange as crate::common::traits::Parse>::spec_parse(body) == Some(x.request.range) { Some(SpecResponse::Range(x.request.range)) } else { None },
                    RequestDetails::WriteMultipleRegisters(x) =>
                        if body.len() == 4 && <AddressRange as crate::common::traits::Parse>::spec_parse(body) == Some(x.request.range) { Some(SpecResponse::Range(x.request.range)) } else { None },
                }
            }
            // [C04] what a reply PDU means for this request
            pub open spec fn spec_reply(&self, pdu: Seq<u8>) -> SpecReply {
                let f = crate::common::function::spec_fc_value(self.spec_function());
                if pdu.len() == 0 { SpecReply::Bad }
                else if pdu[0] == f {
                    match self.spec_accept(pdu.subrange(1, pdu.len() as int)) { Some(v) => SpecReply::Accept(v), None => SpecReply::Bad }
                } else if pdu[0] == f | 0x80 {
                    // a well-formed exception reply is exactly two bytes
                    if pdu.len() == 2 { SpecReply::Exception(crate::exception::spec_exception_of(pdu[1])) } else { SpecReply::Bad }
                } else { SpecReply::Bad }
            }
            // completion state of the request's promise, in the common vocabulary
            pub open spec fn outcome(&self) -> Option<Result<SpecResponse, RequestError>> {
                match self {
                    RequestDetails::ReadCoils(x) | RequestDetails::ReadDiscreteInputs(x) => match x.promise.outcome() {
                        None => None, Some(Ok(v)) => Some(Ok(SpecResponse::Bits(v))), Some(Err(e)) => Some(Err(e)) },
                    RequestDetails::ReadHoldingRegisters(x) | RequestDetails::ReadInputRegisters(x) => match x.promise.outcome() {
                        None => None, Some(Ok(v)) => Some(Ok(SpecResponse::Regs(v))), Some(Err(e)) => Some(Err(e)) },
                    RequestDetails::WriteSingleCoil(x) => match x.promise.outcome() {
                        None => None, Some(Ok(v)) => Some(Ok(SpecResponse::Coil(v))), Some(Err(e)) => Some(Err(e)) },
                    RequestDetails::WriteSingleRegister(x) => match x.promise.outcome() {
                        None => None, Some(Ok(v)) => Some(Ok(SpecResponse::Reg(v))), Some(Err(e)) => Some(Err(e)) },
                    RequestDetails::WriteMultipleCoils(x) => match x.promise.outcome() {
                        None => None, Some(Ok(v)) => Some(Ok(SpecResponse::Range(v))), Some(Err(e)) => Some(Err(e)) },
                    RequestDetails::WriteMultipleRegisters(x) => match x.promise.outcome() {
                        None => None, Some(Ok(v)) => Some(Ok(SpecResponse::Range(v))), Some(Err(e)) => Some(Err(e)) },
                }
            }
            // same request (kind, addresses, values), whatever the promise state
            pub open spec fn same_request(&self, o: &RequestDetails) -> bool {
                match (self, o) {
                    (RequestDetails::ReadCoils(a), RequestDetails::ReadCoils(b)) => a.request == b.request,
                    (RequestDetails::ReadDiscreteInputs(a), RequestDetails::ReadDiscreteInputs(b)) => a.request == b.request,
                    (RequestDetails::ReadHoldingRegisters(a), RequestDetails::ReadHoldingRegisters(b)) => a.request == b.request,
                    (RequestDetails::ReadInputRegisters(a), RequestDetails::ReadInputRegisters(b)) => a.request == b.request,
                    (RequestDetails::WriteSingleCoil(a), RequestDetails::WriteSingleCoil(b)) => a.request == b.request,
                    (RequestDetails::WriteSingleRegister(a), RequestDetails::WriteSingleRegister(b)) => a.request == b.request,
                    (RequestDetails::WriteMultipleCoils(a), RequestDetails::WriteMultipleCoils(b)) => a.request == b.request,
                    (RequestDetails::WriteMultipleRegisters(a), RequestDetails::WriteMultipleRegisters(b)) => a.request == b.request,
                    _ => false,
                }
            }

//@fn rodbus/src/client/message.rs | RequestDetails::function | tags=C03,C04
//@|    ensures r == self.spec_function(),

// [C10] failing a request completes its promise with that error, unless it is already completed (first completion wins)
//@fn rodbus/src/client/message.rs | RequestDetails::fail | tags=C10
//@|    ensures final(self).same_request(old(self)),
//@|        final(self).outcome() == (if old(self).outcome() is None { Some(Err::<SpecResponse, RequestError>(err)) } else { old(self).outcome() }),

//@fn rodbus/src/client/message.rs | RequestDetails::handle_response | tags=C04,C10,C20
//@|    requires cursor.wf(), old(self).wf(), function == old(self).spec_function(),
//@|    ensures final(self).same_request(old(self)),
//@|        r is Ok <==> old(self).spec_accept(cursor.rest()) is Some,
//@|        r is Err ==> final(self).outcome() == old(self).outcome() && (r->Err_0 is BadResponse || r->Err_0 is BadRequest),
//@|        r is Ok ==> final(self).outcome() == (if old(self).outcome() is None { Some(Ok::<SpecResponse, RequestError>(old(self).spec_accept(cursor.rest())->Some_0)) } else { old(self).outcome() }),
        }

        // [C03] the PDU body of each request kind: big-endian start/quantity or address/value; write-multiple adds byte count and data
        impl Serialize for RequestDetails {
            open spec fn ser_pre(&self) -> bool { self.wf() }
            open spec fn ser_ok(&self, out: Seq<u8>) -> bool {
                match self {
                    RequestDetails::ReadCoils(x) | RequestDetails::ReadDiscreteInputs(x) => crate::common::serialize::is_be16_pair(out, x.request.inner.start, x.request.inner.count),
                    RequestDetails::ReadHoldingRegisters(x) | RequestDetails::ReadInputRegisters(x) => crate::common::serialize::is_be16_pair(out, x.request.inner.start, x.request.inner.count),
                    RequestDetails::WriteSingleCoil(x) => crate::common::serialize::is_be16_pair(out, x.request.index, if x.request.value { 0xFF00u16 } else { 0u16 }),
                    RequestDetails::WriteSingleRegister(x) => crate::common::serialize::is_be16_pair(out, x.request.index, x.request.value),
                    RequestDetails::WriteMultipleCoils(x) => x.request.ser_ok(out),
                    RequestDetails::WriteMultipleRegisters(x) => x.request.ser_ok(out),
                }
            }
            open spec fn ser_exc(&self, e: ExceptionCode) -> bool { false }
            open spec fn ser_may_reject(&self) -> bool { true }
//@fn rodbus/src/client/message.rs | Serialize for RequestDetails::serialize | tags=C03,C06
        }
        impl Loggable for RequestDetails {}
        // [C07,C20] the client's request decoding (logging): for a well-formed request, rendering it at any level walks exactly the
        // values of the request without panic or overflow; what is printed is opaque (R28)
//@item rodbus/src/client/message.rs | RequestDetailsDisplay
        impl<'a> RequestDetailsDisplay<'a> {
//@fn rodbus/src/client/message.rs | RequestDetailsDisplay<'a>::new | tags=C07,C20
//@|    ensures r.request == request, r.level == level,
//@fn rodbus/src/client/message.rs | std::fmt::Display for RequestDetailsDisplay<'_>::fmt | tags=C07,C20 | inherent r28 r4 | attr=#[verifier::exec_allows_no_decreases_clause]
//@|    requires self.request.wf(),
//@loop 0|            invariant it__0.wf(),
//@loop 1|            invariant it__1.wf(),
        }

        // ASSUMED queue invariant: a request is well-formed and not yet completed when it is taken from the command queue.
        // (It is established where requests are built - Channel::read_* / write_* create a fresh promise and validated ranges - and
        //  nothing can touch a request while it sits in the mpsc queue.)
        pub broadcast axiom fn axiom_queue_inv(c: Command)
            ensures #[trigger] crate::shims::tokio::sync::mpsc::queue_inv(c) ==> (c matches Command::Request(q) ==> q.details.wf() && q.details.outcome() is None);
//@trusted queue invariant (axiom_queue_inv): requests taken from the command queue are well-formed and pending

        impl Request {
//@fn rodbus/src/client/message.rs | Request::new | tags=C03
//@|    ensures r.id == id, r.timeout == timeout, r.details == details,

// [C04] data only for the genuine matching reply; a well-formed exception reply yields exactly that exception; anything else an error
// that is not an exception.  The promise is completed here only on success - errors are returned, to be failed in ONE place [C10]
//@fn rodbus/src/client/message.rs | Request::handle_response | tags=C04,C07,C10,C20 | r10=0
//@|    requires old(self).details.wf(),
//@|    ensures final(self).id == old(self).id, final(self).timeout == old(self).timeout, final(self).details.same_request(&old(self).details),
//@|        match old(self).details.spec_reply(payload@) {
//@|            SpecReply::Accept(v) => r is Ok && final(self).details.outcome() == (if old(self).details.outcome() is None { Some(Ok::<SpecResponse, RequestError>(v)) } else { old(self).details.outcome() }),
//@|            SpecReply::Exception(e) => r == Err::<(), RequestError>(RequestError::Exception(e)) && final(self).details.outcome() == old(self).details.outcome(),
//@|            SpecReply::Bad => r is Err && !(r->Err_0 is Exception) && final(self).details.outcome() == old(self).details.outcome(),
//@|        },
//@|        r is Err ==> (r->Err_0 is Exception || r->Err_0 is BadResponse || r->Err_0 is BadRequest),

//@fn rodbus/src/client/message.rs | Request::get_error_for | tags=C04,C07 | r10
//@|    requires cursor.wf(), function != crate::common::function::spec_fc_value(expected_function),
//@|    ensures
//@|        (function == crate::common::function::spec_fc_value(expected_function) | 0x80 && cursor.rest().len() == 1)
//@|            ==> r == RequestError::Exception(crate::exception::spec_exception_of(cursor.rest()[0])),
//@|        !(function == crate::common::function::spec_fc_value(expected_function) | 0x80 && cursor.rest().len() == 1) ==> r is BadResponse,
        }
    }
    pub mod task {
//@include frag/client_task_full.tpl
    }
    pub mod channel {
//@include frag/client_channel.tpl
    }
    pub mod ffi_channel {
//@include frag/client_ffi_channel.tpl
    }
