    pub mod message {
        use vstd::prelude::*;
        use crate::common::function::FunctionCode;
        use crate::common::traits::{Loggable, Serialize};
        use crate::decode::{AppDecodeLevel, DecodeLevel};
        use crate::error::*;
        use crate::exception::ExceptionCode;
        use crate::client::requests::read_bits::ReadBits;
        use crate::client::requests::read_registers::ReadRegisters;
        use crate::client::requests::write_multiple::MultipleWriteRequest;
        use crate::client::requests::write_single::SingleWrite;
        use crate::types::{Indexed, UnitId, AddressRange};
        use crate::shims::scursor::{ReadCursor, WriteCursor};
        use std::time::Duration;

//@include frag/client_promise_shim.tpl
        #[verifier::external_body]
        pub struct Promise<#[verifier::accept_recursive_types] T> { p: core::marker::PhantomData<T> }
        impl<T> Promise<T> {
            pub uninterp spec fn outcome(&self) -> Option<Result<T, RequestError>>;
            #[verifier::external_body]
            pub fn failure(&mut self, err: RequestError)
                ensures final(self).outcome() == (if old(self).outcome() is None { Some(Err::<T, RequestError>(err)) } else { old(self).outcome() }),
            { unimplemented!() }
            #[verifier::external_body]
            pub fn success(&mut self, value: T)
                ensures final(self).outcome() == (if old(self).outcome() is None { Some(Ok::<T, RequestError>(value)) } else { old(self).outcome() }),
            { unimplemented!() }
        }
//@trusted client::message::Promise<T>::{success,failure}: complete the callback / oneshot at most once (first completion wins) - Kani harness k_promise_generic

//@item rodbus/src/client/message.rs | Setting
//@item rodbus/src/client/message.rs | Command
//@item rodbus/src/client/message.rs | Request
//@item rodbus/src/client/message.rs | RequestDetails
    }
