use vstd::prelude::*;
use crate::types::{AddressRange, BitIterator, RegisterIterator};
//@item rodbus/src/server/types.rs | WriteCoils
impl<'a> WriteCoils<'a> {
//@fn rodbus/src/server/types.rs | WriteCoils<'a>::new | tags=C02
//@|    ensures r.range == range, r.iterator == iterator,
}
//@item rodbus/src/server/types.rs | WriteRegisters
impl<'a> WriteRegisters<'a> {
//@fn rodbus/src/server/types.rs | WriteRegisters<'a>::new | tags=C02
//@|    ensures r.range == range, r.iterator == iterator,
}
