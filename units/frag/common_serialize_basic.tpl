use vstd::prelude::*;
use crate::common::traits::{Serialize, Loggable};
use crate::error::*;
use crate::exception::{ExceptionCode, spec_exception_value};
use crate::types::{coil_to_u16, coil_from_u16, AddressRange, Indexed, AddressIterator, BitIterator, RegisterIterator, BitIteratorDisplay, RegisterIteratorDisplay};
use crate::shims::scursor::{WriteCursor, ReadCursor, appended};
use crate::common::traits::Parse;

// ---- wire encodings (from the protocol: 16-bit quantities are big-endian) ----
pub open spec fn hi(v: u16) -> u8 { (v / 256) as u8 }
pub open spec fn lo(v: u16) -> u8 { (v % 256) as u8 }
pub open spec fn is_be16_pair(out: Seq<u8>, a: u16, b: u16) -> bool {
    out.len() == 4 && out[0] == hi(a) && out[1] == lo(a) && out[2] == hi(b) && out[3] == lo(b)
}

//@fn rodbus/src/common/serialize.rs | calc_bytes_for_bits | tags=C01,C03,C07
//@|    ensures r is Ok <==> (num_bits + 7) / 8 <= 255, r is Ok ==> r->Ok_0 as int == (num_bits + 7) / 8,
//@fn rodbus/src/common/serialize.rs | calc_bytes_for_registers | tags=C01,C03,C07
//@|    requires num_registers <= 0x7FFF_FFFF,
//@|    ensures r is Ok <==> 2 * num_registers <= 255, r is Ok ==> r->Ok_0 as int == 2 * num_registers,

impl Serialize for AddressRange {
    open spec fn ser_pre(&self) -> bool { true }
    open spec fn ser_ok(&self, out: Seq<u8>) -> bool { is_be16_pair(out, self.start, self.count) }
    open spec fn ser_exc(&self, e: ExceptionCode) -> bool { false }
    open spec fn ser_may_reject(&self) -> bool { false }
//@fn rodbus/src/common/serialize.rs | Serialize for AddressRange::serialize | tags=C01,C03 | r10
}
impl Loggable for AddressRange {}
// [C07,C20] the decode path of this type re-parses the payload defensively: no panic for any payload, any level (R5: inherent, R28)
impl AddressRange {
//@fn rodbus/src/common/serialize.rs | Loggable for AddressRange::log | tags=C07,C20 | inherent r28 r10 r10id=0
}

impl Serialize for crate::exception::ExceptionCode {
    open spec fn ser_pre(&self) -> bool { true }
    open spec fn ser_ok(&self, out: Seq<u8>) -> bool { out.len() == 1 && out[0] == spec_exception_value(*self) }
    open spec fn ser_exc(&self, e: ExceptionCode) -> bool { false }
    open spec fn ser_may_reject(&self) -> bool { false }
//@fn rodbus/src/common/serialize.rs | Serialize for crate::exception::ExceptionCode::serialize | tags=C01 | r10
}
impl Loggable for ExceptionCode {}

impl Serialize for Indexed<bool> {
    open spec fn ser_pre(&self) -> bool { true }
    open spec fn ser_ok(&self, out: Seq<u8>) -> bool { is_be16_pair(out, self.index, if self.value { 0xFF00u16 } else { 0u16 }) }
    open spec fn ser_exc(&self, e: ExceptionCode) -> bool { false }
    open spec fn ser_may_reject(&self) -> bool { false }
//@fn rodbus/src/common/serialize.rs | Serialize for Indexed<bool>::serialize | tags=C01,C03 | r10
}
impl Loggable for Indexed<bool> {}
// [C07,C20] the decode path of this type re-parses the payload defensively: no panic for any payload, any level (R5: inherent, R28)
impl Indexed<bool> {
//@fn rodbus/src/common/serialize.rs | Loggable for Indexed<bool>::log | tags=C07,C20 | inherent r28 r10 r10id=0
}

impl Serialize for Indexed<u16> {
    open spec fn ser_pre(&self) -> bool { true }
    open spec fn ser_ok(&self, out: Seq<u8>) -> bool { is_be16_pair(out, self.index, self.value) }
    open spec fn ser_exc(&self, e: ExceptionCode) -> bool { false }
    open spec fn ser_may_reject(&self) -> bool { false }
//@fn rodbus/src/common/serialize.rs | Serialize for Indexed<u16>::serialize | tags=C01,C03 | r10
}
impl Loggable for Indexed<u16> {}
// [C07,C20] the decode path of this type re-parses the payload defensively: no panic for any payload, any level (R5: inherent, R28)
impl Indexed<u16> {
//@fn rodbus/src/common/serialize.rs | Loggable for Indexed<u16>::log | tags=C07,C20 | inherent r28 r10 r10id=0
}
