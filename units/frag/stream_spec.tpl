// ---- functional specification of framing (pure; from the property statements C05 / C06) ----
use vstd::prelude::*;
use crate::error::FrameParseError;
use crate::common::frame::FrameDestination;
use crate::types::UnitId;

pub use crate::be16;
pub use crate::le16;

// what a byte stream begins with
pub enum StreamNext {
    NeedMore,
    Bad(FrameParseError),
    Frame { dest: FrameDestination, tx: Option<u16>, pdu: Seq<u8>, rest: Seq<u8> },
}

// MBAP: 7-byte header (tx id, protocol id 0, length 1..=254 counting the unit id, unit id), then length-1 bytes
pub open spec fn mbap_next(s: Seq<u8>) -> StreamNext {
    if s.len() < 7 { StreamNext::NeedMore }
    else if be16(s, 2) != 0 { StreamNext::Bad(FrameParseError::UnknownProtocolId(be16(s, 2) as u16)) }
    else if be16(s, 4) > 254 { StreamNext::Bad(FrameParseError::FrameLengthTooBig(be16(s, 4) as usize, 254)) }
    else if be16(s, 4) == 0 { StreamNext::Bad(FrameParseError::MbapLengthZero) }
    else if s.len() < 6 + be16(s, 4) { StreamNext::NeedMore }
    else { StreamNext::Frame {
        dest: FrameDestination::UnitId(UnitId { value: s[6] }), tx: Some(be16(s, 0) as u16),
        pdu: s.subrange(7, 6 + be16(s, 4)), rest: s.subrange(6 + be16(s, 4), s.len() as int) } }
}

pub mod lemmas {
use vstd::prelude::*;
pub broadcast proof fn lemma_add_assoc(a: Seq<u8>, b: Seq<u8>, c: Seq<u8>)
    ensures #[trigger] ((a + b) + c) == a + (b + c)
{
    assert(((a + b) + c) =~= a + (b + c));
}
}

// prefix stability [C05]: once a stream begins with a frame (or a malformed header), appending more bytes
// - i.e. any other segmentation of the same stream - does not change that frame, only the remainder
pub proof fn lemma_mbap_prefix_stable(s: Seq<u8>, t: Seq<u8>)
    ensures
        mbap_next(s) matches StreamNext::Bad(e) ==> mbap_next(s + t) == StreamNext::Bad(e),
        mbap_next(s) matches StreamNext::Frame { dest, tx, pdu, rest } ==>
            mbap_next(s + t) == (StreamNext::Frame { dest, tx, pdu, rest: rest + t }),
{
    if s.len() >= 7 {
        assert(forall|i: int| 0 <= i < s.len() ==> #[trigger] (s + t)[i] == s[i]);
        if mbap_next(s) is Frame {
            let n = 6 + be16(s, 4);
            assert((s + t).subrange(7, n) =~= s.subrange(7, n));
            assert((s + t).subrange(n, (s + t).len() as int) =~= s.subrange(n, s.len() as int) + t);
        }
    }
}
