// ---- collecting the decoded values into a Vec for the future-style client API (C04 / C10)
impl<'a> BitIterator<'a> {
    // stand-in for std's Iterator::collect::<Vec<_>>() (in the extracted text `next` is an inherent method - R5 - so the trait
    // method is not available): ASSUMED to yield exactly the items `next` yields from the current position, in order
    #[verifier::external_body]
    pub fn collect(self) -> (r: Vec<Indexed<bool>>)
        requires self.wf(),
        ensures r@ == Seq::new((self.range.count - self.pos) as nat, |k: int| self.spec_item(self.pos as int + k)),
    { unimplemented!() }
}
//@trusted Iterator::collect::<Vec<_>>() on BitIterator: yields the items of `next` (proved) in order
impl<'a> RegisterIterator<'a> {
// (as_chunks / enumerate / from_be_bytes are outside the Verus subset: assumed contract, cross-checked by the bounded Kani
//  harness k_register_collect_vec)
//@fn rodbus/src/types.rs | RegisterIterator<'a>::collect_vec | tags=C04,C10 | ext_body
//@|    requires self.wf(), self.pos == 0,
//@|    ensures r@ == Seq::new(self.range.count as nat, |k: int| self.spec_item(k)),
}
