// ---- ffi/rodbus-ffi/src/server.rs: creating servers through the C ABI (C16: the filter is forwarded; C18: configuration passes through) ----
use vstd::std_specs::convert::FromSpecImpl;
use crate::rodbus::server::{ServerHandle, ServerHandlerMap, TlsServerConfig, AuthorizationHandler};
use crate::{RuntimeHandle, Runtime};
use std::net::SocketAddr;
use std::collections::HashMap;
use crate::rodbus;
use crate::rodbus::server::WildcardIPv4;

//@item ffi/rodbus-ffi/src/server.rs | AddressFilter | derive=
//@item ffi/rodbus-ffi/src/server.rs | Server
//@item ffi/rodbus-ffi/src/server.rs | DeviceMap
impl DeviceMap {
//@fn ffi/rodbus-ffi/src/server.rs | DeviceMap::drain_and_convert | tags=C18 | ext_body
}
//@item ffi/rodbus-ffi/src/server.rs | AuthorizationHandlerWrapper
impl AuthorizationHandlerWrapper {
//@fn ffi/rodbus-ffi/src/server.rs | AuthorizationHandlerWrapper::new | tags=C08
//@|    ensures r.inner == inner,
    // (AuthorizationHandler::wrap: the default method `Arc::new(self)` of the rodbus trait)
    #[verifier::external_body]
    pub fn wrap(self) -> (r: std::sync::Arc<dyn AuthorizationHandler>) { unimplemented!() }
}

// `Box::new` / `Box::into_raw` as used by the constructors: the raw pointer handed to C designates the boxed value
pub uninterp spec fn pointee<T>(p: *mut T) -> T;
pub struct Box<T> { pub v: T }
impl<T> Box<T> {
    #[verifier::external_body]
    pub fn new(v: T) -> (r: Box<T>) ensures r.v == v { unimplemented!() }
    #[verifier::external_body]
    pub fn into_raw(b: Box<T>) -> (r: *mut T) ensures pointee(r) == b.v { unimplemented!() }
}
//@trusted Box::new / Box::into_raw (FFI server constructors): shadowed by a shim - the returned raw pointer designates the boxed value (`pointee`)

// [C16] the C-ABI filter object converts to the rodbus filter of the same kind with the same content
pub open spec fn same_filter(f: &AddressFilter, g: crate::rodbus::server::AddressFilter) -> bool {
    match (*f, g) {
        (AddressFilter::Any, crate::rodbus::server::AddressFilter::Any) => true,
        (AddressFilter::AnyOf(a), crate::rodbus::server::AddressFilter::AnyOf(b)) => a@ == b@,
        (AddressFilter::WildcardIpv4(a), crate::rodbus::server::AddressFilter::WildcardIpv4(b)) => a == b,
        _ => false,
    }
}
impl<'a> FromSpecImpl<&'a AddressFilter> for crate::rodbus::server::AddressFilter {
    open spec fn obeys_from_spec() -> bool { false }
    open spec fn from_spec(f: &'a AddressFilter) -> Self { crate::rodbus::server::AddressFilter::Any }
}
impl From<&AddressFilter> for crate::rodbus::server::AddressFilter {
//@fn ffi/rodbus-ffi/src/server.rs | From<&AddressFilter> for rodbus::server::AddressFilter::from | tags=C16
//@|    ensures same_filter(from, r),
}

// [C16,C18] server_create_tcp: the task behind the returned server object is configured with the caller's filter, session limit and
// decode level. (statements 0..3 - null checks and address parsing - are not part of the verified text, see R23)
//@fn ffi/rodbus-ffi/src/server.rs | server_create_tcp | tags=C16,C18 | r23=4 r10
//@suffix| pub fn server_create_tcp(runtime: &crate::Runtime, filter: &crate::AddressFilter, address: SocketAddr, endpoints: &mut crate::DeviceMap,
//@suffix|     max_sessions: u16, decode_level: ffi::DecodeLevel) -> (r: Result<*mut crate::Server, ffi::ParamError>)
//@|    ensures r matches Ok(p) ==> same_filter(filter, pointee(p).inner.cfg_filter()),    // [C16]
//@|        r matches Ok(p) ==> pointee(p).inner.cfg_max_sessions() == max_sessions as usize,
//@|        r matches Ok(p) ==> pointee(p).inner.cfg_decode() == crate::helpers::conversions::spec_decode_level(decode_level),
//@|        r matches Ok(p) ==> pointee(p).inner.cfg_tls() is None,

// [C16,C18] server_create_tls_impl (both TLS variants): same, plus the TLS configuration and the authorization handler (if any)
// (statements 0..6 - null checks, address parsing, construction of the TLS configuration object - are not part of the verified text)
//@fn ffi/rodbus-ffi/src/server.rs | server_create_tls_impl | tags=C16,C18 | r23=8 r10
//@suffix| pub fn server_create_tls_impl(runtime: &crate::Runtime, filter: &crate::AddressFilter, address: SocketAddr, endpoints: &mut crate::DeviceMap,
//@suffix|     max_sessions: u16, tls_config: TlsServerConfig, auth_handler: Option<ffi::AuthorizationHandler>, decode_level: ffi::DecodeLevel) -> (r: Result<*mut crate::Server, ffi::ParamError>)
//@|    ensures r matches Ok(p) ==> same_filter(filter, pointee(p).inner.cfg_filter()),    // [C16]
//@|        r matches Ok(p) ==> pointee(p).inner.cfg_max_sessions() == max_sessions as usize,
//@|        r matches Ok(p) ==> pointee(p).inner.cfg_decode() == crate::helpers::conversions::spec_decode_level(decode_level),
//@|        r matches Ok(p) ==> (pointee(p).inner.cfg_tls() matches Some(c) && c.0 == tls_config && (c.1 is Some <==> auth_handler is Some)),

// [C19] a transaction runs on the database of the unit it names, through the reference that stands for that unit's held lock
// (the lock is what makes the transaction atomic for clients: get_reply holds the same lock for a whole reply); an unknown unit id
// is reported and the callback is not run
//@fn ffi/rodbus-ffi/src/server.rs | server_update_database | tags=C19 | r24 r10 r10id=1
//@|    ensures !old(server).map.has(crate::rodbus::UnitId { value: unit_id }) ==> r == Err::<(), ffi::ParamError>(ffi::ParamError::InvalidUnitId),
//@|        old(server).map.has(crate::rodbus::UnitId { value: unit_id }) ==> r is Ok && transaction.ran(),
// not under contract (CStr / address text parsing, HashSet glue): guarded against change only
//@reviewed ffi/rodbus-ffi/src/server.rs | get_socket_addr | tags=C18
//@reviewed ffi/rodbus-ffi/src/server.rs | parse_address_filter | tags=C16,C18
//@reviewed ffi/rodbus-ffi/src/server.rs | address_filter_create | tags=C16,C18
//@reviewed ffi/rodbus-ffi/src/server.rs | address_filter_add | tags=C16,C18
