use crate::common::frame::{FrameInfo, FrameType, FunctionField, is_mbap_frame};
use crate::common::traits::Serialize;
use crate::shims::scursor::WriteCursor;

// [C03] transaction id, protocol id 0, length, unit id, function code, then the body; or an error and nothing usable
//@fn rodbus/src/tcp/frame.rs | format_mbap | tags=C01,C03 | r10 r10id=5 | sub=fn format_mbap(=>fn format_mbap<S: Serialize + ?Sized>( | sub=&dyn Serialize=>&S
//@|    requires old(cursor).wf(), old(cursor).pos == 0, old(cursor).cap() <= 260, msg.ser_pre(),
//@|        header.tx_id is Some,      // "TCP requires tx id": every caller formats TCP frames with a TCP header
//@|    ensures final(cursor).wf(), final(cursor).cap() == old(cursor).cap(), final(final(cursor).dest)@ == final(old(cursor).dest)@,
//@|        r is Ok ==> is_mbap_frame(final(cursor).buf(), final(cursor).pos as int, header.tx_id->Some_0.v(), header.destination.spec_value(), function.spec_value(), msg)
//@|            && r->Ok_0.pdu_body.start == 8 && r->Ok_0.pdu_body.end == final(cursor).pos,
//@|        r matches Err(RequestError::Exception(e)) ==> msg.ser_exc(e),
//@|        r is Err ==> (r->Err_0 is Exception || r->Err_0 is Internal || (r->Err_0 is BadRequest && msg.ser_may_reject())),
//@entry| broadcast use crate::shims::scursor::lemma_subrange_update_outside;

// ---- C07 / C20: frame-level decoding (logging) of an MBAP frame: header fields and, at payload level, the hex dump
//@item rodbus/src/tcp/frame.rs | MbapDisplay
impl<'a> MbapDisplay<'a> {
//@fn rodbus/src/tcp/frame.rs | MbapDisplay<'a>::new | tags=C07,C20
//@|    ensures r.level == level, r.header == header, r.bytes@ == bytes@,
//@fn rodbus/src/tcp/frame.rs | std::fmt::Display for MbapDisplay<'a>::fmt | tags=C07,C20 | inherent r28
}
