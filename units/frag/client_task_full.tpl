use vstd::prelude::*;
use crate::error::*;
use std::num::NonZeroUsize;
use std::time::Duration;
use crate::common::phys::PhysLayer;
use crate::shims::tokio::time::Instant;
use crate::shims::tokio;
use crate::client::message::{Command, Request, Setting, RequestDetails, SpecReply, SpecResponse};
use crate::common::frame::{FrameHeader, FrameWriter, FramedReader, TxId, frame_ok};
use crate::common::traits::Serialize;
use crate::decode::DecodeLevel;

//@item rodbus/src/client/task.rs | SessionError | derive=
//@item rodbus/src/client/task.rs | StateChange

impl SessionError {
// C05/C10: framing and I/O errors end the session; every other request error leaves it running
//@fn rodbus/src/client/task.rs | SessionError::from_request_err | tags=C05,C10,C12
//@|    ensures
//@|        err matches RequestError::Io(x) ==> r == Some(SessionError::IoError(x)),
//@|        err is BadFrame ==> r == Some(SessionError::BadFrame),
//@|        !(err is Io) && !(err is BadFrame) ==> r is None,
}

//@item rodbus/src/client/task.rs | TimeoutCounterState
//@item rodbus/src/client/task.rs | TimeoutCounter

// ---- C12: the consecutive-timeout counter as a state machine ----
impl TimeoutCounter {
    pub open spec fn limit(&self) -> Option<usize> {
        match self.state { TimeoutCounterState::Disabled => None, TimeoutCounterState::Enabled { current, max } => Some(max) }
    }
    // number of consecutive timeouts counted so far
    pub open spec fn count(&self) -> usize {
        match self.state { TimeoutCounterState::Disabled => 0, TimeoutCounterState::Enabled { current, max } => current }
    }

// (NonZero::get has a sealed generic signature that assume_specification cannot name: the body is left to Kani,
//  harness k_timeout_counter_new [complete], and only the contract is used here)
//@fn rodbus/src/client/task.rs | TimeoutCounter::new | tags=C12 | ext_body
//@|    ensures r.count() == 0,
//@|        max_timeouts is None ==> r.limit() is None,
//@|        max_timeouts is Some ==> r.limit() == Some(crate::nz_value(max_timeouts->Some_0)) && crate::nz_value(max_timeouts->Some_0) >= 1,

//@fn rodbus/src/client/task.rs | TimeoutCounter::reset | tags=C12
//@|    ensures final(self).count() == 0, final(self).limit() == old(self).limit(),

// without a limit, timeouts never drop the connection; with limit N the N-th consecutive timeout (and none before) does
// (`current >= max` compares two `&mut usize`; the installed vstd has no specification for PartialOrd on `&mut` references
//  and its generic signature cannot be named by assume_specification: the body is decided by Kani, harness
//  k_timeout_counter_increment [complete: every state, every current/max], and only the contract is used by Verus callers)
//@fn rodbus/src/client/task.rs | TimeoutCounter::increment | tags=C12,C07 | ext_body
//@|    ensures final(self).limit() == old(self).limit(),
//@|        old(self).limit() is None ==> r is Ok,
//@|        old(self).limit() matches Some(n) ==> final(self).count() as int == (if old(self).count() as int + 1 <= usize::MAX as int { old(self).count() as int + 1 } else { usize::MAX as int }),
//@|        old(self).limit() matches Some(n) ==> (r is Err <==> final(self).count() >= n),
//@|        old(self).limit() matches Some(n) ==> (r is Err ==> r == Err::<(), SessionError>(SessionError::MaxTimeouts(n))),
}

// "after exactly N timeouts in a row": from a reset counter with limit n >= 1, the first n-1 increments succeed and the n-th fails
pub proof fn lemma_nth_timeout_drops(n: usize, k: usize)
    requires n >= 1, k >= 1,
    ensures
        // after k-1 successful increments from zero the count is k-1; the k-th increment errs iff k >= n
        (k < n ==> !((k - 1) as int + 1 >= n as int)),
        (k == n ==> ((k - 1) as int + 1 >= n as int)),
{}

//@item rodbus/src/client/task.rs | ClientLoop

impl From<Shutdown> for SessionError {
//@fn rodbus/src/client/task.rs | From<Shutdown> for SessionError::from | tags=C10
//@|    ensures r is Shutdown,
}
impl vstd::std_specs::convert::FromSpecImpl<Shutdown> for SessionError {
    open spec fn obeys_from_spec() -> bool { true }
    open spec fn from_spec(s: Shutdown) -> Self { SessionError::Shutdown }
}
impl From<Shutdown> for StateChange {
//@fn rodbus/src/client/task.rs | From<Shutdown> for StateChange::from | tags=C10
//@|    ensures r is Shutdown,
}
impl vstd::std_specs::convert::FromSpecImpl<Shutdown> for StateChange {
    open spec fn obeys_from_spec() -> bool { true }
    open spec fn from_spec(s: Shutdown) -> Self { StateChange::Shutdown }
}

impl ClientLoop {
    pub open spec fn wf(&self) -> bool { self.reader.wf() && (self.writer.is_tcp() <==> self.reader.parser is Tcp) }

// [C13] a channel starts disabled; [C12] the configured consecutive-timeout limit is the counter's limit
//@fn rodbus/src/client/task.rs | ClientLoop::new | tags=C11,C12,C13,C20
//@|    requires reader.wf(), writer.is_tcp() <==> reader.parser is Tcp,
//@|    ensures r.wf(), r.rx == rx, r.writer == writer, r.reader == reader, r.decode == decode, !r.enabled,
//@|        r.timeout_counter.count() == 0,
//@|        max_timeouts is None ==> r.timeout_counter.limit() is None,
//@|        max_timeouts is Some ==> r.timeout_counter.limit() == Some(crate::nz_value(max_timeouts->Some_0)),

//@fn rodbus/src/client/task.rs | ClientLoop::is_enabled | tags=C13
//@|    ensures r == self.enabled,

// [C20] a decode-level change modifies the level only; [C13] enable / disable modify the flag only
//@fn rodbus/src/client/task.rs | ClientLoop::change_setting | tags=C13,C20
//@|    ensures final(self).rx == old(self).rx, final(self).writer == old(self).writer, final(self).reader == old(self).reader,
//@|        final(self).tx_id == old(self).tx_id, final(self).timeout_counter == old(self).timeout_counter,
//@|        setting matches Setting::DecodeLevel(level) ==> final(self).decode == level && final(self).enabled == old(self).enabled,
//@|        setting is Enable ==> final(self).enabled && final(self).decode == old(self).decode,
//@|        setting is Disable ==> !final(self).enabled && final(self).decode == old(self).decode,

    pub open spec fn same_config(&self, o: &ClientLoop) -> bool {
        self.writer.is_tcp() == o.writer.is_tcp() && self.decode == o.decode && self.enabled == o.enabled && self.rx == o.rx
    }

// one transaction: format, write once, wait for the reply with this transaction id or the deadline
//@fn rodbus/src/client/task.rs | ClientLoop::execute_request | tags=C03,C04,C10,C11,C12,C20 | r3 r3id r21 r10=0,1 r10id=0 r18ty=response:crate::common::frame::Frame | attr=#[verifier::exec_allows_no_decreases_clause] #[verifier::loop_isolation(false)] #[verifier::allow_complex_invariants]
//@|    requires old(self).wf(), old(request).details.wf(),
//@|    ensures final(self).wf(), final(self).same_config(old(self)), final(self).tx_id == old(self).tx_id, final(self).timeout_counter == old(self).timeout_counter,
//@|        final(request).id == old(request).id, final(request).timeout == old(request).timeout, final(request).details.same_request(&old(request).details),
//@|        // [C03] exactly one frame - the protocol encoding of the request, stamped with this transaction id - or nothing at all
//@|        final(io).sent == old(io).sent
//@|            || (final(io).sent.len() == old(io).sent.len() + 1 && final(io).sent.subrange(0, old(io).sent.len() as int) =~= old(io).sent
//@|                && frame_ok(old(self).writer.is_tcp(), final(io).sent.last(), final(io).sent.last().len() as int,
//@|                     FrameHeader { destination: crate::common::frame::FrameDestination::UnitId(old(request).id), tx_id: Some(tx_id) },
//@|                     crate::common::function::spec_fc_value(old(request).details.spec_function()), &old(request).details)),
//@|        // a request the serializer rejects (outside the protocol limits) is never transmitted
//@|        !old(request).details.in_limits() ==> r is Err && final(io).sent == old(io).sent,
//@|        final(io).sent == old(io).sent ==> r is Err,
//@|        // [C04,C10] the promise is completed here only with a value; every error is returned to the one place that fails the request
//@|        r is Ok ==> old(request).details.outcome() is None ==> final(request).details.outcome() matches Some(Ok(_)),
//@|        r is Err ==> final(request).details.outcome() == old(request).details.outcome(),
//@|        !(r matches Err(RequestError::Shutdown)) && !(r matches Err(RequestError::NoConnection)),
//@|        // [C10] "timeout" is reported only when no read of the connection failed while the reply was awaited: an I/O error is never turned into a timeout
//@|        r matches Err(RequestError::ResponseTimeout) ==> final(io).read_errs == old(io).read_errs,
//@loop 0|            invariant self.wf(), self.same_config(old(self)), self.tx_id == old(self).tx_id, self.timeout_counter == old(self).timeout_counter,
//@loop 0|                *request == *old(request),
//@loop 0|                io.sent.len() == old(io).sent.len() + 1 && io.sent.subrange(0, old(io).sent.len() as int) =~= old(io).sent
//@loop 0|                    && frame_ok(old(self).writer.is_tcp(), io.sent.last(), io.sent.last().len() as int,
//@loop 0|                         FrameHeader { destination: crate::common::frame::FrameDestination::UnitId(old(request).id), tx_id: Some(tx_id) },
//@loop 0|                         crate::common::function::spec_fc_value(old(request).details.spec_function()), &old(request).details),
//@loop 0|                // [C12] while the reply is awaited the clock never passes (transmission instant + the request's own timeout)
//@loop 0|                clk__.t <= t_send + crate::nanos(request.timeout), io.read_errs == old(io).read_errs,
//@loop 0|            ensures response.wf(),
//@loop 0|                // [C11] a reply whose transaction id differs from the outstanding request's never becomes its result
//@loop 0|                response.header.tx_id matches Some(t) ==> t == tx_id,
//@afterloop 0| // (the function is verified with loop_isolation(false), where Verus neither checks nor assumes a loop `ensures`:
//@afterloop 0| //  the same two facts are therefore asserted right after the loop, on the real paths out of it)
//@afterloop 0| assert(response.wf());
//@afterloop 0| // [C11] a reply whose transaction id differs from the outstanding request's never becomes its result
//@afterloop 0| assert(response.header.tx_id matches Some(t) ==> t == tx_id);
//@beforeloop 0| broadcast use crate::axiom_nanos_nonneg; let ghost t_send = clk__.t;
//@timer 0| // [C12] the request times out exactly when its own timeout has elapsed since transmission (one deadline, never re-armed)
//@timer 0| assert(clk__.t == t_send + crate::nanos(request.timeout));

// [C10] exactly one completion per request taken; [C11] one transaction id per request; [C12] the consecutive-timeout rule
//@fn rodbus/src/client/task.rs | ClientLoop::run_one_request | tags=C10,C11,C12,C20 | r10=0 r10id=0
//@|    requires old(self).wf(), old(request).details.wf(), old(request).details.outcome() is None,
//@|    ensures final(self).wf(), final(self).same_config(old(self)),
//@|        final(request).details.same_request(&old(request).details),
//@|        // [C11] the id advances by one for every request taken from the queue, wrapping after 65535
//@|        final(self).tx_id.v() as int == (old(self).tx_id.v() as int + 1) % 65536,
//@|        // [C10] the request is completed - with a value or an error - by the time this returns
//@|        final(request).details.outcome() is Some,
//@|        final(io).sent == old(io).sent || (final(io).sent.len() == old(io).sent.len() + 1 && final(io).sent.subrange(0, old(io).sent.len() as int) =~= old(io).sent),
//@|        final(self).timeout_counter.limit() == old(self).timeout_counter.limit(),
//@|        // [C12] success, exception or a bad reply restart the count; a timeout adds one; N in a row end the session
//@|        final(request).details.outcome() matches Some(Ok(_)) ==> r is Ok && final(self).timeout_counter.count() == 0,
//@|        final(request).details.outcome() matches Some(Err(e)) ==> (
//@|            (e is ResponseTimeout ==> final(self).timeout_counter.count() as int == (if old(self).timeout_counter.limit() is None { 0int }
//@|                    else if old(self).timeout_counter.count() as int + 1 <= usize::MAX as int { old(self).timeout_counter.count() as int + 1 } else { usize::MAX as int })
//@|                && (r is Err <==> (old(self).timeout_counter.limit() matches Some(n) && final(self).timeout_counter.count() >= n))
//@|                && (r is Err ==> r == Err::<(), SessionError>(SessionError::MaxTimeouts(old(self).timeout_counter.limit()->Some_0))))
//@|            && (e matches RequestError::Io(k) ==> r == Err::<(), SessionError>(SessionError::IoError(k)))      // the error that broke the connection
//@|            && (e is BadFrame ==> r == Err::<(), SessionError>(SessionError::BadFrame))
//@|            && (!(e is ResponseTimeout) && !(e is Io) && !(e is BadFrame) ==> r is Ok && final(self).timeout_counter.count() == 0)
//@|            && !(e is Shutdown) && !(e is NoConnection)),
//@|        r is Err ==> (r->Err_0 is MaxTimeouts || r->Err_0 is IoError || r->Err_0 is BadFrame),

//@fn rodbus/src/client/task.rs | ClientLoop::run_cmd | tags=C10,C11,C13,C20
//@|    requires old(self).wf(), cmd matches Command::Request(q) ==> q.details.wf() && q.details.outcome() is None,
//@|    ensures final(self).wf(), final(self).writer.is_tcp() == old(self).writer.is_tcp(),
//@|        cmd is Shutdown ==> r == Err::<(), SessionError>(SessionError::Shutdown),
//@|        r matches Err(SessionError::Disabled) ==> !final(self).enabled,
//@|        cmd matches Command::Setting(s) ==> final(self).tx_id == old(self).tx_id && final(io).sent == old(io).sent
//@|            && (r is Err <==> !final(self).enabled) && (r is Err ==> r == Err::<(), SessionError>(SessionError::Disabled)),
//@|        // [C11] the transaction id advances by exactly one for a request and not at all for anything else
//@|        cmd is Request ==> final(self).tx_id.v() as int == (old(self).tx_id.v() as int + 1) % 65536,
//@|        cmd is Shutdown ==> final(self).tx_id == old(self).tx_id,

// [C13] while not connected: a request fails immediately with NoConnection instead of queueing
//@fn rodbus/src/client/task.rs | ClientLoop::fail_next_request | tags=C10,C13 | r10
//@|    requires old(self).wf(),
//@|    ensures final(self).wf(), final(self).writer == old(self).writer, final(self).reader == old(self).reader, final(self).tx_id == old(self).tx_id,
//@|        r is Ok ==> final(self).enabled || final(self).enabled == old(self).enabled,
//@|        r matches Err(StateChange::Disable) ==> !final(self).enabled,
//@entry| broadcast use crate::client::message::axiom_queue_inv;

//@fn rodbus/src/client/task.rs | ClientLoop::fail_requests | tags=C13 | attr=#[verifier::exec_allows_no_decreases_clause]
//@|    requires old(self).wf(),
//@|    ensures final(self).wf(), final(self).tx_id == old(self).tx_id, r is Disable ==> !final(self).enabled,
//@|        final(self).writer.is_tcp() == old(self).writer.is_tcp(),
//@loop 0|            invariant self.wf(), self.tx_id == old(self).tx_id, self.writer.is_tcp() == old(self).writer.is_tcp(),

//@fn rodbus/src/client/task.rs | ClientLoop::fail_requests_for | tags=C13,C14 | r3 r21
//@|    requires old(self).wf(),
//@|    ensures final(self).wf(), final(self).tx_id == old(self).tx_id, r matches Err(StateChange::Disable) ==> !final(self).enabled,
//@|        final(self).writer.is_tcp() == old(self).writer.is_tcp(),
//@entry| broadcast use crate::axiom_nanos_nonneg; let ghost t0 = clk__.t; let ghost mut waited = false;
//@timer 0| // [C14] the delay asked for is the delay actually waited: Ok is returned exactly `duration` after the call, never earlier
//@timer 0| waited = true; assert(clk__.t == t0 + crate::nanos(duration));
//@exit *| assert(r__ is Ok ==> waited);

//@fn rodbus/src/client/task.rs | ClientLoop::wait_for_enabled | tags=C13 | attr=#[verifier::exec_allows_no_decreases_clause]
//@|    requires old(self).wf(),
//@|    ensures final(self).wf(), final(self).tx_id == old(self).tx_id, r is Ok ==> final(self).enabled,
//@|        final(self).writer.is_tcp() == old(self).writer.is_tcp(),
//@loop 0|            invariant self.wf(), self.tx_id == old(self).tx_id, self.writer.is_tcp() == old(self).writer.is_tcp(),

// [C11] frames arriving while no request is outstanding are dropped; [C05] a framing error ends the session
//@fn rodbus/src/client/task.rs | ClientLoop::poll | tags=C05,C10,C11,C13 | r3 r10
//@|    requires old(self).wf(),
//@|    ensures final(self).wf(), final(self).writer.is_tcp() == old(self).writer.is_tcp(),
//@|        r matches Err(SessionError::Disabled) ==> !final(self).enabled,
//@|        // [C11] one poll takes at most one request from the queue: the id is unchanged or advanced by one
//@|        final(self).tx_id == old(self).tx_id || final(self).tx_id.v() as int == (old(self).tx_id.v() as int + 1) % 65536,
//@entry| broadcast use crate::client::message::axiom_queue_inv;

// [C12] the count is cleared at session start
//@fn rodbus/src/client/task.rs | ClientLoop::run | tags=C11,C12,C13 | attr=#[verifier::exec_allows_no_decreases_clause]
//@|    requires old(self).wf(),
//@|    ensures final(self).wf(), final(self).writer.is_tcp() == old(self).writer.is_tcp(),
//@|        r is Disabled ==> !final(self).enabled,      // [C13] Disabled is reported only after a disable
//@loop 0|            invariant self.wf(), self.writer.is_tcp() == old(self).writer.is_tcp(),
//@beforeloop 0| // [C11] a new session continues with the transaction id the previous one left (the id belongs to the queue, not to the connection);
//@beforeloop 0| // [C12] the consecutive-timeout count starts at zero in every session
//@beforeloop 0| assert(self.tx_id == old(self).tx_id);
//@beforeloop 0| assert(self.timeout_counter.count() == 0 && self.timeout_counter.limit() == old(self).timeout_counter.limit());
}
