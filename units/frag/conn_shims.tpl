pub mod maybe_async {
    use vstd::prelude::*;
    // the value a user callback computes, now or later; only awaited, never inspected
    pub struct MaybeAsync<T> { pub v: T }
    impl<T> MaybeAsync<T> {
        #[verifier::external_body]
        pub async fn get(self) -> (r: T) { unimplemented!() }
    }
}
pub mod retry {
    use vstd::prelude::*;
    use std::time::Duration;
    // ghost observation of how the strategy is used (C14 use sites)
    pub enum RetryCall { Reset, AfterFailedConnect(Duration), AfterDisconnect(Duration) }
    // the declarations are /repo's
    pub trait RetryStrategy {
        spec fn calls(&self) -> Seq<RetryCall>;
//@fn rodbus/src/retry.rs | trait RetryStrategy::reset | tags=C14
//@|    ensures final(self).calls() == old(self).calls().push(RetryCall::Reset),
//@fn rodbus/src/retry.rs | trait RetryStrategy::after_failed_connect | tags=C14
//@|    ensures final(self).calls() == old(self).calls().push(RetryCall::AfterFailedConnect(r)),
//@fn rodbus/src/retry.rs | trait RetryStrategy::after_disconnect | tags=C14
//@|    ensures final(self).calls() == old(self).calls().push(RetryCall::AfterDisconnect(r)),
    }
}
