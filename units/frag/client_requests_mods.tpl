        pub mod read_bits {
            use vstd::prelude::*;
            use crate::common::function::FunctionCode;
            use crate::common::traits::Serialize;
            use crate::decode::AppDecodeLevel;
            use crate::error::RequestError;
            use crate::types::{AddressRange, BitIterator, ReadBitsRange, Indexed};
            use crate::shims::tokio;
            use crate::shims::scursor::{ReadCursor, WriteCursor};

            // what a completed read-bits request delivers: the requested range and one value per address, in order
            pub struct BitsValue { pub range: AddressRange, pub values: Seq<bool> }
//@include frag/client_promise_shim.tpl
            #[verifier::external_body]
            pub struct Promise { p: core::marker::PhantomData<u8> }
            impl Promise {
                pub uninterp spec fn outcome(&self) -> Option<Result<BitsValue, RequestError>>;
                #[verifier::external_body]
                pub fn failure(&mut self, err: RequestError)
                    ensures final(self).outcome() == (if old(self).outcome() is None { Some(Err::<BitsValue, RequestError>(err)) } else { old(self).outcome() }),
                { unimplemented!() }
                #[verifier::external_body]
                pub fn success(&mut self, iter: BitIterator)
                    requires iter.wf(), iter.pos == 0,
                    ensures final(self).outcome() == (if old(self).outcome() is None { Some(Ok::<BitsValue, RequestError>(BitsValue { range: iter.range, values: iter.spec_values() })) } else { old(self).outcome() }),
                { unimplemented!() }
                #[verifier::external_body]
                pub fn new<T>(callback: T) -> (r: Self) ensures r.outcome() is None { unimplemented!() }
                // a fresh promise is pending
                #[verifier::external_body]
                pub fn oneshot(tx: crate::shims::tokio::sync::oneshot::Sender<Result<Vec<crate::types::Indexed<bool>>, RequestError>>) -> (r: Self) ensures r.outcome() is None { unimplemented!() }
            }
//@trusted client::requests::read_bits::Promise::{success,failure}: complete the callback / oneshot at most once (first completion wins) - not cross-checked: Kani cannot handle Box<dyn FnOnce> + oneshot within 20 min
//@item rodbus/src/client/requests/read_bits.rs | ReadBits
            impl ReadBits {
                pub open spec fn wf(&self) -> bool { self.request.inner.wf() && self.request.inner.count <= 2000 }
//@fn rodbus/src/client/requests/read_bits.rs | ReadBits::new | tags=C03
//@|    ensures r.request == request, r.promise == promise,
//@fn rodbus/src/client/requests/read_bits.rs | ReadBits::channel | tags=C03,C10
//@|    ensures r.request == request, r.promise.outcome() is None,
//@fn rodbus/src/client/requests/read_bits.rs | ReadBits::serialize | tags=C03
//@|    requires old(cursor).wf(),
//@|    ensures final(cursor).wf(), final(cursor).cap() == old(cursor).cap(), final(cursor).pos >= old(cursor).pos,
//@|        final(final(cursor).dest)@ == final(old(cursor).dest)@,
//@|        (forall|i: int| 0 <= i < old(cursor).pos ==> #[trigger] final(cursor).buf()[i] == old(cursor).buf()[i]),
//@|        r is Ok ==> self.request.inner.ser_ok(final(cursor).buf().subrange(old(cursor).pos as int, final(cursor).pos as int)),
//@|        r is Err ==> r->Err_0 is Internal,
//@fn rodbus/src/client/requests/read_bits.rs | ReadBits::failure | tags=C10
//@|    ensures final(self).request == old(self).request,
//@|        final(self).promise.outcome() == (if old(self).promise.outcome() is None { Some(Err::<BitsValue, RequestError>(err)) } else { old(self).promise.outcome() }),
// [C04] success only for a reply of exactly the length implied by the request; the values are those of the reply, from the requested start
//@fn rodbus/src/client/requests/read_bits.rs | ReadBits::handle_response | tags=C04,C10,C20 | r10 r10id=0
//@|    requires cursor.wf(), old(self).wf(),
//@|    ensures final(self).request == old(self).request,
//@|        r is Ok <==> cursor.rest().len() == 1 + (old(self).request.inner.count as int + 7) / 8,
//@|        r is Err ==> final(self).promise.outcome() == old(self).promise.outcome() && (r->Err_0 is BadResponse || r->Err_0 is BadRequest),
//@|        r is Ok ==> final(self).promise.outcome() == (if old(self).promise.outcome() is None {
//@|                Some(Ok::<BitsValue, RequestError>(BitsValue { range: old(self).request.inner,
//@|                    values: Seq::new(old(self).request.inner.count as nat, |k: int| crate::types::spec_bit(cursor.rest().subrange(1, cursor.rest().len() as int), k)) }))
//@|            } else { old(self).promise.outcome() }),
//@fn rodbus/src/client/requests/read_bits.rs | ReadBits::parse_bits_response | tags=C04,C07 | r10
//@|    requires old(cursor).wf(),
//@|    ensures final(cursor).wf(),
//@|        r is Ok <==> old(cursor).rest().len() == 1 + (range.count as int + 7) / 8,
//@|        r is Ok ==> r->Ok_0.range == range && r->Ok_0.pos == 0 && r->Ok_0.bytes@ == old(cursor).rest().subrange(1, old(cursor).rest().len() as int) && (range.wf() ==> r->Ok_0.wf()),
//@|        r is Err ==> (r->Err_0 is BadResponse || r->Err_0 is BadRequest),
            }
        }
        pub mod read_registers {
            use vstd::prelude::*;
            use crate::common::function::FunctionCode;
            use crate::common::traits::Serialize;
            use crate::decode::AppDecodeLevel;
            use crate::error::RequestError;
            use crate::types::{AddressRange, RegisterIterator, ReadRegistersRange, Indexed};
            use crate::shims::tokio;
            use crate::shims::scursor::{ReadCursor, WriteCursor};

            // what a completed read-registers request delivers
            pub struct RegsValue { pub range: AddressRange, pub values: Seq<u16> }
//@include frag/client_promise_shim.tpl
            #[verifier::external_body]
            pub struct Promise { p: core::marker::PhantomData<u8> }
            impl Promise {
                pub uninterp spec fn outcome(&self) -> Option<Result<RegsValue, RequestError>>;
                #[verifier::external_body]
                pub fn failure(&mut self, err: RequestError)
                    ensures final(self).outcome() == (if old(self).outcome() is None { Some(Err::<RegsValue, RequestError>(err)) } else { old(self).outcome() }),
                { unimplemented!() }
                #[verifier::external_body]
                pub fn success(&mut self, iter: RegisterIterator)
                    requires iter.wf(), iter.pos == 0,
                    ensures final(self).outcome() == (if old(self).outcome() is None { Some(Ok::<RegsValue, RequestError>(RegsValue { range: iter.range, values: iter.spec_values() })) } else { old(self).outcome() }),
                { unimplemented!() }
                #[verifier::external_body]
                pub fn new<T>(callback: T) -> (r: Self) ensures r.outcome() is None { unimplemented!() }
                // a fresh promise is pending
                #[verifier::external_body]
                pub fn oneshot(tx: crate::shims::tokio::sync::oneshot::Sender<Result<Vec<crate::types::Indexed<u16>>, RequestError>>) -> (r: Self) ensures r.outcome() is None { unimplemented!() }
            }
//@trusted client::requests::read_registers::Promise::{success,failure}: complete the callback / oneshot at most once (first completion wins) - not cross-checked: Kani cannot handle Box<dyn FnOnce> + oneshot within 20 min
//@item rodbus/src/client/requests/read_registers.rs | ReadRegisters
            impl ReadRegisters {
                pub open spec fn wf(&self) -> bool { self.request.inner.wf() && self.request.inner.count <= 125 }
//@fn rodbus/src/client/requests/read_registers.rs | ReadRegisters::new | tags=C03
//@|    ensures r.request == request, r.promise == promise,
//@fn rodbus/src/client/requests/read_registers.rs | ReadRegisters::channel | tags=C03,C10
//@|    ensures r.request == request, r.promise.outcome() is None,
//@fn rodbus/src/client/requests/read_registers.rs | ReadRegisters::serialize | tags=C03
//@|    requires old(cursor).wf(),
//@|    ensures final(cursor).wf(), final(cursor).cap() == old(cursor).cap(), final(cursor).pos >= old(cursor).pos,
//@|        final(final(cursor).dest)@ == final(old(cursor).dest)@,
//@|        (forall|i: int| 0 <= i < old(cursor).pos ==> #[trigger] final(cursor).buf()[i] == old(cursor).buf()[i]),
//@|        r is Ok ==> self.request.inner.ser_ok(final(cursor).buf().subrange(old(cursor).pos as int, final(cursor).pos as int)),
//@|        r is Err ==> r->Err_0 is Internal,
//@fn rodbus/src/client/requests/read_registers.rs | ReadRegisters::failure | tags=C10
//@|    ensures final(self).request == old(self).request,
//@|        final(self).promise.outcome() == (if old(self).promise.outcome() is None { Some(Err::<RegsValue, RequestError>(err)) } else { old(self).promise.outcome() }),
// [C04] success only for a reply of exactly the length implied by the request; the values are those of the reply, from the requested start
//@fn rodbus/src/client/requests/read_registers.rs | ReadRegisters::handle_response | tags=C04,C10,C20 | r10 r10id=0
//@|    requires cursor.wf(), old(self).wf(),
//@|    ensures final(self).request == old(self).request,
//@|        r is Ok <==> cursor.rest().len() == 1 + 2 * old(self).request.inner.count as int,
//@|        r is Err ==> final(self).promise.outcome() == old(self).promise.outcome() && (r->Err_0 is BadResponse || r->Err_0 is BadRequest),
//@|        r is Ok ==> final(self).promise.outcome() == (if old(self).promise.outcome() is None {
//@|                Some(Ok::<RegsValue, RequestError>(RegsValue { range: old(self).request.inner,
//@|                    values: Seq::new(old(self).request.inner.count as nat, |k: int| crate::be16(cursor.rest().subrange(1, cursor.rest().len() as int), 2 * k) as u16) }))
//@|            } else { old(self).promise.outcome() }),
//@fn rodbus/src/client/requests/read_registers.rs | ReadRegisters::parse_registers_response | tags=C04,C07 | r10
//@|    requires old(cursor).wf(),
//@|    ensures final(cursor).wf(),
//@|        r is Ok <==> old(cursor).rest().len() == 1 + 2 * range.count as int,
//@|        r is Ok ==> r->Ok_0.range == range && r->Ok_0.pos == 0 && r->Ok_0.bytes@ == old(cursor).rest().subrange(1, old(cursor).rest().len() as int) && (range.wf() ==> r->Ok_0.wf()),
//@|        r is Err ==> (r->Err_0 is BadResponse || r->Err_0 is BadRequest),
            }
        }
        pub mod write_single {
            use vstd::prelude::*;
            use crate::client::message::Promise;
            use crate::common::function::FunctionCode;
            use crate::decode::AppDecodeLevel;
            use crate::error::*;
            use crate::types::{coil_from_u16, coil_to_u16, Indexed};
            use crate::shims::scursor::{ReadCursor, WriteCursor};
            use crate::shims::fmt::Display;
            use crate::common::serialize::is_be16_pair;

            // the declarations are /repo's; `PartialEq` must be structural equality (true for both implementations)
            pub trait SingleWriteOperation: Sized + PartialEq {
                spec fn spec_words(&self) -> (u16, u16);                       // the two big-endian words of request and echo
                spec fn spec_parse(body: Seq<u8>) -> Option<Self>;
//@fn rodbus/src/client/requests/write_single.rs | trait SingleWriteOperation::serialize | tags=C03
//@|    requires old(cursor).wf(),
//@|    ensures final(cursor).wf(), final(cursor).cap() == old(cursor).cap(), final(cursor).pos >= old(cursor).pos,
//@|        final(final(cursor).dest)@ == final(old(cursor).dest)@,
//@|        (forall|i: int| 0 <= i < old(cursor).pos ==> #[trigger] final(cursor).buf()[i] == old(cursor).buf()[i]),
//@|        r is Ok ==> is_be16_pair(final(cursor).buf().subrange(old(cursor).pos as int, final(cursor).pos as int), self.spec_words().0, self.spec_words().1),
//@|        r is Err ==> r->Err_0 is Internal,
//@fn rodbus/src/client/requests/write_single.rs | trait SingleWriteOperation::parse | tags=C04
//@|    requires old(cursor).wf(),
//@|    ensures final(cursor).wf(), final(cursor).input == old(cursor).input,
//@|        r is Ok <==> Self::spec_parse(old(cursor).rest()) is Some,
//@|        r is Ok ==> Self::spec_parse(old(cursor).rest()) == Some(r->Ok_0) && old(cursor).rest().len() >= 4
//@|            && final(cursor).rest() == old(cursor).rest().subrange(4, old(cursor).rest().len() as int),
//@|        r is Err ==> r->Err_0 is BadResponse,
            }

//@item rodbus/src/client/requests/write_single.rs | SingleWrite

            impl SingleWriteOperation for Indexed<bool> {
                open spec fn spec_words(&self) -> (u16, u16) { (self.index, if self.value { 0xFF00u16 } else { 0u16 }) }
                open spec fn spec_parse(body: Seq<u8>) -> Option<Self> { <Indexed<bool> as crate::common::traits::Parse>::spec_parse(body) }
//@fn rodbus/src/client/requests/write_single.rs | SingleWriteOperation for Indexed<bool>::serialize | tags=C03 | r10
//@fn rodbus/src/client/requests/write_single.rs | SingleWriteOperation for Indexed<bool>::parse | tags=C04 | r10
            }
            impl SingleWriteOperation for Indexed<u16> {
                open spec fn spec_words(&self) -> (u16, u16) { (self.index, self.value) }
                open spec fn spec_parse(body: Seq<u8>) -> Option<Self> { <Indexed<u16> as crate::common::traits::Parse>::spec_parse(body) }
//@fn rodbus/src/client/requests/write_single.rs | SingleWriteOperation for Indexed<u16>::serialize | tags=C03 | r10
//@fn rodbus/src/client/requests/write_single.rs | SingleWriteOperation for Indexed<u16>::parse | tags=C04 | r10
            }

            impl<T> SingleWrite<T> where T: SingleWriteOperation + Display + Send + 'static {
//@fn rodbus/src/client/requests/write_single.rs | SingleWrite<T>::new | tags=C03
//@|    ensures r.request == request, r.promise == promise,
//@fn rodbus/src/client/requests/write_single.rs | SingleWrite<T>::serialize | tags=C03
//@|    requires old(cursor).wf(),
//@|    ensures final(cursor).wf(), final(cursor).cap() == old(cursor).cap(), final(cursor).pos >= old(cursor).pos,
//@|        final(final(cursor).dest)@ == final(old(cursor).dest)@,
//@|        (forall|i: int| 0 <= i < old(cursor).pos ==> #[trigger] final(cursor).buf()[i] == old(cursor).buf()[i]),
//@|        r is Ok ==> is_be16_pair(final(cursor).buf().subrange(old(cursor).pos as int, final(cursor).pos as int), self.request.spec_words().0, self.request.spec_words().1),
//@|        r is Err ==> r->Err_0 is Internal,
//@fn rodbus/src/client/requests/write_single.rs | SingleWrite<T>::failure | tags=C10
//@|    ensures final(self).request == old(self).request,
//@|        final(self).promise.outcome() == (if old(self).promise.outcome() is None { Some(Err::<T, RequestError>(err)) } else { old(self).promise.outcome() }),
// [C04] a write succeeds only if the reply is exactly 4 bytes and echoes the request
//@fn rodbus/src/client/requests/write_single.rs | SingleWrite<T>::handle_response | tags=C04,C10,C20 | r10 r10id=0
//@|    requires cursor.wf(), <T as vstd::std_specs::cmp::PartialEqSpec>::obeys_eq_spec(),
//@|        forall|a: T, b: T| #[trigger] vstd::std_specs::cmp::PartialEqSpec::eq_spec(&a, &b) == (a == b),
//@|    ensures final(self).request == old(self).request,
//@|        r is Ok <==> (cursor.rest().len() == 4 && T::spec_parse(cursor.rest()) == Some(old(self).request)),
//@|        r is Err ==> final(self).promise.outcome() == old(self).promise.outcome() && (r->Err_0 is BadResponse || r->Err_0 is BadRequest),
//@|        r is Ok ==> final(self).promise.outcome() == (if old(self).promise.outcome() is None { Some(Ok::<T, RequestError>(old(self).request)) } else { old(self).promise.outcome() }),
//@fn rodbus/src/client/requests/write_single.rs | SingleWrite<T>::parse_all | tags=C04,C07 | r10 r10id=0
//@|    requires cursor.wf(), <T as vstd::std_specs::cmp::PartialEqSpec>::obeys_eq_spec(),
//@|        forall|a: T, b: T| #[trigger] vstd::std_specs::cmp::PartialEqSpec::eq_spec(&a, &b) == (a == b),
//@|    ensures
//@|        r is Ok <==> (cursor.rest().len() == 4 && T::spec_parse(cursor.rest()) == Some(self.request)),
//@|        r is Ok ==> r->Ok_0 == self.request,
//@|        r is Err ==> (r->Err_0 is BadResponse || r->Err_0 is BadRequest),
            }
        }
