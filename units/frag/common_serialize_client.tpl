// ---- serializers used by the client's write-multiple requests ----
use crate::client::WriteMultiple;

pub open spec fn regs_body_ok(vals: Seq<u16>, out: Seq<u8>) -> bool {
    out.len() == 1 + 2 * vals.len() && out[0] as int == 2 * vals.len()
    && forall|i: int| 0 <= i < vals.len() ==> #[trigger] be16_at(out, 1 + 2 * i) == vals[i]
}
// byte count, then the coils packed LSB-first, padding bits zero [C03]
pub open spec fn bools_body_ok(vals: Seq<bool>, out: Seq<u8>) -> bool {
    let n = vals.len() as int;
    out.len() == 1 + (n + 7) / 8 && out[0] as int == (n + 7) / 8
    && (forall|i: int| 0 <= i < n ==> #[trigger] bit(out[1 + i / 8], i % 8) == vals[i])
    && (n % 8 != 0 ==> forall|k: u8| n % 8 <= k < 8 ==> !#[trigger] bit(out[out.len() - 1], k as int))
}

impl Serialize for &[u16] {
    open spec fn ser_pre(&self) -> bool { true }
    open spec fn ser_ok(&self, out: Seq<u8>) -> bool { regs_body_ok(self@, out) }
    open spec fn ser_exc(&self, e: ExceptionCode) -> bool { false }
    open spec fn ser_may_reject(&self) -> bool { false }
// (`for value in *self` iterates a std slice iterator, whose vstd specification is prophetic and cannot carry a `decreases`:
//  the body is left to Kani, harness k_serialize_u16_slice [bounded], and only the contract is used by Verus callers)
//@fn rodbus/src/common/serialize.rs | Serialize for &[u16]::serialize | tags=C03 | ext_body
}
//@bounded Serialize for &[u16]::serialize: contract assumed in Verus; Kani harness k_serialize_u16_slice checks it for slices of up to 8 registers
impl Serialize for &[bool] {
    open spec fn ser_pre(&self) -> bool { true }
    open spec fn ser_ok(&self, out: Seq<u8>) -> bool { bools_body_ok(self@, out) }
    open spec fn ser_exc(&self, e: ExceptionCode) -> bool { false }
    open spec fn ser_may_reject(&self) -> bool { false }
// (`chunks(8)` / `enumerate()` iterator adapters are outside the Verus subset: Kani harness k_serialize_bool_slice [bounded])
//@fn rodbus/src/common/serialize.rs | Serialize for &[bool]::serialize | tags=C03 | ext_body
}
//@bounded Serialize for &[bool]::serialize: contract assumed in Verus; Kani harness k_serialize_bool_slice checks it for slices of up to 20 coils

// the PDU body of a write-multiple request: start, quantity, byte count, data [C03]
pub open spec fn wm_body_ok(start: u16, count: u16, tail_ok: spec_fn(Seq<u8>) -> bool, out: Seq<u8>) -> bool {
    out.len() >= 4 && is_be16_pair(out.subrange(0, 4), start, count) && tail_ok(out.subrange(4, out.len() as int))
}
impl Serialize for WriteMultiple<bool> {
    open spec fn ser_pre(&self) -> bool { self.wf() }
    // [C03] ... and more than 1968 coils are never serialized
    open spec fn ser_ok(&self, out: Seq<u8>) -> bool { self.range.count <= 1968 && wm_body_ok(self.range.start, self.range.count, |t: Seq<u8>| bools_body_ok(self.values@, t), out) }
    open spec fn ser_exc(&self, e: ExceptionCode) -> bool { false }
    open spec fn ser_may_reject(&self) -> bool { true }
// [C03] more than 1968 coils are never serialized
//@fn rodbus/src/common/serialize.rs | Serialize for WriteMultiple<bool>::serialize | tags=C03,C06 | r10 r10id=0
//@|    ensures r is Ok ==> self.range.count <= 1968,
//@entry| broadcast use crate::common::frame::lemma_subrange_subrange;
}
impl Serialize for WriteMultiple<u16> {
    open spec fn ser_pre(&self) -> bool { self.wf() }
    // [C03] ... and more than 123 registers are never serialized
    open spec fn ser_ok(&self, out: Seq<u8>) -> bool { self.range.count <= 123 && wm_body_ok(self.range.start, self.range.count, |t: Seq<u8>| regs_body_ok(self.values@, t), out) }
    open spec fn ser_exc(&self, e: ExceptionCode) -> bool { false }
    open spec fn ser_may_reject(&self) -> bool { true }
// [C03] more than 123 registers are never serialized
//@fn rodbus/src/common/serialize.rs | Serialize for WriteMultiple<u16>::serialize | tags=C03,C06 | r10 r10id=0
//@|    ensures r is Ok ==> self.range.count <= 123,
//@entry| broadcast use crate::common::frame::lemma_subrange_subrange;
}
