// ---- serializers used by the client's write-multiple requests ----
use crate::client::WriteMultiple;

pub open spec fn regs_body_ok(vals: Seq<u16>, out: Seq<u8>) -> bool {
    out.len() == 1 + 2 * vals.len() && out[0] as int == 2 * vals.len()
    && forall|i: int| 0 <= i < vals.len() ==> #[trigger] be16_at(out, 1 + 2 * i) == vals[i]
}
// byte count, then the coils packed LSB-first, padding bits zero [C03]
pub open spec fn bools_body_ok(vals: Seq<bool>, out: Seq<u8>) -> bool {
    let n = vals.len() as int;
    out.len() == 1 + (n + 7) / 8 && out[0] as int == (n + 7) / 8
    && (forall|i: int| 0 <= i < n ==> #[trigger] bit(out[1 + i / 8], i % 8) == vals[i])
    && (n % 8 != 0 ==> forall|k: u8| n % 8 <= k < 8 ==> !#[trigger] bit(out[out.len() - 1], k as int))
}

impl Serialize for &[u16] {
    // (a slice of u16 cannot be longer than isize::MAX / 2 elements; the installed vstd does not know that, the callers do know their lengths)
    open spec fn ser_pre(&self) -> bool { self@.len() <= 0x7FFF_FFFF }
    open spec fn ser_ok(&self, out: Seq<u8>) -> bool { regs_body_ok(self@, out) }
    open spec fn ser_exc(&self, e: ExceptionCode) -> bool { false }
    open spec fn ser_may_reject(&self) -> bool { false }
// big-endian registers after the byte count, for every length (Verus-native `for` over the slice; the Kani harness
// k_serialize_u16_slice remains as a bounded cross-check on the unmodified crate)
//@fn rodbus/src/common/serialize.rs | Serialize for &[u16]::serialize | tags=C03 | r10 r4n
//@loop 0|            invariant
//@loop 0|                cursor.wf(), cursor.cap() == old(cursor).cap(), final(cursor.dest)@ == final(old(cursor).dest)@,
//@loop 0|                cursor.pos == old(cursor).pos + 1 + 2 * it__0.index@,
//@loop 0|                forall|k: int| 0 <= k < old(cursor).pos ==> #[trigger] cursor.buf()[k] == old(cursor).buf()[k],
//@loop 0|                cursor.buf()[old(cursor).pos as int] as int == 2 * self@.len(),
//@loop 0|                forall|i: int| 0 <= i < it__0.index@ ==> #[trigger] be16_at(cursor.buf(), old(cursor).pos + 1 + 2 * i) == self@[i],
//@loopstart 0| let ghost w0 = cursor.buf(); let ghost done0 = it__0.index@ as int;
//@loopend 0| let base = old(cursor).pos as int; let w1 = cursor.buf();
//@loopend 0| assert forall|i: int| 0 <= i < done0 + 1 implies #[trigger] be16_at(w1, base + 1 + 2 * i) == self@[i] by {
//@loopend 0|     if i < done0 { assert(be16_at(w0, base + 1 + 2 * i) == self@[i]); assert(w1[base + 1 + 2 * i] == w0[base + 1 + 2 * i]); assert(w1[base + 2 + 2 * i] == w0[base + 2 + 2 * i]); }
//@loopend 0| }
//@exit 0| let base = old(cursor).pos as int; let w = cursor.buf(); let out = w.subrange(base, cursor.pos as int);
//@exit 0| assert forall|i: int| 0 <= i < self@.len() implies #[trigger] be16_at(out, 1 + 2 * i) == self@[i] by { assert(be16_at(w, base + 1 + 2 * i) == self@[i]); }
}
impl Serialize for &[bool] {
    open spec fn ser_pre(&self) -> bool { true }
    open spec fn ser_ok(&self, out: Seq<u8>) -> bool { bools_body_ok(self@, out) }
    open spec fn ser_exc(&self, e: ExceptionCode) -> bool { false }
    open spec fn ser_may_reject(&self) -> bool { false }
// (`chunks(8)` / `enumerate()` iterator adapters are outside the Verus subset: Kani harness k_serialize_bool_slice [bounded])
//@fn rodbus/src/common/serialize.rs | Serialize for &[bool]::serialize | tags=C03 | ext_body
}
//@bounded Serialize for &[bool]::serialize: contract assumed in Verus; Kani harness k_serialize_bool_slice checks it for slices of up to 20 coils

// the PDU body of a write-multiple request: start, quantity, byte count, data [C03]
pub open spec fn wm_body_ok(start: u16, count: u16, tail_ok: spec_fn(Seq<u8>) -> bool, out: Seq<u8>) -> bool {
    out.len() >= 4 && is_be16_pair(out.subrange(0, 4), start, count) && tail_ok(out.subrange(4, out.len() as int))
}
impl Serialize for WriteMultiple<bool> {
    open spec fn ser_pre(&self) -> bool { self.wf() }
    // [C03] ... and more than 1968 coils are never serialized
    open spec fn ser_ok(&self, out: Seq<u8>) -> bool { self.range.count <= 1968 && wm_body_ok(self.range.start, self.range.count, |t: Seq<u8>| bools_body_ok(self.values@, t), out) }
    open spec fn ser_exc(&self, e: ExceptionCode) -> bool { false }
    open spec fn ser_may_reject(&self) -> bool { true }
// [C03] more than 1968 coils are never serialized
//@fn rodbus/src/common/serialize.rs | Serialize for WriteMultiple<bool>::serialize | tags=C03,C06 | r10 r10id=0
//@|    ensures r is Ok ==> self.range.count <= 1968,
//@entry| broadcast use crate::common::frame::lemma_subrange_subrange;
}
impl Serialize for WriteMultiple<u16> {
    open spec fn ser_pre(&self) -> bool { self.wf() }
    // [C03] ... and more than 123 registers are never serialized
    open spec fn ser_ok(&self, out: Seq<u8>) -> bool { self.range.count <= 123 && wm_body_ok(self.range.start, self.range.count, |t: Seq<u8>| regs_body_ok(self.values@, t), out) }
    open spec fn ser_exc(&self, e: ExceptionCode) -> bool { false }
    open spec fn ser_may_reject(&self) -> bool { true }
// [C03] more than 123 registers are never serialized
//@fn rodbus/src/common/serialize.rs | Serialize for WriteMultiple<u16>::serialize | tags=C03,C06 | r10 r10id=0
//@|    ensures r is Ok ==> self.range.count <= 123,
//@entry| broadcast use crate::common::frame::lemma_subrange_subrange;
}
