// ---- client/channel.rs: the public request API (C03: limits applied before queueing; C10: Shutdown only when the task is gone) ----
        use vstd::prelude::*;
        use vstd::std_specs::convert::FromSpecImpl;
        use std::time::Duration;
        use crate::shims::tokio;
        use crate::client::message::{Command, Promise, Request, RequestDetails, Setting};
        use crate::client::requests::read_bits::ReadBits;
        use crate::client::requests::read_registers::ReadRegisters;
        use crate::client::requests::write_multiple::{MultipleWriteRequest, WriteMultiple};
        use crate::client::requests::write_single::SingleWrite;
        use crate::error::*;
        use crate::types::{AddressRange, Indexed, UnitId};
        use crate::decode::DecodeLevel;

        // [C10] a send / receive failure on a dead task is reported as Shutdown
        impl<T> FromSpecImpl<tokio::sync::mpsc::error::SendError<T>> for RequestError {
            open spec fn obeys_from_spec() -> bool { true }
            open spec fn from_spec(e: tokio::sync::mpsc::error::SendError<T>) -> Self { RequestError::Shutdown }
        }
        impl<T> From<tokio::sync::mpsc::error::SendError<T>> for RequestError {
//@fn rodbus/src/error.rs | From<tokio::sync::mpsc::error::SendError<T>> for RequestError::from | tags=C10
        }
        impl<T> FromSpecImpl<tokio::sync::mpsc::error::SendError<T>> for Shutdown {
            open spec fn obeys_from_spec() -> bool { true }
            open spec fn from_spec(e: tokio::sync::mpsc::error::SendError<T>) -> Self { Shutdown }
        }
        impl<T> From<tokio::sync::mpsc::error::SendError<T>> for Shutdown {
//@fn rodbus/src/error.rs | From<tokio::sync::mpsc::error::SendError<T>> for Shutdown::from | tags=C10
        }
        impl FromSpecImpl<tokio::sync::oneshot::error::RecvError> for RequestError {
            open spec fn obeys_from_spec() -> bool { true }
            open spec fn from_spec(e: tokio::sync::oneshot::error::RecvError) -> Self { RequestError::Shutdown }
        }
        impl From<tokio::sync::oneshot::error::RecvError> for RequestError {
//@fn rodbus/src/error.rs | From<tokio::sync::oneshot::error::RecvError> for RequestError::from | tags=C10
        }

//@item rodbus/src/client/channel.rs | Channel | derive=
//@item rodbus/src/client/channel.rs | ClientTask
//@item rodbus/src/client/channel.rs | ClientTaskInner
        impl ClientTask {
            pub open spec fn is_tcp_task(&self) -> bool { self.inner is Tcp }
            pub open spec fn tcp_task(&self) -> crate::tcp::client::TcpChannelTask { self.inner->Tcp_0 }
            pub open spec fn serial_task(&self) -> crate::serial::client::SerialChannelTask { self.inner->Serial_0 }
//@fn rodbus/src/client/channel.rs | ClientTask::tcp | tags=C13
//@|    ensures r.is_tcp_task(), r.tcp_task() == task,
//@fn rodbus/src/client/channel.rs | ClientTask::serial | tags=C13
//@|    ensures !r.is_tcp_task(), r.serial_task() == task,
// [C13] the public task runs the channel task it was built with (from an empty listener log)
//@fn rodbus/src/client/channel.rs | ClientTask::run | tags=C13
//@|    requires self.is_tcp_task() ==> self.tcp_task().wf() && self.tcp_task().states().len() == 0,
//@|        !self.is_tcp_task() ==> self.serial_task().wf() && self.serial_task().states().len() == 0,
        }
//@item rodbus/src/client/channel.rs | RequestParam | derive=Clone,Copy

        // the invariant of the command queue, from the producers' side: what `queue_inv` means for a Command (the consumer side is
        // client::message::axiom_queue_inv). Both directions together are the DEFINITION of queue_inv at this type.
        pub broadcast axiom fn axiom_queue_inv_intro(c: Command)
            requires c matches Command::Request(q) ==> q.details.wf() && q.details.outcome() is None,
            ensures #[trigger] tokio::sync::mpsc::queue_inv(c);

        // "a request with these parameters and details of this shape was queued on `tx`"
        pub open spec fn queued(tx: &tokio::sync::mpsc::Sender<Command>, param: RequestParam, shape: spec_fn(RequestDetails) -> bool) -> bool {
            exists|q: Request| #[trigger] tx.delivered(Command::Request(q)) && q.id == param.id && q.timeout == param.response_timeout && shape(q.details)
        }

//@fn rodbus/src/client/channel.rs | wrap | tags=C03
//@|    ensures r == Command::Request(Request { id: param.id, timeout: param.response_timeout, details }),

        impl Channel {
//@fn rodbus/src/client/channel.rs | Channel::create_rtu_handle_and_task | tags=C10,C12,C13,C20
//@|    ensures !r.1.is_tcp_task(), r.1.serial_task().wf(), r.1.serial_task().client_loop.decode == decode, !r.1.serial_task().client_loop.enabled,
//@|        r.1.serial_task().client_loop.timeout_counter.limit() is None,
//@|        r.1.serial_task().client_loop.rx.0.chan == r.0.tx.chan,
//@|        listener matches Some(l) ==> r.1.serial_task().states() == l.log(),
//@|        listener is None ==> r.1.serial_task().states().len() == 0,
//@closure 0| || -> (l: Box<dyn crate::client::listener::Listener<crate::client::listener::PortState>>) ensures l.log().len() == 0
// [C18,C20] the spawning variant hands the runtime the task built from exactly the arguments
//@fn rodbus/src/client/channel.rs | Channel::spawn_rtu | tags=C13,C18,C20
//@|    requires listener matches Some(l) ==> l.log().len() == 0,
//@exit 0| assert(!task.is_tcp_task() && task.serial_task().client_loop.decode == decode && task.serial_task().client_loop.rx.0.chan == handle.tx.chan);
//@fn rodbus/src/client/channel.rs | Channel::enable | tags=C13 | r10
//@|    ensures r is Ok ==> self.tx.delivered(Command::Setting(Setting::Enable)),
//@entry| broadcast use axiom_queue_inv_intro;
//@fn rodbus/src/client/channel.rs | Channel::disable | tags=C13 | r10
//@|    ensures r is Ok ==> self.tx.delivered(Command::Setting(Setting::Disable)),
//@entry| broadcast use axiom_queue_inv_intro;
//@fn rodbus/src/client/channel.rs | Channel::shutdown | tags=C13 | r10
//@|    ensures r is Ok ==> self.tx.delivered(Command::Shutdown),
//@entry| broadcast use axiom_queue_inv_intro;
//@fn rodbus/src/client/channel.rs | Channel::set_decode_level | tags=C20 | r10
//@|    ensures r is Ok ==> self.tx.delivered(Command::Setting(Setting::DecodeLevel(level))),
//@entry| broadcast use axiom_queue_inv_intro;

// [C03] reads beyond 2000 bits / 125 registers, empty or overflowing ranges are rejected before anything is queued; what is queued
// is the request kind that was asked for, with the caller's unit id, timeout and range
//@fn rodbus/src/client/channel.rs | Channel::read_coils | tags=C03,C10 | r10
//@|    ensures !(range.wf() && range.count <= 2000) ==> r is Err,
//@|        r is Ok ==> queued(&self.tx, param, |d: RequestDetails| d matches RequestDetails::ReadCoils(x) && x.request.inner == range),
//@entry| broadcast use axiom_queue_inv_intro;
//@fn rodbus/src/client/channel.rs | Channel::read_discrete_inputs | tags=C03,C10 | r10
//@|    ensures !(range.wf() && range.count <= 2000) ==> r is Err,
//@|        r is Ok ==> queued(&self.tx, param, |d: RequestDetails| d matches RequestDetails::ReadDiscreteInputs(x) && x.request.inner == range),
//@entry| broadcast use axiom_queue_inv_intro;
//@fn rodbus/src/client/channel.rs | Channel::read_holding_registers | tags=C03,C10 | r10
//@|    ensures !(range.wf() && range.count <= 125) ==> r is Err,
//@|        r is Ok ==> queued(&self.tx, param, |d: RequestDetails| d matches RequestDetails::ReadHoldingRegisters(x) && x.request.inner == range),
//@entry| broadcast use axiom_queue_inv_intro;
//@fn rodbus/src/client/channel.rs | Channel::read_input_registers | tags=C03,C10 | r10
//@|    ensures !(range.wf() && range.count <= 125) ==> r is Err,
//@|        r is Ok ==> queued(&self.tx, param, |d: RequestDetails| d matches RequestDetails::ReadInputRegisters(x) && x.request.inner == range),
//@entry| broadcast use axiom_queue_inv_intro;
//@fn rodbus/src/client/channel.rs | Channel::write_single_coil | tags=C03,C10 | r10
//@|    ensures r is Ok ==> queued(&self.tx, param, |d: RequestDetails| d matches RequestDetails::WriteSingleCoil(x) && x.request == request),
//@entry| broadcast use axiom_queue_inv_intro;
//@fn rodbus/src/client/channel.rs | Channel::write_single_register | tags=C03,C10 | r10
//@|    ensures r is Ok ==> queued(&self.tx, param, |d: RequestDetails| d matches RequestDetails::WriteSingleRegister(x) && x.request == request),
//@entry| broadcast use axiom_queue_inv_intro;
//@fn rodbus/src/client/channel.rs | Channel::write_multiple_coils | tags=C03,C10 | r10
//@|    requires request.wf(),
//@|    ensures r is Ok ==> queued(&self.tx, param, |d: RequestDetails| d matches RequestDetails::WriteMultipleCoils(x) && x.request == request),
//@entry| broadcast use axiom_queue_inv_intro;
//@fn rodbus/src/client/channel.rs | Channel::write_multiple_registers | tags=C03,C10 | r10
//@|    requires request.wf(),
//@|    ensures r is Ok ==> queued(&self.tx, param, |d: RequestDetails| d matches RequestDetails::WriteMultipleRegisters(x) && x.request == request),
//@entry| broadcast use axiom_queue_inv_intro;
        }

// ---- the deprecated callback API: the same requests, completed through a callback; every command it queues satisfies the queue invariant ----
//@item rodbus/src/client/channel.rs | CallbackSession | derive=
        use crate::types::{BitIterator, RegisterIterator};
        impl CallbackSession {
//@fn rodbus/src/client/channel.rs | CallbackSession::new | tags=C03
//@|    ensures r.tx == channel.tx, r.param == param,
//@fn rodbus/src/client/channel.rs | CallbackSession::send | tags=C03,C10
//@|    requires tokio::sync::mpsc::queue_inv(command),
//@|    ensures final(self).tx == old(self).tx, final(self).param == old(self).param,
//@fn rodbus/src/client/channel.rs | CallbackSession::read_bits | tags=C03,C10
//@|    requires forall|x: ReadBits| #[trigger] call_requires(wrap_req, (x,)),
//@|        forall|x: ReadBits, d: RequestDetails| #[trigger] call_ensures(wrap_req, (x,), d) ==> d == RequestDetails::ReadCoils(x) || d == RequestDetails::ReadDiscreteInputs(x),
//@|    ensures final(self).tx == old(self).tx, final(self).param == old(self).param,
//@entry| broadcast use axiom_queue_inv_intro;
//@fn rodbus/src/client/channel.rs | CallbackSession::read_registers | tags=C03,C10
//@|    requires forall|x: ReadRegisters| #[trigger] call_requires(wrap_req, (x,)),
//@|        forall|x: ReadRegisters, d: RequestDetails| #[trigger] call_ensures(wrap_req, (x,), d) ==> d == RequestDetails::ReadHoldingRegisters(x) || d == RequestDetails::ReadInputRegisters(x),
//@|    ensures final(self).tx == old(self).tx, final(self).param == old(self).param,
//@entry| broadcast use axiom_queue_inv_intro;
//@fn rodbus/src/client/channel.rs | CallbackSession::read_coils | tags=C03 | eta=RequestDetails::ReadCoils>ReadBits>RequestDetails | eta=RequestDetails::ReadDiscreteInputs>ReadBits>RequestDetails
//@fn rodbus/src/client/channel.rs | CallbackSession::read_discrete_inputs | tags=C03 | eta=RequestDetails::ReadCoils>ReadBits>RequestDetails | eta=RequestDetails::ReadDiscreteInputs>ReadBits>RequestDetails
//@fn rodbus/src/client/channel.rs | CallbackSession::read_holding_registers | tags=C03 | eta=RequestDetails::ReadHoldingRegisters>ReadRegisters>RequestDetails | eta=RequestDetails::ReadInputRegisters>ReadRegisters>RequestDetails
//@fn rodbus/src/client/channel.rs | CallbackSession::read_input_registers | tags=C03 | eta=RequestDetails::ReadHoldingRegisters>ReadRegisters>RequestDetails | eta=RequestDetails::ReadInputRegisters>ReadRegisters>RequestDetails
//@fn rodbus/src/client/channel.rs | CallbackSession::write_single_coil | tags=C03
//@entry| broadcast use axiom_queue_inv_intro;
//@fn rodbus/src/client/channel.rs | CallbackSession::write_single_register | tags=C03
//@entry| broadcast use axiom_queue_inv_intro;
//@fn rodbus/src/client/channel.rs | CallbackSession::write_multiple_registers | tags=C03
//@|    requires value.wf(),
//@entry| broadcast use axiom_queue_inv_intro;
//@fn rodbus/src/client/channel.rs | CallbackSession::write_multiple_coils | tags=C03
//@|    requires value.wf(),
//@entry| broadcast use axiom_queue_inv_intro;
        }
