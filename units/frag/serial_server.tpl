use vstd::prelude::*;
use crate::common::phys::PhysLayer;
use crate::server::task::SessionTask;
use crate::server::handler::RequestHandler;
use crate::error::{RequestError, Shutdown};
use crate::retry::{RetryStrategy, RetryCall};
use crate::shims::net::SerialSettings;

//@item rodbus/src/serial/server.rs | RtuServerTask

impl<T> RtuServerTask<T> where T: RequestHandler {
// [C14] serial server: the strategy is reset after every successful open; one strategy call per wait
//@fn rodbus/src/serial/server.rs | RtuServerTask<T>::run | tags=C14,C15 | attr=#[verifier::exec_allows_no_decreases_clause]
//@|    requires old(self).session.wf(), !old(self).session.tcp(),
//@|    ensures final(self).session.wf(),
//@loop 0|            invariant self.session.wf(), !self.session.tcp(),
}
