// ---- C07 / C20: the decoding (logging) paths. They re-parse payloads and iterate decoded values; under contract they are free of
// panics, overflow and out-of-bounds access for every payload and every level. What they print is opaque (R28).
use crate::decode::AppDecodeLevel;
//@item rodbus/src/types.rs | BitIteratorDisplay
//@item rodbus/src/types.rs | RegisterIteratorDisplay
impl<'a> BitIteratorDisplay<'a> {
// (type invariant of the display wrappers: what they iterate came from parse_all on a valid range - required where they are built)
//@fn rodbus/src/types.rs | BitIteratorDisplay<'a>::new | tags=C07,C20
//@|    requires iterator.wf(),
//@|    ensures r.iterator == iterator, r.level == level,
// (emitted as an inherent method - R5 - because it needs the precondition "the iterator came from parse_all")
//@fn rodbus/src/types.rs | std::fmt::Display for BitIteratorDisplay<'_>::fmt | tags=C07,C20 | inherent r28 r4 r10 r10id=0,1 | attr=#[verifier::exec_allows_no_decreases_clause]
//@|    requires self.iterator.wf(),
//@loop 0|            invariant it__0.wf(),
}
impl<'a> RegisterIteratorDisplay<'a> {
//@fn rodbus/src/types.rs | RegisterIteratorDisplay<'a>::new | tags=C07,C20
//@|    requires iterator.wf(),
//@|    ensures r.iterator == iterator, r.level == level,
//@fn rodbus/src/types.rs | std::fmt::Display for RegisterIteratorDisplay<'_>::fmt | tags=C07,C20 | inherent r28 r4 r10 r10id=0,1 | attr=#[verifier::exec_allows_no_decreases_clause]
//@|    requires self.iterator.wf(),
//@loop 0|            invariant it__0.wf(),
}
