use vstd::prelude::*;
use crate::common::buffer::ReadBuffer;
use crate::common::frame::{Frame, FrameHeader, TxId, FrameDestination};
use crate::decode::FrameDecodeLevel;
use crate::error::{FrameParseError, RequestError};
use crate::types::UnitId;
use crate::spec::*;

pub mod constants {
//@item rodbus/src/tcp/frame.rs | constants::HEADER_LENGTH
//@item rodbus/src/tcp/frame.rs | constants::MAX_FRAME_LENGTH
//@item rodbus/src/tcp/frame.rs | constants::MAX_LENGTH_FIELD
}

//@item rodbus/src/tcp/frame.rs | MbapHeader
//@item rodbus/src/tcp/frame.rs | ParseState
//@item rodbus/src/tcp/frame.rs | MbapParser

pub open spec fn enc_header(tx: u16, len: u16, unit: u8) -> Seq<u8> {
    seq![(tx / 256) as u8, (tx % 256) as u8, 0u8, 0u8, (len / 256) as u8, (len % 256) as u8, unit]
}

impl MbapParser {
    pub open spec fn wf(&self) -> bool {
        match self.state {
            ParseState::Begin => true,
            ParseState::Header(h, n) => 1 <= h.len_field <= 254 && n == h.len_field - 1,
        }
    }
    // the bytes this parser has taken out of the buffer but not yet turned into a frame
    pub open spec fn held(&self) -> Seq<u8> {
        match self.state {
            ParseState::Begin => Seq::<u8>::empty(),
            ParseState::Header(h, n) => enc_header(h.tx_id.v(), h.len_field, h.unit_id.value),
        }
    }
    pub open spec fn is_begin(&self) -> bool { self.state is Begin }

//@fn rodbus/src/tcp/frame.rs | MbapParser::new | tags=C05
//@|    ensures r.wf(), r.is_begin(),

//@fn rodbus/src/tcp/frame.rs | MbapParser::parse_header | tags=C05,C07 | r10=4
//@|    requires old(cursor).wf(), old(cursor)@.len() >= 7,
//@|    ensures final(cursor).wf(),
//@|        r is Ok <==> (be16(old(cursor)@, 2) == 0 && 1 <= be16(old(cursor)@, 4) <= 254),   // protocol id 0, length 1..=254 [C05]
//@|        r is Ok ==> r->Ok_0.1 == be16(old(cursor)@, 4) - 1
//@|            && r->Ok_0.0.len_field == be16(old(cursor)@, 4)
//@|            && r->Ok_0.0.tx_id.v() == be16(old(cursor)@, 0)
//@|            && r->Ok_0.0.unit_id.value == old(cursor)@[6]
//@|            && final(cursor)@ == old(cursor)@.subrange(7, old(cursor)@.len() as int),
//@|        r is Err ==> (mbap_next(old(cursor)@) matches StreamNext::Bad(e) && r->Err_0 == RequestError::BadFrame(e)),

//@fn rodbus/src/tcp/frame.rs | MbapParser::parse_body | tags=C05,C07
//@|    requires old(cursor).wf(), adu_length <= 253, old(cursor)@.len() >= adu_length,
//@|    ensures final(cursor).wf(), r is Ok,
//@|        r->Ok_0.wf(),
//@|        r->Ok_0.header.tx_id == Some(header.tx_id),
//@|        r->Ok_0.header.destination == FrameDestination::UnitId(header.unit_id),
//@|        r->Ok_0.spec_payload() =~= old(cursor)@.subrange(0, adu_length as int),
//@|        final(cursor)@ == old(cursor)@.subrange(adu_length as int, old(cursor)@.len() as int),

//@fn rodbus/src/tcp/frame.rs | MbapParser::parse | tags=C05,C07,C20
//@|    requires old(self).wf(), old(cursor).wf(),
//@|    ensures final(cursor).wf(), final(self).wf(),
//@|        // functional in the logical stream  held ++ buffered  - independent of how it was segmented and of decode_level
//@|        match mbap_next(old(self).held() + old(cursor)@) {
//@|            StreamNext::NeedMore => r == Ok::<Option<Frame>, RequestError>(None)
//@|                && final(self).held() + final(cursor)@ =~= old(self).held() + old(cursor)@
//@|                && final(cursor)@.len() < 260,
//@|            StreamNext::Bad(e) => r == Err::<Option<Frame>, RequestError>(RequestError::BadFrame(e)),
//@|            StreamNext::Frame { dest, tx, pdu, rest } => r is Ok && r->Ok_0 is Some
//@|                && r->Ok_0->Some_0.wf()
//@|                && r->Ok_0->Some_0.spec_payload() =~= pdu
//@|                && r->Ok_0->Some_0.header.tx_id is Some && Some(r->Ok_0->Some_0.header.tx_id->Some_0.v()) == tx
//@|                && r->Ok_0->Some_0.header.destination == dest
//@|                && final(self).is_begin()
//@|                && final(cursor)@ =~= rest,
//@|        },
//@loop 0|            invariant self.wf(), cursor.wf(),
//@loop 0|                self.held() + cursor@ =~= old(self).held() + old(cursor)@,
//@loop 0|            decreases (if self.state is Begin { 1int } else { 0int }),

//@fn rodbus/src/tcp/frame.rs | MbapParser::reset | tags=C05
//@|    ensures final(self).is_begin(), final(self).wf(),
}
