#!/bin/bash
# usage: tools/mutest.sh <Cxx> <file relative to repo> <sed expression> [more "file::sed" pairs]
# applies the edit to a scratch copy of /repo (sources only) and runs the quick check against it
set -u
prop=$1; file=$2; expr=$3
d=$(mktemp -d /var/tmp/mut-XXXXXX)
mkdir -p $d/repo && rsync -a --exclude target --exclude .git /repo/ $d/repo/
before=$(sha256sum $d/repo/$file | cut -d' ' -f1)
sed -i -E "$expr" $d/repo/$file
after=$(sha256sum $d/repo/$file | cut -d' ' -f1)
if [ "$before" == "$after" ]; then echo "MUTANT DID NOT APPLY"; rm -rf $d; exit 3; fi
diff <(cd /repo && cat $file) $d/repo/$file | head -8
VERIF_REPO=$d/repo VERIF_BUILD=$d/build VERIF_OUT=$d/out /verif/check $prop quick 2>&1 | cut -c1-400 | head -12
echo "rc=${PIPESTATUS[0]}"
rm -rf $d
