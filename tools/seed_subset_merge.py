#!/usr/bin/env python3
"""Partial regression: runs the named seeds (ids such as S143) like tools/seed_matrix.py and MERGES their rows into seeded/RESULTS.md
(rows of the other seeds are kept from the last full run).  usage: tools/seed_subset_merge.py [-j N] <seed id> ..."""
import concurrent.futures
import glob
import os
import sys

sys.path.insert(0, os.path.dirname(os.path.abspath(__file__)))
import seed_matrix as sm  # noqa: E402


def main():
    args = sys.argv[1:]
    jobs = 3
    if args and args[0] == "-j":
        jobs = int(args[1])
        args = args[2:]
    dirs = [d for d in sorted(glob.glob(os.path.join(sm.VERIF, "seeded", "S*"))) if os.path.basename(d).split("-")[0] in args]
    path = os.path.join(sm.VERIF, "seeded", "RESULTS.md")
    lines = open(path).read().rstrip("\n").split("\n")
    head = [l for l in lines if not l.startswith("| S")]
    rows = [l for l in lines if l.startswith("| S")]
    with concurrent.futures.ThreadPoolExecutor(max_workers=jobs) as ex:
        for sid, meta, res in ex.map(sm.run_seed, dirs):
            verdict = "VIOLATION" if any(rc == 1 for _, _, rc in res) else ("undecided" if any(rc == 2 for _, _, rc in res) else "MISSED")
            print(f"{sid}: {verdict}  " + "; ".join(f"{p} rc={rc}" for p, _, rc in res), flush=True)
            rows = [r for r in rows if not r.startswith(f"| {sid} |")]
            for prop, first, rc in res:
                rows.append(f"| {sid} | {prop} | {rc} | `{first.replace('|', '/')}` |")
            open(path, "w").write("\n".join(head + sorted(rows)) + "\n")


if __name__ == "__main__":
    main()
