#!/usr/bin/env python3
"""
verdict.py - runs the Verus units of a property, maps verifier diagnostics to named obligations,
applies the verdict policy of DESIGN.md section 3.3 and writes the evidence file.
"""
import concurrent.futures
import hashlib
import json
import os
import re
import subprocess
import sys
import time

VERIF = os.path.dirname(os.path.dirname(os.path.abspath(__file__)))
sys.path.insert(0, os.path.join(VERIF, "tools"))
import extract  # noqa: E402

BUILD = os.environ.get("VERIF_BUILD", os.path.join(VERIF, "build"))
VERUS = os.environ.get("VERUS", "verus")

ASSUMPTION_PATTERNS = [
    r"\bassume\s*\(", r"\badmit\s*\(", r"external_body", r"assume_specification", r"external_type_specification",
    r"#\[verifier::external\b", r"#\[verifier::external_fn_specification", r"\buninterp\b", r"\baxiom\b",
    r"external_trait_specification",
]


class ToolError(Exception):
    """anything that must end in exit 2 (undecided), never in a VIOLATION line"""


def run_verus(rs, extra, log_prefix, multiple_errors=8, rlimit=None, seed=None):
    cmd = [VERUS, rs, "--output-json", "--time", "--multiple-errors", str(multiple_errors)]
    if rlimit:
        cmd += ["--rlimit", str(rlimit)]
    if seed is not None:
        cmd += ["--smt-option", f"smt.random_seed={seed}"]
    cmd += extra
    cmd += ["--", "--error-format=json"]
    # VERIF_CACHE=1 (regression drivers only - seed_matrix.py, benign_run.py - never the registered commands): several properties
    # share a unit, and the same generated text under the same command gives the same answer; keyed by the content of the file
    ck = None
    if os.environ.get("VERIF_CACHE"):
        ck = os.path.join(BUILD, "cache", hashlib.sha256(open(rs, "rb").read() + repr(cmd).encode()).hexdigest() + ".json")
        if os.path.exists(ck):
            c = json.load(open(ck))
            return c["out"], c["diags"], c["raw"], c["dt"], c["cmd"]
    t0 = time.time()
    p = subprocess.run(cmd, capture_output=True, text=True, cwd=BUILD)
    dt = time.time() - t0
    open(log_prefix + ".stdout.json", "w").write(p.stdout)
    open(log_prefix + ".stderr.jsonl", "w").write(p.stderr)
    try:
        out = json.loads(p.stdout)
    except Exception:
        raise ToolError(f"verus produced no JSON result for {rs}: {p.stderr[-2000:]}")
    diags = []
    raw = []
    for l in p.stderr.splitlines():
        l = l.strip()
        if not l.startswith("{"):
            if l:
                raw.append(l)
            continue
        try:
            diags.append(json.loads(l))
        except Exception:
            raw.append(l)
    if ck:
        os.makedirs(os.path.dirname(ck), exist_ok=True)
        tmp = ck + f".{os.getpid()}.tmp"
        json.dump({"out": out, "diags": diags, "raw": raw, "dt": dt, "cmd": " ".join(cmd)}, open(tmp, "w"))
        os.replace(tmp, ck)
    return out, diags, raw, dt, " ".join(cmd)


def enclosing_lemma(meta, o):
    """the lemma (proof fn in a template) whose text contains template position o (same file, nearest start above)"""
    f, ln = o["tpl"].rsplit(":", 1)
    best = None
    for lem in meta.get("lemmas", []):
        lf, ll = lem["tpl"].rsplit(":", 1)
        if lf == f and int(ll) <= int(ln) and (best is None or int(ll) > int(best["tpl"].rsplit(":", 1)[1])):
            best = lem
    return best


def classify(unit, rs, meta, out, diags):
    """-> (failures, tool_errors). failure = dict(obligation, fn, kind, tags, message, text, rendered)"""
    vr = out.get("verification-results", {})
    tool_errors = []
    errors = [d for d in diags if d.get("level") == "error" and not d.get("message", "").startswith("aborting due to")]
    if vr.get("encountered-vir-error") or (vr.get("encountered-error") and not vr.get("errors")):
        for d in errors:
            tool_errors.append(d.get("rendered") or d.get("message"))
        if not tool_errors:
            tool_errors.append("verus reported an error without diagnostics")
        return [], tool_errors
    base = os.path.basename(rs)
    failures = []
    for d in errors:
        msg = d.get("message", "")
        if "rlimit" in msg.lower() or "resource limit" in msg.lower() or "timed out" in msg.lower():
            tool_errors.append("solver resource limit: " + (d.get("rendered") or msg))
            continue
        clause = None
        site = None
        site_text = None
        tplsite = None
        for sp in d.get("spans", []):
            if os.path.basename(sp.get("file_name", "")) != base:
                continue
            o = extract.origin_of(meta, sp["line_start"])
            if o is None:
                continue
            txt = " ".join(t["text"].strip() for t in sp.get("text", []))[:300]
            hl = ""
            if sp.get("text"):
                t0 = sp["text"][0]
                hl = t0["text"][t0["highlight_start"] - 1:t0["highlight_end"] - 1] if sp["line_start"] == sp["line_end"] else txt
            if o["kind"] == "clause":
                # a clause span is the clause of the *failing* obligation unless this is a call-site precondition
                clause = (o, hl or txt)
            elif o["kind"] in ("body", "sig"):
                if site is None or sp.get("is_primary"):
                    site = o
                    site_text = hl or txt
            elif o["kind"] == "tpl":
                if tplsite is None or sp.get("is_primary"):
                    tplsite = (o, hl or txt)
        kind = "other"
        m = msg.lower()
        if "postcondition" in m:
            kind = "ensures"
        elif "precondition" in m:
            kind = "callee-requires"
        elif "invariant" in m:
            kind = "invariant"
        elif "overflow" in m or "underflow" in m:
            kind = "arith-overflow"
        elif "assertion failed" in m:
            kind = "assert"
        elif "decreases" in m or "termination" in m:
            kind = "termination"
        elif "division by zero" in m:
            kind = "div-zero"
        elif "index" in m or "bounds" in m:
            kind = "bounds"
        elif "unwrap" in m or "expect" in m:
            kind = "unwrap"
        f = {"unit": unit, "message": msg, "kind": kind, "rendered": d.get("rendered", "")}
        if kind == "callee-requires":
            # belongs to the caller (site); the clause names the callee's precondition
            if site is not None:
                f["fn"] = site["fn"]
                f["file"] = site["file"]
                f["tags"] = site.get("tags", [])
                f["text"] = site_text
                ctext = clause[0]["text"] if clause else (tplsite[1] if tplsite else "")
                cfn = clause[0]["fn"] if clause else "shim"
                f["obligation"] = f"{site['file']}::{site['fn']}#call-precondition[{cfn}: {ctext}]@`{site_text}`"
            elif tplsite is not None:
                f["fn"] = "template:" + tplsite[0]["tpl"]
                f["tags"] = []
                f["text"] = tplsite[1]
                f["obligation"] = f"{tplsite[0]['tpl']}#call-precondition@`{tplsite[1]}`"
            else:
                f["fn"] = "?"
                f["tags"] = []
                f["obligation"] = f"{unit}#call-precondition"
        elif clause is not None:
            o, hl = clause
            f["fn"] = o["fn"]
            f["file"] = o["file"]
            f["tags"] = o.get("tags", [])
            f["text"] = o["text"]
            f["exit_text"] = site_text
            if site is not None:
                # a clause of a trait declaration fails in the body of an impl: the body's function is the one that matters for the
                # same-query guard
                f["site_fn"], f["site_file"] = site["fn"], site["file"]
            f["obligation"] = f"{o['file']}::{o['fn']}#{kind}{o['idx']}[{o['text']}]"
        elif site is not None:
            f["fn"] = site["fn"]
            f["file"] = site["file"]
            f["tags"] = site.get("tags", [])
            f["text"] = site_text
            f["obligation"] = f"{site['file']}::{site['fn']}#{kind}@`{site_text}`"
        elif tplsite is not None:
            o, hl = tplsite
            lem = enclosing_lemma(meta, o)
            f["fn"] = ("lemma:" + lem["name"]) if lem else ("template:" + o["tpl"])
            f["tags"] = (lem["tags"] if lem else []) or re.findall(r"\[(C\d+)\]", hl)
            f["text"] = hl
            f["obligation"] = f"{o['tpl']}#{kind}@`{hl}`"
        else:
            f["fn"] = "?"
            f["tags"] = []
            f["text"] = ""
            f["obligation"] = f"{unit}#{kind}:{msg}"
        failures.append(f)
    if vr.get("errors") and not failures and not tool_errors:
        tool_errors.append(f"verus reports {vr.get('errors')} errors but none could be mapped")
    return failures, tool_errors


def vacuity_check(unit, rs_vac, meta_vac, out, diags, prefixes=None):
    """every VAC assert(false) must FAIL; returns list of vac ids that verified (vacuous contexts)"""
    vr = out.get("verification-results", {})
    if vr.get("encountered-vir-error") or (vr.get("encountered-error") and not vr.get("errors")):
        raise ToolError("vacuity run did not type-check: " + "; ".join((d.get("rendered") or d.get("message", ""))[:400] for d in diags if d.get("level") == "error")[:3000])
    seen = set()
    for d in diags:
        if d.get("level") != "error":
            continue
        for sp in d.get("spans", []):
            for t in sp.get("text", []):
                for m in re.finditer(r"/\*VAC:(.*?)\*/", t["text"]):
                    seen.add(m.group(1))
    ids = [v for v in meta_vac["vac_ids"]
           if not prefixes or any(meta_vac.get("vac_files", {}).get(v, "").startswith(px) for px in prefixes)]
    missing = [v for v in ids if v not in seen]
    return missing, len(ids)


def assumption_scan(rs):
    found = []
    lines = open(rs).read().split("\n")
    for i, l in enumerate(lines):
        code = l.split("//")[0]
        for pat in ASSUMPTION_PATTERNS:
            if re.search(pat, code):
                # describe by the next non-attribute line
                j = i
                while j + 1 < len(lines) and lines[j].strip().startswith("#["):
                    j += 1
                desc = lines[j].strip()
                found.append(f"{os.path.basename(rs)}:{i + 1}: {l.strip()[:80]} => {desc[:160]}")
                break
    return found


def unsafe_scan():
    """`unsafe` must not occur in the workspace sources (C07 anchor: lint forbid)"""
    hits = []
    for root in ("rodbus/src",):  # the FFI crate legitimately contains `unsafe` (C ABI); the lint anchor of C07 is the rodbus crate
        base = os.path.join(extract.REPO, root)
        for dp, dn, fn in os.walk(base):
            for f in fn:
                if f.endswith(".rs"):
                    p = os.path.join(dp, f)
                    for i, l in enumerate(open(p, errors="replace")):
                        if re.search(r"\bunsafe\b", l.split("//")[0]):
                            hits.append(f"{os.path.relpath(p, extract.REPO)}:{i + 1}")
    return hits


def run_unit(unit, verify_args, tier, seed, prefixes=None, pre=None):
    """-> dict with failures/tool_errors/vacuity/assumptions/timing"""
    res = {"unit": unit, "failures": [], "tool_errors": [], "trusted": [], "rewrites": [], "functions": [],
           "notdecided": [], "bounded": []}
    os.makedirs(BUILD, exist_ok=True)
    if pre:
        p = subprocess.run([os.path.join(VERIF, pre)], capture_output=True, text=True)
        if p.returncode != 0:
            res["tool_errors"].append(f"pre-step {pre} failed: {p.stdout[-1500:]} {p.stderr[-500:]}")
            return res
    pulls = []
    demote = {}
    for round_ in range(6):
        r_ = _run_unit_once(unit, verify_args, tier, seed, prefixes, res, pulls, demote)
        if r_ is None:
            return res
        more = [x for x in derive_pulls(r_) if x not in pulls]
        # a function that still does not compile after its body was dropped (the error is in its signature, e.g. a type the
        # template does not import) is left out altogether in the next round
        dem = {} if more else {k: (v if k not in demote else "DROP:" + v) for k, v in derive_demotions(res, r_).items()
                               if k not in demote or not demote[k].startswith("DROP:")}
        if (not more and not dem) or round_ == 5:
            return res
        # R25: retry with the missing functions pulled in (without contracts); demotion: retry with the functions whose bodies the
        # verifier does not accept emitted as assumed contracts (the properties that tag them become undecided)
        pulls = pulls + more
        demote.update(dem)
        keep = {k: res[k] for k in ("unit",)}
        res.clear()
        res.update({"unit": unit, "failures": [], "tool_errors": [], "trusted": [], "rewrites": [], "functions": [],
                    "notdecided": [], "bounded": []})
    return res


def derive_demotions(res, diags):
    """the unit did not compile / was rejected before verification: map every error to the function body it lies in.
    -> {(file, path): short reason}; empty when some error lies outside a function taken from /repo (template text, items)"""
    vr = res.get("verus", {})
    if not (vr.get("encountered-vir-error") or (vr.get("encountered-error") and not vr.get("errors"))):
        return {}
    meta = res.get("meta")
    if not meta:
        return {}
    out = {}
    errors = [d for d in diags if d.get("level") == "error" and not d.get("message", "").startswith("aborting due to")]
    for d in errors:
        hit = None
        sps = [sp for sp in d.get("spans", []) if sp.get("is_primary")] or d.get("spans", [])
        for sp in sps:
            o = extract.origin_of(meta, sp["line_start"])
            if o and o.get("kind") in ("body", "sig") and o.get("file") and not str(o.get("file")).startswith("@"):
                hit = (o["file"], o["fn"].split("#")[0])
                break
        if hit is None:
            return {}
        out.setdefault(hit, d.get("message", "")[:160])
    return out


def derive_pulls(diags):
    """missing-function compile errors -> [(type name or None, fn name)]"""
    out = []
    for d in diags:
        if d.get("level") != "error":
            continue
        msg = d.get("message", "")
        m = re.search(r"no (?:method|function or associated item|associated function or constant|variant, associated function, or constant|variant or associated item|associated item) named `(\w+)` found for (?:struct|enum|type|union|reference|mutable reference) `&?(?:mut )?([^`]+)`", msg)
        if m:
            ty = re.sub(r"<.*", "", m.group(2)).split("::")[-1].strip()
            out.append((ty, m.group(1)))
            continue
        m = re.search(r"cannot find function `(\w+)` in (?:this scope|module|crate)", msg)
        if m:
            out.append((None, m.group(1)))
    return out


def _run_unit_once(unit, verify_args, tier, seed, prefixes, res, pulls, demote=None):
    """one extraction + verification round; returns the diagnostics of the main run (None when nothing was run)"""
    try:
        rs, meta = extract.build(unit, BUILD, vacuity=False, pulls=pulls, demote=demote)
        rs_vac, meta_vac = extract.build(unit, BUILD, vacuity=True, pulls=pulls, demote=demote)
    except extract.AnchorLost as ex:
        res["tool_errors"].append(f"anchor lost: {ex}")
        return None
    except extract.Unsupported as ex:
        res["tool_errors"].append(f"unsupported: {ex}")
        return None
    res["meta"] = meta
    res["lost"] = meta.get("lost", [])
    res["rewrites"] = meta["rewrites"]
    res["functions"] = meta["functions"]
    res["notdecided"] = meta["notdecided"]
    res["bounded"] = meta["bounded"]
    res["sources"] = meta["sources"]
    res["generated_sha256"] = hashlib.sha256(open(rs, "rb").read()).hexdigest()
    with concurrent.futures.ThreadPoolExecutor(max_workers=2) as ex:
        f1 = ex.submit(run_verus, rs, verify_args, os.path.join(BUILD, unit), 8, None, seed if tier == "thorough" else None)
        f2 = ex.submit(run_verus, rs_vac, verify_args, os.path.join(BUILD, unit + "_vac"), 50)
        try:
            out, diags, raw, dt, cmd = f1.result()
            outv, diagsv, rawv, dtv, cmdv = f2.result()
        except ToolError as e:
            res["tool_errors"].append(str(e))
            return None
    res["cmd"] = cmd
    res["wall_s"] = dt
    res["vac_wall_s"] = dtv
    # thorough tier: the same obligations under two further solver seeds. A proof that holds under one seed and fails under another
    # is brittle, not a violation: reported as a tool error (exit 2), never as an alarm
    res["seed_runs"] = []
    if tier == "thorough" and not out.get("verification-results", {}).get("errors") and not out.get("verification-results", {}).get("encountered-error"):
        for extra in ((seed or 0) + 101, (seed or 0) + 202):
            try:
                o2, d2, r2, dt2, c2 = run_verus(rs, verify_args, os.path.join(BUILD, unit + f"_seed{extra}"), 8, None, extra)
            except ToolError as e:
                res["tool_errors"].append(str(e))
                continue
            v2 = o2.get("verification-results", {})
            res["seed_runs"].append({"seed": extra, "verified": v2.get("verified"), "errors": v2.get("errors"), "wall_s": round(dt2, 1)})
            if v2.get("errors") or v2.get("encountered-error"):
                res["tool_errors"].append(f"unstable proof: verifies with solver seed {seed} but not with seed {extra} ({v2.get('errors')} errors)")
    res["verus"] = out.get("verification-results", {})
    failures, terrs = classify(unit, rs, meta, out, diags)
    # modularity: an obligation that fails in a function which calls a helper the change introduced (pulled in by R25 without a
    # contract) cannot be told apart from "the helper needs a contract": undecided, never an alarm
    unc = {(f["file"], f["path"].split("#")[0]): f.get("calls_uncontracted") for f in meta["functions"] if f.get("calls_uncontracted")}
    for (ty_, fn_) in meta.get("pulled", []):
        for f in meta["functions"]:
            if f["path"].split("#")[0].split("::")[-1] == fn_ and (f["file"], f["path"].split("#")[0]) not in unc:
                # the pulled helper itself has no contract either (no precondition): a failing implicit obligation in it may only
                # need the precondition its call sites establish
                unc[(f["file"], f["path"].split("#")[0])] = [fn_ + " (itself: pulled in without a precondition)"]
    # library calls: an obligation that fails in a function whose body now calls a library function it did not call on the pinned
    # tree (and that the unit does not define) may fail only because that function's specification is weaker than the proof needs
    # (e.g. vstd says nothing about `<[T]>::get_mut` returning None): undecided, never an alarm.  Names with precise vstd
    # specifications that realistic changes use are exempt.
    PRECISE = {"checked_add", "checked_sub", "checked_mul", "wrapping_add", "wrapping_sub", "saturating_add", "saturating_sub", "min", "max",
               "len", "is_some", "is_none", "is_ok", "is_err", "unwrap", "unwrap_or", "expect", "ok_or", "is_empty", "push", "new", "from", "into",
               "clone", "take", "replace", "swap", "insert", "remove", "contains_key", "get", "try_from", "try_into", "as_ref", "as_mut", "ok", "err",
               "sleep", "sleep_until", "timeout", "now",      # modelled by the ghost clock (R21)
               "first", "last", "abs_diff", "pow", "leading_zeros", "trailing_zeros", "to_be_bytes", "to_le_bytes", "from_be_bytes", "from_le_bytes", "drop", "default",
               "copied", "is_zero"}      # specified precisely in units/frag/std.tpl (std documentation)
    gen_text = open(rs).read()
    weak = {}
    for f in meta["functions"]:
        nc = [n for n in f.get("new_calls", []) if n not in PRECISE and not re.search(r"\bfn\s+" + re.escape(n) + r"\b", gen_text)]
        if nc:
            weak[(f["file"], f["path"].split("#")[0])] = nc
    inlined = {(f["file"], f["path"].split("#")[0]) for f in meta["functions"] if f.get("inlined")}
    # same query, different answer: a function whose text is byte-identical to the pinned tree, in a unit whose items (types, constants)
    # are all unchanged, with no helper inlined into it, generates the verification condition it generated on the pinned tree, where it was
    # discharged. If it fails now, the cause is the verifier (solver instability, or the known Verus quirk by which an unrelated change
    # stops `from_spec` from unfolding in the `impl From<..> for RequestError` functions), not the code: undecided, never an alarm.
    # (A changed constant or type - e.g. HEADER_LENGTH - is an item change, so failures it causes in unchanged functions stay violations;
    #  so do call-site preconditions, which belong to the - changed - caller.)
    lost_any = bool(meta.get("lost"))      # a demoted callee keeps its contract, but stay conservative: no downgrade when anything was demoted
    same_vc = set()
    if not meta.get("items_changed") and not meta.get("pulled"):
        same_vc = {(f["file"], f["path"].split("#")[0]) for f in meta["functions"]
                   if f.get("unchanged") and not f.get("has_inlined") and not f.get("calls_uncontracted") and not f.get("ext_body")}
    kept = []
    for f in failures:
        key = (f.get("file"), str(f.get("fn", "")).split("#")[0])
        skey = (f.get("site_file"), str(f.get("site_fn", "")).split("#")[0]) if f.get("site_fn") else key
        if key in same_vc and skey in same_vc and f.get("kind") != "callee-requires" and not lost_any:
            terrs.append(f"verifier instability: {f.get('obligation')} fails although the function, the types and the constants of the unit are "
                         f"byte-identical to the pinned tree, where the same obligation was discharged")
            continue
        if key in inlined:
            continue        # R31: the helper's body is checked where it was inlined (with the caller's facts); its standalone copy has no precondition
        if key in weak:
            terrs.append(f"needs specification: {f.get('obligation')} fails in a function that now calls {', '.join(weak[key])}, library function(s) it did not call "
                         f"on the pinned tree and whose specification the proofs of this function were not written against")
            continue
        if key in unc:
            terrs.append(f"needs contract: {f.get('obligation')} fails in a function that calls {', '.join(unc[key])}, "
                         f"for which no contract exists in this run (a helper the change introduced, pulled in by R25)")
        else:
            kept.append(f)
    failures = kept
    res["failures"] = failures
    res["tool_errors"] += terrs
    # per function solver time (best effort: by name suffix)
    times = {}
    for m in out.get("times-ms", {}).get("smt", {}).get("smt-run-module-times", []):
        for fb in m.get("function-breakdown", []):
            times.setdefault(fb["function"], []).append((fb.get("time-micros", 0), fb.get("rlimit", 0), fb.get("success")))
    res["fn_times"] = times
    res["smt_ms"] = out.get("times-ms", {}).get("smt", {}).get("smt-run", 0)
    try:
        if not terrs:
            missing, nvac = vacuity_check(unit, rs_vac, meta_vac, outv, diagsv, prefixes)
            res["vacuity"] = {"probes": nvac, "vacuous": missing}
            if missing:
                res["tool_errors"].append("vacuity: these contexts verified `assert(false)` (unsatisfiable precondition/invariant): " + ", ".join(missing))
    except ToolError as e:
        res["tool_errors"].append(str(e))
    res["trusted"] = meta["trusted"] + assumption_scan(rs)
    return diags
