#!/usr/bin/env python3
"""
kani_run.py - Kani route: scratch copy of the *unmodified* rodbus crate + appended `#[cfg(kani)]` harness modules.

 * copies /repo/rodbus (sources), /repo/Cargo.lock and a one-member workspace manifest to a fresh scratch
   directory (outside /repo and /verif), appends /verif/kani/<name>.rs to the rodbus source file named in the
   first line of the harness file (`//@append rodbus/src/....rs`), points `tracing` at the no-op stub, and runs
   `cargo kani` for the requested harnesses.  No rodbus line is deleted or rewritten.
 * the scratch directory is removed when the run ends.
"""
import json
import os
import re
import shutil
import subprocess
import sys
import tempfile
import time

VERIF = os.path.dirname(os.path.dirname(os.path.abspath(__file__)))
REPO = os.environ.get("VERIF_REPO", "/repo")

WS_MANIFEST = """[workspace]
resolver = "2"
members = ["rodbus"]

[workspace.dependencies]
tokio = "1.37"
tokio-util = "0.7"
tokio-stream = "0.1"
tracing = "0.1"
tracing-subscriber = "0.3"

[workspace.package]
authors = ["verif"]
rust-version = "1.94"
edition = "2021"
license-file = "LICENSE.txt"
homepage = "https://example.invalid"
repository = "https://example.invalid"
keywords = ["modbus"]
categories = ["network-programming"]

[workspace.lints.rust]

[patch.crates-io]
tracing = { path = "tracing_stub" }
"""


def make_scratch(extra_tests=None):
    base = os.environ.get("VERIF_SCRATCH", "/var/tmp")
    os.makedirs(base, exist_ok=True)
    d = tempfile.mkdtemp(prefix="rodbus-kani-", dir=base)
    shutil.copytree(os.path.join(REPO, "rodbus"), os.path.join(d, "rodbus"), ignore=shutil.ignore_patterns("target"))
    shutil.copy(os.path.join(REPO, "Cargo.lock"), os.path.join(d, "Cargo.lock"))
    if os.path.exists(os.path.join(REPO, "LICENSE.txt")):
        shutil.copy(os.path.join(REPO, "LICENSE.txt"), os.path.join(d, "LICENSE.txt"))
    shutil.copytree(os.path.join(VERIF, "kani", "tracing_stub"), os.path.join(d, "tracing_stub"))
    open(os.path.join(d, "Cargo.toml"), "w").write(WS_MANIFEST)
    os.makedirs(os.path.join(d, ".cargo"), exist_ok=True)
    open(os.path.join(d, ".cargo", "config.toml"), "w").write("[net]\noffline = true\n")
    return d


def inject(d, which=None):
    """append every /verif/kani/*.rs harness file to its target source file"""
    kd = os.path.join(VERIF, "kani")
    injected = []
    for f in sorted(os.listdir(kd)):
        if not f.endswith(".rs"):
            continue
        txt = open(os.path.join(kd, f)).read()
        m = re.match(r"//@append\s+(\S+)", txt)
        if not m:
            continue
        target = os.path.join(d, m.group(1))
        if not os.path.exists(target):
            raise RuntimeError(f"kani harness {f}: target {m.group(1)} not found (anchor lost)")
        with open(target, "a") as out:
            out.write("\n\n// ---- appended by /verif/tools/kani_run.py from kani/" + f + " ----\n")
            out.write(txt)
        injected.append((f, m.group(1)))
    return injected


def parse_kani_output(text):
    """-> {harness: {status, checks, failed_checks}}; handles the interleaved `Thread N:` format of -j"""
    res = {}
    by_thread = {}
    cur = None
    for line in text.splitlines():
        m = re.match(r"\s*(?:Thread (\d+): )?Checking harness (\S+?)\.\.\.", line)
        if m:
            cur = m.group(2)
            res[cur] = {"status": "UNKNOWN", "checks": None, "failed_checks": []}
            if m.group(1) is not None:
                by_thread[m.group(1)] = cur
            continue
        m = re.match(r"\s*Thread (\d+):\s*$", line)
        if m:
            cur = by_thread.get(m.group(1), cur)
            continue
        if cur is None:
            continue
        m = re.search(r"\*\* (\d+) of (\d+) failed", line)
        if m:
            res[cur]["checks"] = int(m.group(2))
            res[cur]["failed"] = int(m.group(1))
        m = re.match(r"\s*Failed Checks: (.*)", line)
        if m:
            res[cur]["failed_checks"].append(m.group(1).strip())
        if "VERIFICATION:- SUCCESSFUL" in line:
            res[cur]["status"] = "SUCCESS"
        elif "VERIFICATION:- FAILED" in line:
            res[cur]["status"] = "FAILED"
    return res


def _tree_hash():
    import hashlib
    h = hashlib.sha256()
    for base in (os.path.join(REPO, "rodbus"), os.path.join(VERIF, "kani")):
        for root, dirs, files in os.walk(base):
            dirs[:] = sorted(d for d in dirs if d != "target")
            for f in sorted(files):
                if f.endswith((".rs", ".toml")):
                    p = os.path.join(root, f)
                    h.update(p[len(base):].encode())
                    h.update(open(p, "rb").read())
    return h.hexdigest()


def run_harnesses(harnesses, tier, keep=False):
    """VERIF_CACHE=1 (regression drivers only, never the registered commands): the verdict of a harness on a byte-identical crate +
    harness set is reused within one build directory (several properties share harnesses)"""
    if not harnesses or not os.environ.get("VERIF_CACHE") or not os.environ.get("VERIF_BUILD"):
        return _run_harnesses(harnesses, tier, keep)
    cdir = os.path.join(os.environ["VERIF_BUILD"], "cache")
    os.makedirs(cdir, exist_ok=True)
    th = _tree_hash()
    out = {"harnesses": [], "tool_errors": []}
    todo = []
    for h in harnesses:
        ck = os.path.join(cdir, f"kani-{th[:24]}-{h['name']}.json")
        if os.path.exists(ck):
            out["harnesses"].append(json.load(open(ck)))
        else:
            todo.append((h, ck))
    if todo:
        r = _run_harnesses([h for h, _ in todo], tier, keep)
        out["tool_errors"] += r["tool_errors"]
        for e in r["harnesses"]:
            out["harnesses"].append(e)
            ck = next(c for h, c in todo if h["name"] == e["name"])
            if e["status"] in ("SUCCESS", "FAILED") and not r["tool_errors"]:
                json.dump(e, open(ck, "w"))
    return out


def _run_harnesses(harnesses, tier, keep=False):
    out = {"harnesses": [], "tool_errors": []}
    if not harnesses:
        return out
    try:
        d = make_scratch()
        inject(d)
    except Exception as ex:
        out["tool_errors"].append(f"kani scratch: {ex}")
        return out
    try:
        env = dict(os.environ, CARGO_NET_OFFLINE="true", CARGO_TARGET_DIR=os.path.join(d, "target"))
        names = [h["name"] for h in harnesses]
        jobs = min(8, max(1, len(names)))
        cmd = ["cargo", "kani", "-p", "rodbus", "--no-default-features", "--features", "serial",
               "-Z", "function-contracts", "-Z", "stubbing", "-Z", "unstable-options", "--output-format", "terse", "-j", str(jobs)]
        for n in names:
            cmd += ["--harness", n]
        timeout = max(h.get("timeout", 900) for h in harnesses) + 300
        t0 = time.time()
        try:
            p = subprocess.run(cmd, cwd=d, env=env, capture_output=True, text=True, timeout=timeout)
            text = p.stdout + "\n" + p.stderr
        except subprocess.TimeoutExpired as ex:
            text = (ex.stdout or b"").decode(errors="replace") if isinstance(ex.stdout, bytes) else (ex.stdout or "")
            out["tool_errors"].append(f"kani timed out after {timeout}s")
        dt = time.time() - t0
        os.makedirs(os.path.join(VERIF, "build"), exist_ok=True)
        open(os.path.join(VERIF, "build", "kani.log"), "w").write(text)
        parsed = parse_kani_output(text)
        for h in harnesses:
            # kani prints the full path of the harness
            key = next((k for k in parsed if k.endswith("::" + h["name"]) or k == h["name"]), None)
            r = parsed.get(key, {"status": "UNKNOWN", "checks": None, "failed_checks": []})
            entry = {"name": h["name"], "role": h.get("role", "bounded"), "bound": h.get("bound", ""), "target": h.get("target", ""),
                     "status": r["status"], "checks": r.get("checks"), "failed_checks": r.get("failed_checks", []),
                     "wall_s": round(dt, 1), "cmd": " ".join(cmd)}
            if r["status"] == "UNKNOWN":
                out["tool_errors"].append(f"kani harness {h['name']}: no verdict (compile error, ICE or timeout); see build/kani.log: " + text[-1500:])
            if r["status"] == "FAILED":
                entry["log_tail"] = "\n".join(l for l in text.splitlines() if "Failed Checks" in l or "failed" in l.lower())[:3000]
                entry["counterexample"] = concrete_playback(d, env, h)
            out["harnesses"].append(entry)
    finally:
        if not keep:
            shutil.rmtree(d, ignore_errors=True)
    return out


def concrete_playback(d, env, h):
    """re-run one failing harness with concrete playback to obtain input bytes (the counterexample)"""
    cmd = ["cargo", "kani", "-p", "rodbus", "--no-default-features", "--features", "serial", "-Z", "function-contracts",
           "-Z", "stubbing", "-Z", "concrete-playback", "--concrete-playback=print", "--harness", h["name"]]
    try:
        p = subprocess.run(cmd, cwd=d, env=env, capture_output=True, text=True, timeout=h.get("timeout", 900))
    except subprocess.TimeoutExpired:
        return None
    text = p.stdout
    m = re.search(r"Concrete playback unit test for `[^`]*`:\s*```\s*(.*?)```", text, re.S)
    if not m:
        return None
    return {"harness": h["name"], "playback_test": m.group(1).strip(), "append_to": h.get("file", "")}


def replay(path):
    """./check Cxx --replay file: with a Kani counterexample, runs the generated concrete test against a scratch copy
    of the real crate (cargo kani playback); otherwise prints the verifier output recorded for the obligation."""
    rep = json.load(open(path))
    print(f"property   : {rep['property']}")
    print(f"obligation : {rep['obligation']}")
    cex = rep.get("counterexample")
    if not cex:
        print("no concrete failing input was produced by the verifier; recorded verifier output follows\n")
        print(rep.get("verifier_output", ""))
        print("\nre-run the check itself to see whether the obligation still fails:  ./check %s quick" % rep["property"])
        return 1
    d = make_scratch()
    try:
        inject(d)
        # append the playback test next to the harness
        kd = os.path.join(VERIF, "kani")
        target = None
        for f in sorted(os.listdir(kd)):
            if f.endswith(".rs"):
                txt = open(os.path.join(kd, f)).read()
                if re.search(r"fn\s+" + re.escape(cex["harness"]) + r"\b", txt):
                    target = re.match(r"//@append\s+(\S+)", txt).group(1)
        if target is None:
            print("harness not found")
            return 2
        with open(os.path.join(d, target), "a") as out:
            out.write("\n#[cfg(kani)]\nmod verif_playback { use super::verif_kani::*; use super::*;\n" + cex["playback_test"] + "\n}\n")
        env = dict(os.environ, CARGO_NET_OFFLINE="true", CARGO_TARGET_DIR=os.path.join(d, "target"))
        cmd = ["cargo", "kani", "playback", "-Z", "concrete-playback", "-p", "rodbus", "--no-default-features", "--features", "serial", "--", "kani_concrete_playback"]
        p = subprocess.run(cmd, cwd=d, env=env, capture_output=True, text=True)
        print(p.stdout[-4000:])
        print(p.stderr[-4000:])
        if "could not compile" in p.stderr:
            print("REPLAY: the playback test did not compile (tool problem)")
            return 2
        failed = "FAILED" in p.stdout or "panicked" in p.stdout or p.returncode != 0
        print("REPLAY: the counterexample %s on the real code" % ("REPRODUCES" if failed else "does NOT reproduce"))
        return 1 if failed else 0
    finally:
        shutil.rmtree(d, ignore_errors=True)


if __name__ == "__main__":
    hs = [{"name": n, "role": "complete"} for n in sys.argv[1:]]
    r = run_harnesses(hs, "quick", keep=bool(os.environ.get("KEEP")))
    print(json.dumps(r))
