#!/bin/bash
# regenerates the oo-bindgen output (ffi.rs) of the CURRENT tree: the build script of rodbus-ffi writes it to OUT_DIR
REPO=${VERIF_REPO:-/repo}
TARGET=${VERIF_FFI_TARGET:-/verif/build/ffi-target}
cd "$REPO" || exit 2
CARGO_TARGET_DIR="$TARGET" CARGO_NET_OFFLINE=true cargo check -p rodbus-ffi --offline >"$TARGET.log" 2>&1 || { tail -20 "$TARGET.log"; exit 2; }
ls -t "$TARGET"/debug/build/rodbus-ffi-*/out/ffi.rs | head -1
