#!/bin/bash
# usage: tools/run_seed.sh <patch.diff> <Cxx> [<Cyy> ...]   applies the patch to /repo, runs the quick checks, undoes the patch
set -u
patch=$1; shift
git -C /repo apply $patch || { echo "patch does not apply"; exit 2; }
for p in "$@"; do
  VERIF_OUT=/var/tmp/seedout /verif/check $p quick 2>&1 | cut -c1-420 | head -8
  echo "   -> $p rc=${PIPESTATUS[0]}"
done
git -C /repo checkout -- .
git -C /repo status --short | head -3
