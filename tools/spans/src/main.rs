//! spans: prints byte spans of the items of a Rust source file as JSON.
//!
//! Used by /verif/tools/extract.py to copy the *original text* of functions, types and constants
//! out of /repo byte-for-byte.  The AST is used only to find positions; nothing is re-printed.
//!
//! usage: spans <file.rs> [<file.rs> ...]   (one JSON object per line: {"file":..., "items":[...]})

use proc_macro2::{Span, TokenStream, TokenTree};
use std::fmt::Write as _;
use syn::spanned::Spanned;
use syn::visit::{self, Visit};

fn br(s: Span) -> (usize, usize) {
    let r = s.byte_range();
    (r.start, r.end)
}

fn js(s: &str) -> String {
    let mut o = String::from("\"");
    for c in s.chars() {
        match c {
            '"' => o.push_str("\\\""),
            '\\' => o.push_str("\\\\"),
            '\n' => o.push_str("\\n"),
            '\t' => o.push_str("\\t"),
            '\r' => o.push_str("\\r"),
            c if (c as u32) < 0x20 => {
                let _ = write!(o, "\\u{:04x}", c as u32);
            }
            c => o.push(c),
        }
    }
    o.push('"');
    o
}

fn sp(r: (usize, usize)) -> String {
    format!("[{},{}]", r.0, r.1)
}

/// token text with minimal whitespace: a single space only between two ident-like tokens
fn compact(ts: TokenStream) -> String {
    fn rec(ts: TokenStream, out: &mut String, last_ident: &mut bool) {
        for tt in ts {
            match tt {
                TokenTree::Group(g) => {
                    let (o, c) = match g.delimiter() {
                        proc_macro2::Delimiter::Parenthesis => ("(", ")"),
                        proc_macro2::Delimiter::Brace => ("{", "}"),
                        proc_macro2::Delimiter::Bracket => ("[", "]"),
                        proc_macro2::Delimiter::None => ("", ""),
                    };
                    out.push_str(o);
                    *last_ident = false;
                    rec(g.stream(), out, last_ident);
                    out.push_str(c);
                    *last_ident = false;
                }
                TokenTree::Ident(i) => {
                    if *last_ident {
                        out.push(' ');
                    }
                    out.push_str(&i.to_string());
                    *last_ident = true;
                }
                TokenTree::Punct(p) => {
                    out.push(p.as_char());
                    // a lifetime tick is followed by an ident: keep them glued, but the ident then counts
                    *last_ident = false;
                }
                TokenTree::Literal(l) => {
                    if *last_ident {
                        out.push(' ');
                    }
                    out.push_str(&l.to_string());
                    *last_ident = true;
                }
            }
        }
    }
    let mut s = String::new();
    let mut li = false;
    rec(ts, &mut s, &mut li);
    s
}

fn cfg_strs(attrs: &[syn::Attribute]) -> Vec<String> {
    let mut v = vec![];
    for a in attrs {
        if a.path().is_ident("cfg") {
            if let syn::Meta::List(l) = &a.meta {
                v.push(compact(l.tokens.clone()));
            }
        }
    }
    v
}

fn cfg_node(out: &mut Vec<String>, attrs: &[syn::Attribute], span: (usize, usize)) {
    let c = cfg_strs(attrs);
    if !c.is_empty() {
        out.push(format!(
            "{{\"span\":{},\"cfg\":[{}]}}",
            sp(span),
            c.iter().map(|x| js(x)).collect::<Vec<_>>().join(",")
        ));
    }
}

#[derive(Default)]
struct Inner {
    let_loops: Vec<String>,
    value_breaks: Vec<String>,
    loop_stack: Vec<(usize, usize)>,
    nested_items: Vec<(usize, usize)>,
    cfg_nodes: Vec<String>,
    loops: Vec<String>,
    tries: Vec<String>,
    macros: Vec<String>,
    returns: Vec<String>,
    instruments: Vec<String>,
    attrs: Vec<(usize, usize)>,
    closures: Vec<String>,
    async_blocks: Vec<String>,
    awaits: Vec<String>,
    depth_closure: usize,
}

impl<'ast> Visit<'ast> for Inner {
    fn visit_attribute(&mut self, a: &'ast syn::Attribute) {
        self.attrs.push(br(a.span()));
    }
    fn visit_item(&mut self, i: &'ast syn::Item) {
        // nested items are not part of the function's own control flow; nested fns are reported separately (hoisted by the extractor)
        self.nested_items.push(br(i.span()));
    }
    fn visit_arm(&mut self, a: &'ast syn::Arm) {
        cfg_node(&mut self.cfg_nodes, &a.attrs, br(a.span()));
        visit::visit_arm(self, a);
    }
    fn visit_local(&mut self, l: &'ast syn::Local) {
        if let Some(init) = &l.init {
            if let syn::Expr::Loop(lp) = &*init.expr {
                let name = { let p = &l.pat; compact(quote::quote!(#p)) };
                self.let_loops.push(format!(
                    "{{\"stmt\":{},\"pat\":{},\"name\":{},\"loop\":{}}}",
                    sp(br(l.span())), sp(br(l.pat.span())), js(&name), sp(br(lp.span()))
                ));
            }
        }
        cfg_node(&mut self.cfg_nodes, &l.attrs, br(l.span()));
        visit::visit_local(self, l);
    }
    fn visit_field_value(&mut self, f: &'ast syn::FieldValue) {
        cfg_node(&mut self.cfg_nodes, &f.attrs, br(f.span()));
        visit::visit_field_value(self, f);
    }
    fn visit_expr_closure(&mut self, c: &'ast syn::ExprClosure) {
        let mut wilds: Vec<String> = vec![];
        for i in c.inputs.iter() {
            let p = match i { syn::Pat::Type(t) => &*t.pat, other => other };
            if let syn::Pat::Wild(w) = p {
                wilds.push(sp(br(w.span())));
            }
        }
        self.closures
            .push(format!("{{\"span\":{},\"body\":{},\"wilds\":[{}],\"body_is_block\":{}}}", sp(br(c.span())), sp(br(c.body.span())), wilds.join(","), matches!(&*c.body, syn::Expr::Block(_))));
        self.depth_closure += 1;
        visit::visit_expr_closure(self, c);
        self.depth_closure -= 1;
    }
    fn visit_expr_async(&mut self, c: &'ast syn::ExprAsync) {
        self.async_blocks.push(format!("{{\"span\":{},\"block\":{}}}", sp(br(c.span())), sp(br(c.block.span()))));
        self.depth_closure += 1;
        visit::visit_expr_async(self, c);
        self.depth_closure -= 1;
    }
    fn visit_expr_loop(&mut self, l: &'ast syn::ExprLoop) {
        self.loops.push(format!(
            "{{\"kind\":\"loop\",\"span\":{},\"body\":{}}}",
            sp(br(l.span())),
            sp(br(l.body.span()))
        ));
        self.loop_stack.push(br(l.span()));
        visit::visit_expr_loop(self, l);
        self.loop_stack.pop();
    }
    fn visit_expr_break(&mut self, b: &'ast syn::ExprBreak) {
        if let (Some(e), Some(lp)) = (&b.expr, self.loop_stack.last()) {
            self.value_breaks.push(format!(
                "{{\"span\":{},\"value\":{},\"loop\":{}}}",
                sp(br(b.span())), sp(br(e.span())), sp(*lp)
            ));
        }
        visit::visit_expr_break(self, b);
    }
    fn visit_expr_while(&mut self, l: &'ast syn::ExprWhile) {
        self.loops.push(format!(
            "{{\"kind\":\"while\",\"span\":{},\"cond\":{},\"body\":{}}}",
            sp(br(l.span())),
            sp(br(l.cond.span())),
            sp(br(l.body.span()))
        ));
        self.loop_stack.push(br(l.span()));
        visit::visit_expr_while(self, l);
        self.loop_stack.pop();
    }
    fn visit_expr_for_loop(&mut self, l: &'ast syn::ExprForLoop) {
        self.loops.push(format!(
            "{{\"kind\":\"for\",\"span\":{},\"pat\":{},\"iter\":{},\"body\":{}}}",
            sp(br(l.span())),
            sp(br(l.pat.span())),
            sp(br(l.expr.span())),
            sp(br(l.body.span()))
        ));
        self.loop_stack.push(br(l.span()));
        visit::visit_expr_for_loop(self, l);
        self.loop_stack.pop();
    }
    fn visit_expr_try(&mut self, t: &'ast syn::ExprTry) {
        self.tries.push(format!(
            "{{\"span\":{},\"operand\":{},\"in_closure\":{}}}",
            sp(br(t.span())),
            sp(br(t.expr.span())),
            self.depth_closure > 0
        ));
        visit::visit_expr_try(self, t);
    }
    fn visit_expr_return(&mut self, r: &'ast syn::ExprReturn) {
        self.returns.push(format!(
            "{{\"span\":{},\"in_closure\":{}}}",
            sp(br(r.span())),
            self.depth_closure > 0
        ));
        visit::visit_expr_return(self, r);
    }
    fn visit_expr_await(&mut self, a: &'ast syn::ExprAwait) {
        self.awaits.push(format!(
            "{{\"span\":{},\"base\":{}}}",
            sp(br(a.span())),
            sp(br(a.base.span()))
        ));
        visit::visit_expr_await(self, a);
    }
    fn visit_expr_method_call(&mut self, m: &'ast syn::ExprMethodCall) {
        if m.method == "instrument" {
            self.instruments.push(format!(
                "{{\"span\":{},\"receiver\":{}}}",
                sp(br(m.span())),
                sp(br(m.receiver.span()))
            ));
        }
        visit::visit_expr_method_call(self, m);
    }
    fn visit_stmt_macro(&mut self, m: &'ast syn::StmtMacro) {
        self.macros.push(format!(
            "{{\"path\":{},\"span\":{},\"stmt\":true,\"tokens\":{},\"args\":{}}}",
            js(&path_str(&m.mac.path)),
            sp(br(m.span())),
            sp(delim_inner(&m.mac)),
            js(&compact(m.mac.tokens.clone()))
        ));
        for a in &m.attrs {
            self.attrs.push(br(a.span()));
        }
    }
    fn visit_expr_macro(&mut self, m: &'ast syn::ExprMacro) {
        self.macros.push(format!(
            "{{\"path\":{},\"span\":{},\"stmt\":false,\"tokens\":{},\"args\":{}}}",
            js(&path_str(&m.mac.path)),
            sp(br(m.span())),
            sp(delim_inner(&m.mac)),
            js(&compact(m.mac.tokens.clone()))
        ));
    }
}

fn leaf_tails(e: &syn::Expr, out: &mut Vec<(usize, usize)>) {
    match e {
        syn::Expr::Match(m) => {
            for a in &m.arms {
                leaf_tails(&a.body, out);
            }
        }
        syn::Expr::If(i) => {
            block_tail(&i.then_branch, out);
            if let Some((_, els)) = &i.else_branch {
                leaf_tails(els, out);
            }
        }
        syn::Expr::Block(b) => block_tail(&b.block, out),
        other => out.push(br(other.span())),
    }
}

fn block_tail(b: &syn::Block, out: &mut Vec<(usize, usize)>) {
    if let Some(syn::Stmt::Expr(e, None)) = b.stmts.last() {
        leaf_tails(e, out);
    }
}

fn delim_inner(m: &syn::Macro) -> (usize, usize) {
    let (o, c) = match &m.delimiter {
        syn::MacroDelimiter::Paren(p) => (p.span.open(), p.span.close()),
        syn::MacroDelimiter::Brace(p) => (p.span.open(), p.span.close()),
        syn::MacroDelimiter::Bracket(p) => (p.span.open(), p.span.close()),
    };
    (br(o).1, br(c).0)
}

fn path_str(p: &syn::Path) -> String {
    compact(quote::quote!(#p))
}

struct Top {
    mods: Vec<String>,
    out: Vec<String>,
}

struct AttrVis {
    cfg_nodes: Vec<String>,
    attrs: Vec<(usize, usize)>,
    vis: Vec<(usize, usize)>,
    pub_insert: Vec<usize>,
}
impl<'ast> Visit<'ast> for AttrVis {
    fn visit_attribute(&mut self, a: &'ast syn::Attribute) {
        self.attrs.push(br(a.span()));
    }
    fn visit_field(&mut self, f: &'ast syn::Field) {
        cfg_node(&mut self.cfg_nodes, &f.attrs, br(f.span()));
        match &f.vis {
            syn::Visibility::Inherited => {
                let pos = match &f.ident {
                    Some(i) => br(i.span()).0,
                    None => br(f.ty.span()).0,
                };
                self.pub_insert.push(pos);
            }
            v => self.vis.push(br(v.span())),
        }
        visit::visit_field(self, f);
    }
    fn visit_variant(&mut self, v: &'ast syn::Variant) {
        // enum variant fields have no visibility: only collect attributes
        cfg_node(&mut self.cfg_nodes, &v.attrs, br(v.span()));
        for a in &v.attrs {
            self.attrs.push(br(a.span()));
        }
        for f in v.fields.iter() {
            for a in &f.attrs {
                self.attrs.push(br(a.span()));
            }
        }
    }
}

fn derive_list(attrs: &[syn::Attribute]) -> Vec<String> {
    let mut v = vec![];
    for a in attrs {
        if a.path().is_ident("derive") {
            let _ = a.parse_nested_meta(|m| {
                v.push(path_str(&m.path));
                Ok(())
            });
        }
    }
    v
}

impl Top {
    fn prefix(&self) -> String {
        if self.mods.is_empty() {
            String::new()
        } else {
            format!("{}::", self.mods.join("::"))
        }
    }

    fn emit_simple(&mut self, kind: &str, name: String, item: &syn::Item, vis: &syn::Visibility, attrs: &[syn::Attribute]) {
        let mut av = AttrVis { cfg_nodes: vec![], attrs: vec![], vis: vec![], pub_insert: vec![] };
        av.visit_item(item);
        let after_attrs = attrs.iter().map(|a| br(a.span()).1).max();
        let item_vis = match vis {
            syn::Visibility::Inherited => "null".to_string(),
            v => sp(br(v.span())),
        };
        // remove the item-level vis from the inner list
        let ivr = match vis {
            syn::Visibility::Inherited => None,
            v => Some(br(v.span())),
        };
        let inner_vis: Vec<String> = av.vis.iter().filter(|v| Some(**v) != ivr).map(|v| sp(*v)).collect();
        let s = format!(
            "{{\"kind\":{},\"path\":{},\"span\":{},\"attrs\":[{}],\"after_attrs\":{},\"vis\":{},\"field_vis\":[{}],\"pub_insert\":[{}],\"derives\":[{}],\"cfg\":[{}],\"cfg_nodes\":[{}]}}",
            js(kind),
            js(&format!("{}{}", self.prefix(), name)),
            sp(br(item.span())),
            av.attrs.iter().map(|a| sp(*a)).collect::<Vec<_>>().join(","),
            after_attrs.map(|x| x.to_string()).unwrap_or("null".into()),
            item_vis,
            inner_vis.join(","),
            av.pub_insert.iter().map(|p| p.to_string()).collect::<Vec<_>>().join(","),
            derive_list(attrs).iter().map(|d| js(d)).collect::<Vec<_>>().join(","),
            cfg_strs(attrs).iter().map(|d| js(d)).collect::<Vec<_>>().join(","),
            av.cfg_nodes.join(",")
        );
        self.out.push(s);
    }

    fn emit_fn(
        &mut self,
        path: String,
        whole: Span,
        attrs: &[syn::Attribute],
        vis: &syn::Visibility,
        sig: &syn::Signature,
        block: Option<&syn::Block>,
        in_trait_impl: bool,
        in_trait_def: bool,
    ) {
        let mut inner = Inner::default();
        let mut tail = "null".to_string();
        let mut leaves: Vec<(usize, usize)> = vec![];
        let mut nested_fns: Vec<&syn::ItemFn> = vec![];
        if let Some(b) = block {
            inner.visit_block(b);
            if let Some(syn::Stmt::Expr(e, None)) = b.stmts.last() {
                tail = sp(br(e.span()));
            }
            block_tail(b, &mut leaves);
            for st in &b.stmts {
                if let syn::Stmt::Item(syn::Item::Fn(f)) = st {
                    nested_fns.push(f);
                }
            }
        }
        let ret = match &sig.output {
            syn::ReturnType::Default => "null".to_string(),
            syn::ReturnType::Type(_, t) => sp(br(t.span())),
        };
        let vis_s = match vis {
            syn::Visibility::Inherited => "null".to_string(),
            v => sp(br(v.span())),
        };
        let where_s = match &sig.generics.where_clause {
            None => "null".to_string(),
            Some(w) => sp(br(w.span())),
        };
        let mut all_attrs: Vec<(usize, usize)> = attrs.iter().map(|a| br(a.span())).collect();
        all_attrs.extend(inner.attrs.iter().cloned());
        // attributes on parameters
        for i in sig.inputs.iter() {
            match i {
                syn::FnArg::Receiver(r) => {
                    for a in &r.attrs {
                        all_attrs.push(br(a.span()));
                    }
                }
                syn::FnArg::Typed(t) => {
                    for a in &t.attrs {
                        all_attrs.push(br(a.span()));
                    }
                }
            }
        }
        let params: Vec<String> = sig
            .inputs
            .iter()
            .map(|i| match i {
                syn::FnArg::Receiver(r) => format!("{{\"name\":\"self\",\"span\":{}}}", sp(br(r.span()))),
                syn::FnArg::Typed(t) => format!(
                    "{{\"name\":{},\"span\":{},\"ty\":{}}}",
                    js(&{ let p = &t.pat; compact(quote::quote!(#p)) }),
                    sp(br(t.span())),
                    sp(br(t.ty.span()))
                ),
            })
            .collect();
        let s = format!(
            "{{\"kind\":\"fn\",\"path\":{},\"span\":{},\"attrs\":[{}],\"vis\":{},\"sig\":{},\"ret\":{},\"where\":{},\"body\":{},\"tail\":{},\"trait_impl\":{},\"trait_def\":{},\"is_async\":{},\"params\":[{}],\"loops\":[{}],\"tries\":[{}],\"macros\":[{}],\"returns\":[{}],\"instruments\":[{}],\"closures\":[{}],\"async_blocks\":[{}],\"awaits\":[{}],\"cfg\":[{}],\"cfg_nodes\":[{}],\"leaf_tails\":[{}],\"nested_items\":[{}],\"let_loops\":[{}],\"value_breaks\":[{}],\"stmts\":[{}]}}",
            js(&path),
            sp(br(whole)),
            all_attrs.iter().map(|a| sp(*a)).collect::<Vec<_>>().join(","),
            vis_s,
            sp(br(sig.span())),
            ret,
            where_s,
            block.map(|b| sp(br(b.span()))).unwrap_or("null".into()),
            tail,
            in_trait_impl,
            in_trait_def,
            sig.asyncness.is_some(),
            params.join(","),
            inner.loops.join(","),
            inner.tries.join(","),
            inner.macros.join(","),
            inner.returns.join(","),
            inner.instruments.join(","),
            inner.closures.join(","),
            inner.async_blocks.join(","),
            inner.awaits.join(","),
            cfg_strs(attrs).iter().map(|d| js(d)).collect::<Vec<_>>().join(","),
            inner.cfg_nodes.join(","),
            leaves.iter().map(|a| sp(*a)).collect::<Vec<_>>().join(","),
            inner.nested_items.iter().map(|a| sp(*a)).collect::<Vec<_>>().join(","),
            inner.let_loops.join(","),
            inner.value_breaks.join(","),
            block.map(|b| b.stmts.iter().map(|st| sp(br(st.span()))).collect::<Vec<_>>().join(",")).unwrap_or_default()
        );
        self.out.push(s);
        for f in nested_fns {
            let p = format!("{}::{}", path, f.sig.ident);
            self.emit_fn(p, f.span(), &f.attrs, &f.vis, &f.sig, Some(&f.block), false, false);
        }
    }

    fn item(&mut self, it: &syn::Item) {
        match it {
            syn::Item::Fn(f) => {
                let p = format!("{}{}", self.prefix(), f.sig.ident);
                self.emit_fn(p, f.span(), &f.attrs, &f.vis, &f.sig, Some(&f.block), false, false);
            }
            syn::Item::Struct(s) => self.emit_simple("struct", s.ident.to_string(), it, &s.vis, &s.attrs),
            syn::Item::Enum(s) => self.emit_simple("enum", s.ident.to_string(), it, &s.vis, &s.attrs),
            syn::Item::Const(s) => self.emit_simple("const", s.ident.to_string(), it, &s.vis, &s.attrs),
            syn::Item::Static(s) => self.emit_simple("static", s.ident.to_string(), it, &s.vis, &s.attrs),
            syn::Item::Type(s) => self.emit_simple("type", s.ident.to_string(), it, &s.vis, &s.attrs),
            syn::Item::Trait(t) => {
                self.emit_simple("trait", t.ident.to_string(), it, &t.vis, &t.attrs);
                for ti in &t.items {
                    if let syn::TraitItem::Fn(f) = ti {
                        let p = format!("{}trait {}::{}", self.prefix(), t.ident, f.sig.ident);
                        self.emit_fn(p, f.span(), &f.attrs, &syn::Visibility::Inherited, &f.sig, f.default.as_ref(), false, true);
                    }
                }
            }
            syn::Item::Impl(im) => {
                let st = &im.self_ty; let self_ty = compact(quote::quote!(#st));
                let key = match &im.trait_ {
                    Some((_, p, _)) => format!("{} for {}", path_str(p), self_ty),
                    None => self_ty,
                };
                let gg = &im.generics; let generics = compact(quote::quote!(#gg));
                let header_end = br(im.brace_token.span.open()).0;
                let after_attrs = im.attrs.iter().map(|a| br(a.span()).1).max();
                self.out.push(format!(
                    "{{\"kind\":\"impl\",\"path\":{},\"span\":{},\"header\":[{},{}],\"generics\":{},\"attrs\":[{}]}}",
                    js(&format!("{}impl {}", self.prefix(), key)),
                    sp(br(im.span())),
                    after_attrs.unwrap_or(br(im.span()).0),
                    header_end,
                    js(&generics),
                    im.attrs.iter().map(|a| sp(br(a.span()))).collect::<Vec<_>>().join(",")
                ));
                for ii in &im.items {
                    match ii {
                        syn::ImplItem::Fn(f) => {
                            let p = format!("{}{}::{}", self.prefix(), key, f.sig.ident);
                            self.emit_fn(p, f.span(), &f.attrs, &f.vis, &f.sig, Some(&f.block), im.trait_.is_some(), false);
                        }
                        syn::ImplItem::Const(c) => {
                            let vis_s = match &c.vis {
                                syn::Visibility::Inherited => "null".to_string(),
                                v => sp(br(v.span())),
                            };
                            self.out.push(format!(
                                "{{\"kind\":\"const\",\"path\":{},\"span\":{},\"attrs\":[{}],\"after_attrs\":{},\"vis\":{},\"field_vis\":[],\"pub_insert\":[],\"derives\":[],\"cfg\":[],\"cfg_nodes\":[]}}",
                                js(&format!("{}{}::{}", self.prefix(), key, c.ident)),
                                sp(br(c.span())),
                                c.attrs.iter().map(|a| sp(br(a.span()))).collect::<Vec<_>>().join(","),
                                c.attrs.iter().map(|a| br(a.span()).1).max().map(|x| x.to_string()).unwrap_or("null".into()),
                                vis_s
                            ));
                        }
                        _ => {}
                    }
                }
            }
            syn::Item::Mod(m) => {
                if let Some((_, items)) = &m.content {
                    self.mods.push(m.ident.to_string());
                    for i in items {
                        self.item(i);
                    }
                    self.mods.pop();
                }
            }
            _ => {}
        }
    }
}

fn main() {
    let args: Vec<String> = std::env::args().skip(1).collect();
    if args.is_empty() {
        eprintln!("usage: spans <file.rs>...");
        std::process::exit(2);
    }
    for a in args {
        let src = match std::fs::read_to_string(&a) {
            Ok(s) => s,
            Err(e) => {
                eprintln!("spans: cannot read {}: {}", a, e);
                std::process::exit(2);
            }
        };
        let file = match syn::parse_file(&src) {
            Ok(f) => f,
            Err(e) => {
                eprintln!("spans: cannot parse {}: {}", a, e);
                std::process::exit(2);
            }
        };
        let mut top = Top { mods: vec![], out: vec![] };
        for it in &file.items {
            top.item(it);
        }
        println!("{{\"file\":{},\"items\":[{}]}}", js(&a), top.out.join(","));
    }
}
