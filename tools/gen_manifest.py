#!/usr/bin/env python3
"""generates /verif/MANIFEST.json from units/registry.json (claims) - keeps the manifest valid at all times"""
import json, os
V = os.path.dirname(os.path.dirname(os.path.abspath(__file__)))
reg = json.load(open(os.path.join(V, "units", "registry.json")))
props = [json.loads(l) for l in open(os.path.join(V, "properties.jsonl"))]
checks = []
na = []
for p in props:
    pid = p["id"]
    pr = reg["properties"].get(pid)
    if pr and pr.get("claimed", True):
        checks.append({
            "property_id": pid,
            "quick_cmd": f"./check {pid} quick",
            "thorough_cmd": f"./check {pid} thorough",
            "evidence_file": f"/verif/evidence/{pid}.json",
            "replay_cmd_template": f"./check {pid} --replay {{path}}",
            "engine": "verus+kani",
            "level_claimed": {
                "category": "proof",
                "text": pr.get("claim", ""),
                "design_ref": f"DESIGN.md section 7, {pid}",
            },
            "level_note": pr.get("level_note", ""),
            "technique": pr.get("technique", "contract-based deductive verification (Verus contracts on the extracted real functions; Kani full-domain harnesses on the unmodified crate)"),
        })
    else:
        na.append({"property_id": pid, "reason": (pr or {}).get("na_reason", reg.get("default_na_reason", "not yet covered by a discharged contract"))})
m = {
    "version": 1,
    "setup_cmd": "cd /verif/tools/spans && CARGO_NET_OFFLINE=true cargo build --release --offline && /verif/tools/gen_ffi.sh",
    "hooks": {
        "guard": "none",
        "enable": "no hooks: both routes work on copies of /repo made at check time (Verus: extracted text; Kani: scratch copy with appended #[cfg(kani)] modules)",
        "baseline_off_cmd": "cd /repo && cargo test --workspace --no-fail-fast --offline",
        "source_commits": [],
        "add_only": True,
    },
    "engines": [
        {"name": "verus", "path": "/verif/tools/extract.py + /verif/units", "serves_properties": [c["property_id"] for c in checks],
         "kind_free_text": "deductive verifier (SMT/Z3) on the real function text extracted byte-for-byte on every run, contracts spliced from templates"},
        {"name": "kani", "path": "/verif/tools/kani_run.py + /verif/kani", "serves_properties": [pid for pid, pr in reg["properties"].items() if pr.get("kani")],
         "kind_free_text": "CBMC-based model checker on the unmodified crate; loop-free full-domain harnesses (complete) and labelled bounded stand-ins; counterexample generator"},
    ],
    "checks": checks,
    "not_applicable": na,
    "notes": "Fix commits in /repo are recorded in /verif/known_findings.json. exit 2 from a check means undecided (anchor lost / unsupported construct / tool failure), never a violation.",
}
json.dump(m, open(os.path.join(V, "MANIFEST.json"), "w"), indent=1)
print("claimed:", [c["property_id"] for c in checks], "na:", [n["property_id"] for n in na])
