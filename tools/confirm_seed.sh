#!/bin/bash
# usage: tools/confirm_seed.sh <worktree with DELIVER/> <test filter>
# confirms in the scratch worktree: (1) demo passes on the original tree, (2) with the patch the existing suite passes and the demo fails
set -u
wt=$1; filter=${2:-}
cd $wt || exit 2
git checkout -q -- . ; git clean -fdq -e DELIVER -e target
git apply DELIVER/demo.diff || { echo "demo.diff does not apply"; exit 2; }
echo "== original tree + demo"
CARGO_NET_OFFLINE=true cargo test -p rodbus --offline $filter 2>&1 | grep -E "^test result|FAILED|failed|panicked" | head -8
git apply DELIVER/patch.diff || { echo "patch.diff does not apply"; exit 2; }
echo "== patched tree + demo"
CARGO_NET_OFFLINE=true cargo test -p rodbus --offline $filter 2>&1 | grep -E "^test result|FAILED|failed|panicked" | head -12
git checkout -q -- . ; git clean -fdq -e DELIVER -e target
