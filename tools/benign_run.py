#!/usr/bin/env python3
"""False-alarm regression: apply a behaviour-preserving change to a scratch copy of /repo (never to /repo itself) and run
the quick checks of every property whose verified text it reaches.  A VIOLATION (rc 1) on such a change is a false alarm;
rc 0 (held) and rc 2 (undecided: anchor / shape lost, tool limit) are both acceptable answers.
usage: tools/benign_run.py [-j N] <diff> [<diff> ...]    prints one line per diff; exit 1 if any check raised an alarm"""
import concurrent.futures
import filecmp
import json
import os
import shutil
import subprocess
import sys
import tempfile

VERIF = os.path.dirname(os.path.dirname(os.path.abspath(__file__)))
REPO = os.environ.get("VERIF_REPO", "/repo")
REG = json.load(open(os.path.join(VERIF, "units", "registry.json")))
UNITS = [u for u in REG["units"]]


def extract_all(repo, out):
    """extract every unit that needs no compilation step; returns {unit: path or None}"""
    res = {}
    for u in UNITS:
        if u == "ffi":
            continue
        env = dict(os.environ, VERIF_REPO=repo)
        p = subprocess.run([sys.executable, os.path.join(VERIF, "tools", "extract.py"), u, "--out", out], env=env,
                           capture_output=True, text=True)
        res[u] = os.path.join(out, u + ".rs") if p.returncode == 0 else None
    return res


def run_diff(diff, base):
    diff = os.path.abspath(diff)
    name = os.path.relpath(diff, "/tmp/seed") if diff.startswith("/tmp/seed") else os.path.relpath(diff, VERIF)
    work = tempfile.mkdtemp(prefix="benign-", dir="/var/tmp")
    try:
        subprocess.run(["rsync", "-a", "--exclude", "target", "--exclude", ".git", REPO + "/", work + "/repo/"], check=True)
        p = subprocess.run(["patch", "-p1", "-s", "-i", diff], cwd=work + "/repo", capture_output=True, text=True)
        if p.returncode != 0:
            return name, [], [("-", 3, "patch does not apply")]
        mine = extract_all(work + "/repo", work + "/x")
        touched = [l[6:].strip() for l in open(diff) if l.startswith("+++ b/")]
        changed = [u for u in mine if mine[u] is None or base[u] is None or not filecmp.cmp(mine[u], base[u], shallow=False)]
        if any(t.startswith("ffi/") for t in touched) or "client" in changed or "tracker" in changed:
            changed.append("ffi")
        props = set(p for p, v in REG["properties"].items() if set(v.get("units", [])) & set(changed))
        # Kani route: a property is also reached when a touched file carries one of its harnesses (the function may be an assumed
        # contract in the Verus units and decided by Kani alone)
        import glob as _g, re as _re
        hfile = {}
        for kf in _g.glob(os.path.join(VERIF, "kani", "*.rs")):
            txt = open(kf).read()
            m = _re.match(r"//@append\s+(\S+)", txt)
            if m:
                for h in _re.findall(r"fn\s+(k_\w+)", txt):
                    hfile[h] = m.group(1)
        for p_, v in REG["properties"].items():
            ks = v.get("kani") or []
            if isinstance(ks, list) and any(hfile.get(h.get("name")) in touched for h in ks if isinstance(h, dict)):
                props.add(p_)
        props = sorted(props)
        rows = []
        for prop in props:
            env = dict(os.environ, VERIF_CACHE="1", VERIF_REPO=work + "/repo", VERIF_BUILD=work + "/build", VERIF_OUT=work + "/out",
                       VERIF_FFI_TARGET=work + "/ffi-target")
            q = subprocess.run([os.path.join(VERIF, "check"), prop, "quick"], capture_output=True, text=True, env=env)
            lines = [l.strip() for l in (q.stdout + q.stderr).split("\n") if l.strip()]
            first = next((l for l in lines if l.startswith("obligation:")), None) \
                or next((l for l in lines if l.startswith("UNDECIDED")), None) or ""
            rows.append((prop, q.returncode, first[:300]))
        return name, changed, rows
    finally:
        shutil.rmtree(work, ignore_errors=True)


def main():
    args = sys.argv[1:]
    jobs = 3
    if args and args[0] == "-j":
        jobs = int(args[1])
        args = args[2:]
    basedir = tempfile.mkdtemp(prefix="benign-base-", dir="/var/tmp")
    alarm = False
    try:
        base = extract_all(REPO, basedir)
        with concurrent.futures.ThreadPoolExecutor(max_workers=jobs) as ex:
            for name, changed, rows in ex.map(lambda d: run_diff(d, base), args):
                held = [p for p, rc, _ in rows if rc == 0]
                und = [(p, f) for p, rc, f in rows if rc == 2]
                bad = [(p, rc, f) for p, rc, f in rows if rc not in (0, 2)]
                alarm = alarm or bool(bad)
                print(f"{name}: units={','.join(changed) or '-'} held={','.join(held) or '-'} "
                      f"undecided={','.join(p for p, _ in und) or '-'} ALARM={','.join(p for p, _, _ in bad) or '-'}", flush=True)
                for p, f in und:
                    print(f"    {p} undecided: {f}", flush=True)
                for p, rc, f in bad:
                    print(f"    {p} rc={rc}: {f}", flush=True)
    finally:
        shutil.rmtree(basedir, ignore_errors=True)
    sys.exit(1 if alarm else 0)


if __name__ == "__main__":
    main()
