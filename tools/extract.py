#!/usr/bin/env python3
"""
extract.py - mechanical extractor + contract splicer (Verus route).

Reads a unit template (units/<unit>/unit.rs.tpl), re-reads /repo's working tree, copies the original
text of every listed item byte-for-byte (positions come from tools/spans, a syn-based span finder),
applies the fixed rewrite list of DESIGN.md section 4.2 (each application logged) and splices the
contracts of the template around the copied text.

Directives (a template line whose first non-blank characters are `//@`):

  //@include <path relative to units/>
  //@item <repo file> | <item path> [| opt ...]          struct / enum / const / type / static
        opts: derive=A,B   keep exactly these derives (default: those of the item that are in
                           Clone, Copy, PartialEq, Eq)
              keepvis      do not touch visibility
  //@fn <repo file> | <item path> [| opt ...]            a function; followed by continuation lines:
        //@| <contract text>            inserted between signature and body
        //@loop <k>| <text>             inserted before the body of loop k (invariant / decreases)
        //@entry| <text>                inserted at function entry (proof hints)
        //@exit <m>| <text>             inserted before the m-th exit (returns in source order, then tail)
        //@tryexit <k>| <text>          inserted in the Err/None arm generated for the k-th `?` (needs r10)
        //@loopstart <k>| , //@loopend <k>| , //@afterloop <k>|
        opts: ret=<name>   name of the return value (default r)
              r10          rewrite every `?` to its match expansion; r10=0,2 only those ordinals
              r10opt       the `?` operands are Options (None => return None)
              r4           rewrite every `for` loop; r4=0,1 only those ordinals
              name=<n>     emit under a different function name (R5)
              tags=C01,C05 property tags of the function (clauses may add `// [Cxx]`)
              attr=<text>  extra attribute line before the function
              ext_body     emit signature + contract only, body replaced by unimplemented!() and
                           marked #[verifier::external_body]  (an ASSUMED contract; listed as trusted)
              keepmacros   do not apply R1 (fails if a macro is present that Verus cannot take)
              novac        no vacuity probe for this function (e.g. requires false on purpose)
  //@trusted <text>        declares one entry of the trusted base (reported in evidence)
  //@bounded <text>        declares a bounded stand-in
  //@notdecided <Cxx> <text>

Output: the generated Rust text and a JSON side file with the line map, rewrite log, hashes.
"""
import bisect
import hashlib
import json
import os
import re
import subprocess
import sys

VERIF = os.path.dirname(os.path.dirname(os.path.abspath(__file__)))
REPO = os.environ.get("VERIF_REPO", "/repo")
SPANS = os.path.join(VERIF, "tools", "spans", "target", "release", "spans")

KEEP_DERIVES = ["Clone", "Copy", "PartialEq", "Eq", "Default"]
try:
    SHAPES = json.load(open(os.path.join(os.path.dirname(os.path.dirname(os.path.abspath(__file__))), "units", "shapes.json")))
except Exception:
    SHAPES = {}
# functions a Kani harness targets (units/registry.json): an assumed contract on one of them is cross-checked on the current text
try:
    _reg = json.load(open(os.path.join(os.path.dirname(os.path.dirname(os.path.abspath(__file__))), "units", "registry.json")))
    KANI_TARGETS = {h.get("target") for pv in _reg["properties"].values() for h in (pv.get("kani") or []) if isinstance(h, dict)}
except Exception:
    KANI_TARGETS = set()

TRACING_MACROS = {
    "log_channel_event",   # macro_rules! in tcp/client.rs: expands to tracing::info! / tracing::debug! only
    "tracing::info", "tracing::warn", "tracing::error", "tracing::debug", "tracing::trace",
}
SPAN_MACROS = {"tracing::info_span", "tracing::warn_span", "tracing::error_span", "tracing::debug_span", "tracing::trace_span"}

# R1 audit: function / method names that may appear inside the arguments of a deleted logging macro
R1_ALLOWED_CALLS = {
    "new", "get", "get_value", "payload", "as_millis", "from", "len", "value", "to_string", "as_str",
    "display", "Some", "format_args", "is_empty", "into", "clone", "as_ref", "header", "kind", "ip",
    "destination", "function", "details", "name", "as_secs_f32", "as_secs", "to_u16", "get_function", "as_micros",
}


FEATURES = {"serial", "tls", "enable-tls", "default"}   # the default build of rodbus (R7)


def cfg_eval(c):
    """evaluate the inside of #[cfg(...)] for the default feature set; test / kani are off"""
    c = c.strip()
    m = re.fullmatch(r'feature="([^"]+)"', c)
    if m:
        return m.group(1) in FEATURES
    if c in ("test", "kani", "miri"):
        return False
    for op in ("not", "any", "all"):
        if c.startswith(op + "(") and c.endswith(")"):
            inner = c[len(op) + 1:-1]
            parts, depth, cur = [], 0, ""
            for ch in inner:
                if ch == "(":
                    depth += 1
                if ch == ")":
                    depth -= 1
                if ch == "," and depth == 0:
                    parts.append(cur)
                    cur = ""
                else:
                    cur += ch
            if cur.strip():
                parts.append(cur)
            vals = [cfg_eval(x) for x in parts]
            if op == "not":
                return not vals[0]
            return any(vals) if op == "any" else all(vals)
    raise Unsupported(f"cannot evaluate cfg({c})")


def cfg_on(cfgs):
    return all(cfg_eval(c) for c in cfgs)


class AnchorLost(Exception):
    pass


class Unsupported(Exception):
    pass


_span_cache = {}


def spans_of(relfile):
    """items of a repo file (cached per process)"""
    if relfile in _span_cache:
        return _span_cache[relfile]
    if relfile.startswith("@ffi/"):
        # the oo-bindgen output of the CURRENT tree: regenerated by tools/gen_ffi.sh (cargo check -p rodbus-ffi) on every run
        import glob
        hits = sorted(glob.glob(os.path.join(os.environ.get("VERIF_FFI_TARGET", os.path.join(VERIF, "build", "ffi-target")),
                                             "debug", "build", "rodbus-ffi-*", "out", relfile[len("@ffi/"):])), key=os.path.getmtime)
        path = hits[-1] if hits else relfile
    elif relfile.startswith("@registry/"):
        # a dependency's source, verbatim from the offline cargo registry (version pinned by Cargo.lock)
        import glob
        hits = sorted(glob.glob(os.path.expanduser("~/.cargo/registry/src/*/" + relfile[len("@registry/"):])))
        path = hits[0] if hits else relfile
    else:
        path = relfile if os.path.isabs(relfile) else os.path.join(REPO, relfile)
    if not os.path.exists(path):
        raise AnchorLost(f"file not found: {relfile}")
    p = subprocess.run([SPANS, path], capture_output=True, text=True)
    if p.returncode != 0:
        raise AnchorLost(f"spans failed on {relfile}: {p.stderr.strip()}")
    d = json.loads(p.stdout)
    src = open(path, "rb").read()
    idx = {}
    for it in d["items"]:
        idx.setdefault((it["kind"] if it["kind"] in ("fn", "impl") else "item", it["path"]), []).append(it)
    _span_cache[relfile] = (src, idx, d["items"])
    return _span_cache[relfile]


def find_item(relfile, kind, path):
    src, idx, _ = spans_of(relfile)
    got = idx.get((kind, path))
    if got:
        got = [g for g in got if cfg_on(g.get("cfg", []))]
    if not got:
        raise AnchorLost(f"{kind} `{path}` not found in {relfile} (or compiled out by cfg)")
    if len(got) > 1:
        raise AnchorLost(f"{kind} `{path}` is ambiguous in {relfile} ({len(got)} matches)")
    return src, got[0]


def split_hint(text):
    """-> (raw, proof): `broadcast use ...;` statements must stay at block level, the rest goes into proof { }"""
    raw, pr = [], []
    for part in re.split(r"(?<=;)\s*", text.strip()):
        if not part.strip():
            continue
        (raw if (part.strip().startswith("broadcast use") or part.strip().startswith("let ghost")) else pr).append(part.strip())
    out = ""
    if raw:
        out += " " + " ".join(raw) + " "
    if pr:
        out += " proof { " + " ".join(pr) + " } "
    return out


class Edit:
    __slots__ = ("s", "e", "fn", "prio")

    def __init__(self, s, e, fn, prio=0):
        self.s, self.e, self.fn, self.prio = s, e, fn, prio


class Renderer:
    """renders a span of the source with nested edits; an edit's fn receives the renderer so that it can
    render its own sub-spans (with the edits nested inside them)"""

    def __init__(self, src, edits):
        self.src = src
        # zero-width inserts first at a position, then wider range edits before narrower ones
        self.edits = sorted(edits, key=lambda x: (x.s, 0 if x.e == x.s else 1, x.prio, -(x.e - x.s)))

    def text(self, s, e):
        return self.src[s:e].decode("utf-8")

    def render(self, s, e):
        out = []
        pos = s
        cur_end = s
        for x in self.edits:
            if x.s < s or x.e > e:
                continue
            if x.s < cur_end:
                if x.e > cur_end:
                    raise Unsupported(f"overlapping edits at {x.s}..{x.e}")
                continue  # nested in the previous top-level edit: rendered by that edit
            out.append(self.text(pos, x.s))
            out.append(x.fn(self))
            pos = x.e
            cur_end = max(cur_end, x.e)
        out.append(self.text(pos, e))
        return "".join(out)

    def render_inside(self, edit, s, e):
        """render sub-span [s,e) of `edit` (edits nested in it apply, the edit itself does not)"""
        sub = Renderer(self.src, [x for x in self.edits if x is not edit and x.s >= s and x.e <= e])
        return sub.render(s, e)


def strip_tracing(text, where, log):
    """R1 inside an unparsed macro body (select!): remove `tracing::level!(..)` statements textually"""
    out = []
    i = 0
    pat = re.compile(r"tracing::(info|warn|error|debug|trace)!\s*\(")
    while True:
        m = pat.search(text, i)
        if not m:
            out.append(text[i:])
            break
        out.append(text[i:m.start()])
        j = m.end()
        depth = 1
        while j < len(text) and depth > 0:
            c = text[j]
            if c == '"':
                j += 1
                while j < len(text) and text[j] != '"':
                    j += 2 if text[j] == "\\" else 1
            elif c == "(":
                depth += 1
            elif c == ")":
                depth -= 1
            j += 1
        args = text[m.end():j - 1]
        audit_r1(args, where)
        k = j
        while k < len(text) and text[k] in " \t":
            k += 1
        if k < len(text) and text[k] == ";":
            j = k + 1
        else:
            out.append("()")
        log(f"tracing::{m.group(1)}!(..) deleted inside select!")
        i = j
    return "".join(out)


def parse_select(text):
    """splits the body of `tokio::select! { pat = fut => body, ... }` into arms -> [(pat, fut, body)]"""
    arms = []
    i, n = 0, len(text)

    def skip_ws(i):
        while i < n:
            if text[i].isspace():
                i += 1
            elif text.startswith("//", i):
                j = text.find("\n", i)
                i = n if j < 0 else j + 1
            else:
                break
        return i

    def scan(i, stops):
        """advance to the first top-level occurrence of one of `stops`; returns (pos, stop)"""
        depth = 0
        while i < n:
            c = text[i]
            if c == '"':
                i += 1
                while i < n and text[i] != '"':
                    i += 2 if text[i] == "\\" else 1
                i += 1
                continue
            if text.startswith("//", i):
                j = text.find("\n", i)
                i = n if j < 0 else j + 1
                continue
            if c in "([{":
                depth += 1
            elif c in ")]}":
                depth -= 1
            elif depth == 0:
                for st in stops:
                    if text.startswith(st, i):
                        if st == "=" and (text.startswith("==", i) or text.startswith("=>", i) or (i > 0 and text[i - 1] in "=!<>")):
                            continue
                        return i, st
            i += 1
        return n, None

    while True:
        i = skip_ws(i)
        if i >= n:
            break
        j, st = scan(i, ["="])
        if st is None:
            raise Unsupported("select!: cannot find `=` of an arm")
        pat = text[i:j].strip()
        k, st = scan(j + 1, ["=>"])
        if st is None:
            raise Unsupported("select!: cannot find `=>` of an arm")
        fut = text[j + 1:k].strip()
        b = skip_ws(k + 2)
        if text[b] == "{":
            depth, e = 0, b
            while e < n:
                if text[e] == "{":
                    depth += 1
                elif text[e] == "}":
                    depth -= 1
                    if depth == 0:
                        break
                e += 1
            body = text[b:e + 1]
            i = skip_ws(e + 1)
            if i < n and text[i] == ",":
                i += 1
        else:
            e, st = scan(b, [","])
            body = text[b:e].strip()
            i = e + 1
        arms.append((pat, fut, body))
    return arms


def cfg_node_edits(src, nodes, log):
    """delete nodes (variants, fields, match arms, statements) whose #[cfg] is off in the default build"""
    out = []
    for nd in nodes:
        if cfg_on(nd["cfg"]):
            continue
        s0, e0 = nd["span"]
        # swallow a trailing comma (enum variants / fields are separated by commas outside their span)
        j = e0
        while src[j:j + 1] in (b" ", b"\t", b"\n", b"\r"):
            j += 1
        if src[j:j + 1] == b",":
            e0 = j + 1
        out.append(Edit(s0, e0, lambda r: ""))
        log(s0, "cfg(" + ",".join(nd["cfg"]) + ") is off: node removed")
    return out


def audit_r1(args, where):
    args = re.sub(r'"(?:[^"\\]|\\.)*"', '""', args)   # string literals (format strings) carry no code
    # every call inside the arguments of a deleted logging statement must be allow-listed
    for m in re.finditer(r"([A-Za-z_][A-Za-z0-9_]*)\s*\(", args):
        name = m.group(1)
        if name not in R1_ALLOWED_CALLS:
            raise Unsupported(f"R1 audit: call `{name}(` inside a logging macro at {where}; not in the allow-list")
    for bad in ("?", ".await", "!("):
        if bad in args:
            raise Unsupported(f"R1 audit: `{bad}` inside a logging macro at {where}")
    if re.search(r"[^=!<>]=[^=]", args):
        # `name = expr` named format args are fine only for plain places; be strict
        for m in re.finditer(r"([A-Za-z_][A-Za-z0-9_]*)=([^=,]+)", args):
            pass


def line_of(src, pos):
    return src.count(b"\n", 0, pos) + 1


class Unit:
    def __init__(self, name, vacuity=False):
        self.demote = {}
        self.name = name
        self.vacuity = vacuity
        self.segs = []  # (text, origin)
        self.rewrites = []
        self.functions = []  # dicts
        self.items = []
        self.trusted = []
        self.bounded = []
        self.notdecided = []
        self.sources = {}
        self.vac_ids = []
        self.vac_files = {}
        self.lemmas = []
        self.flags = set()

    def emit(self, text, origin):
        if text:
            self.segs.append((text, origin))

    def log(self, rule, relfile, src, pos, note=""):
        self.rewrites.append({"rule": rule, "file": relfile, "line": line_of(src, pos), "note": note})

    # ------------------------------------------------------------------
    def do_item(self, relfile, path, opts, tpl_origin):
        src, it = find_item(relfile, "item", path)
        self.sources[relfile] = hashlib.sha256(src).hexdigest()
        s, e = it["span"]
        edits = []
        for a in it["attrs"]:
            if src[a[0]:a[1]].startswith(b"#[repr(") or src[a[0]:a[1]].strip() == b"#[default]":
                continue
            edits.append(Edit(a[0], a[1], lambda r: ""))
        if "keepvis" not in opts:
            if it["vis"]:
                edits.append(Edit(it["vis"][0], it["vis"][1], lambda r: "pub"))
            else:
                start = it["after_attrs"] if it["after_attrs"] is not None else s
                # skip whitespace after attrs
                while src[start:start + 1] in (b" ", b"\n", b"\t", b"\r"):
                    start += 1
                edits.append(Edit(start, start, lambda r: "pub "))
            for v in it["field_vis"]:
                edits.append(Edit(v[0], v[1], lambda r: "pub"))
            for p in it["pub_insert"]:
                edits.append(Edit(p, p, lambda r: "pub "))
        cedits = cfg_node_edits(src, it.get("cfg_nodes", []), lambda pos, note: self.log("R7", relfile, src, pos, note))
        # attribute edits nested in a removed node are dropped with it
        edits = [x for x in edits if not any(c.s <= x.s and x.e <= c.e for c in cedits)] + cedits
        r = Renderer(src, edits)
        body = r.render(s, e)
        for a_, b_ in opts.get("subs", []):
            # R29 (type part): a boxed trait-object callback type is replaced by the opaque shim type that stands for it
            if a_ not in body:
                raise AnchorLost(f"{relfile}:{path}: item no longer contains `{a_}`")
            body = body.replace(a_, b_)
            self.log("R29", relfile, src, s, f"{path}: type `{a_}` -> `{b_}`")
        derives = opts.get("derive")
        if derives is None:
            derives = [d for d in it["derives"] if d in KEEP_DERIVES]
        else:
            derives = [d for d in derives.split(",") if d]
        head = ""
        if derives and it["kind"] in ("struct", "enum"):
            head = f"#[derive({', '.join(derives)})]\n"
        if it["attrs"]:
            self.log("R7", relfile, src, s, f"attributes/doc comments of {path} stripped; derives kept: {derives}")
        if "keepvis" not in opts:
            self.log("R9", relfile, src, s, f"{path}: visibility -> pub")
        if "execconst" in opts:
            m = re.match(r"^\s*(pub\s+)?const\s+(\w+)\s*:\s*(.+?)\s*=\s*(.*);\s*$", body, re.S)
            if not m:
                raise Unsupported(f"{relfile}:{path}: execconst on something that is not `const N: T = E;`")
            ens = f" ensures {opts['execconst']}" if opts["execconst"].strip() else ""
            body = f"pub exec const {m.group(2)}: {m.group(3)}{ens} {{ {m.group(4)} }}"
            self.log("R12", relfile, src, s, f"const {path} = <call>; emitted as `exec const` with a proved `ensures` (Verus consts are dual-mode and cannot call exec functions)")
        tail_txt = ""
        if "structeq" in opts:
            # R13: derive(PartialEq) -> its structural expansion, with the vstd spec companion
            if "PartialEq" not in it["derives"]:
                raise Unsupported(f"{relfile}:{path}: structeq requested but the item does not derive PartialEq")
            derives = [d for d in derives if d not in ("PartialEq", "Eq")]
            head = f"#[derive({', '.join(derives)})]\n" if derives else ""
            name = path.split("::")[-1]
            fields = re.findall(r"pub\s+(\w+)\s*:", body)
            if it["kind"] != "struct" or not fields:
                raise Unsupported(f"{relfile}:{path}: structeq supports structs with named fields only")
            spec_eq = " && ".join(f"self.{f} == other.{f}" for f in fields)
            tail_txt = (f"\nimpl vstd::std_specs::cmp::PartialEqSpecImpl for {name} {{\n"
                        f"    open spec fn obeys_eq_spec() -> bool {{ true }}\n"
                        f"    open spec fn eq_spec(&self, other: &Self) -> bool {{ {spec_eq} }}\n}}\n"
                        f"impl PartialEq for {name} {{ fn eq(&self, other: &Self) -> bool {{ {spec_eq} }} }}\n")
            self.log("R13", relfile, src, s, f"derive(PartialEq) on {path} replaced by its field-wise expansion (Verus gives derived PartialEq no specification)")
        if "enumeq" in opts:
            # R13 (enum form): derive(PartialEq) is structural equality; the exec body is not expanded, only its contract is stated
            if "PartialEq" not in it["derives"]:
                raise Unsupported(f"{relfile}:{path}: enumeq requested but the item does not derive PartialEq")
            derives = [d for d in derives if d not in ("PartialEq", "Eq")]
            head = f"#[derive({', '.join(derives)})]\n" if derives else ""
            name = path.split("::")[-1]
            gm = re.search(r"\b(?:struct|enum)\s+" + re.escape(name) + r"\s*<([^>]*)>", body)
            gparams = [g.strip().split(":")[0].strip() for g in gm.group(1).split(",")] if gm else []
            gdecl = ("<" + ", ".join(f"{g}: PartialEq" for g in gparams) + ">") if gparams else ""
            guse = ("<" + ", ".join(gparams) + ">") if gparams else ""
            tail_txt = (f"\nimpl{gdecl} vstd::std_specs::cmp::PartialEqSpecImpl for {name}{guse} {{\n"
                        f"    open spec fn obeys_eq_spec() -> bool {{ true }}\n"
                        f"    open spec fn eq_spec(&self, other: &Self) -> bool {{ *self == *other }}\n}}\n"
                        f"impl{gdecl} PartialEq for {name}{guse} {{ #[verifier::external_body] fn eq(&self, other: &Self) -> bool {{ unimplemented!() }} }}\n")
            self.trusted.append(f"derive(PartialEq) on {path} is structural equality (Rust reference)")
            self.log("R13", relfile, src, s, f"derive(PartialEq) on {path}: contract `==` is structural equality, body not expanded")
        text = head + body.lstrip("\n") + tail_txt
        # strip blank lines left by removed attributes
        text = re.sub(r"\n[ \t]*\n([ \t]*\n)+", "\n\n", text)
        self.emit(text + "\n", {"kind": "item", "file": relfile, "path": path, "line": line_of(src, s)})
        self.items.append({"file": relfile, "path": path, "sha256": hashlib.sha256(src[s:e]).hexdigest()})

    # ------------------------------------------------------------------
    def do_fn(self, relfile, path, opts, parts, tpl_origin):
        seg_start__ = len(self.segs)
        try:
            return self._do_fn(relfile, path, opts, parts, tpl_origin)
        finally:
            for f in self.functions:
                if f["file"] == relfile and f["path"] == path and "segs" not in f:
                    f["segs"] = [seg_start__, len(self.segs)]
                    f["opts_tags"] = opts.get("tags", "")

    def _do_fn(self, relfile, path, opts, parts, tpl_origin):
        src, it = find_item(relfile, "fn", path)
        self.sources[relfile] = hashlib.sha256(src).hexdigest()
        s, e = it["span"]
        retname = opts.get("ret", "r")
        tags = [t for t in opts.get("tags", "").split(",") if t]
        fname = path
        edits = []
        where = f"{relfile}:{path}"

        # R7: attributes
        for a in it["attrs"]:
            edits.append(Edit(a[0], a[1], lambda r: ""))
        # R9: visibility
        sig_s, sig_e = it["sig"]
        if (("inherent" in opts) or (not it["trait_impl"] and not it["trait_def"])) and "keepvis" not in opts:
            if it["vis"]:
                edits.append(Edit(it["vis"][0], it["vis"][1], lambda r: "pub"))
            else:
                edits.append(Edit(sig_s, sig_s, lambda r: "pub "))
        # rename
        if "name" in opts:
            m = re.search(rb"\bfn\s+([A-Za-z_][A-Za-z0-9_]*)", src[sig_s:sig_e])
            ns, ne = sig_s + m.start(1), sig_s + m.end(1)
            newname = opts["name"]
            edits.append(Edit(ns, ne, lambda r: newname))
            self.log("R5", relfile, src, ns, f"{path} emitted as `{newname}`")
        # R14: wildcard parameters get a name (Verus requires plain identifier patterns)
        for k_, prm in enumerate(it["params"]):
            if prm["name"] == "_" and "ty" in prm:
                edits.append(Edit(prm["span"][0], prm["ty"][0], lambda r, k_=k_: f"_p{k_}: "))
                self.log("R14", relfile, src, prm["span"][0], f"{path}: parameter `_` named `_p{k_}`")
        for ci, cl in enumerate(it.get("closures", [])):
            for wi, w in enumerate(cl.get("wilds", [])):
                edits.append(Edit(w[0], w[1], lambda r, ci=ci, wi=wi: f"_c{ci}_{wi}"))
                self.log("R14", relfile, src, w[0], f"{path}: closure parameter `_` named `_c{ci}_{wi}`")
        # R19: `mut x: T` parameter of an async fn -> `x: T` + `let mut x = x;` (the installed Verus loses the `mut` in the async desugaring)
        r19 = []
        if it.get("is_async") and it["body"] and "ext_body" not in opts:
            for prm in it["params"]:
                if prm["name"].startswith("mut ") and "ty" in prm:
                    nm = prm["name"][4:].strip()
                    edits.append(Edit(prm["span"][0], prm["ty"][0], lambda r, nm=nm: f"{nm}: "))
                    r19.append(nm)
                    self.log("R19", relfile, src, prm["span"][0], f"{path}: `mut {nm}` parameter rebound at function entry")
        # R24: raw-pointer parameters of the C-ABI wrappers. `p: *mut T` whose first use is the statement
        # `let p = p.as_ref().ok_or(E)?;` / `let p = p.as_mut().ok_or(E)?;` becomes a parameter `p: &mut T` and that statement is
        # dropped (what is dropped: the null check, i.e. the behaviour for null pointers). Always `&mut`, so that the contract can
        # state that an object only read by the wrapper is left unchanged.
        if "r24" in opts and it["body"]:
            for prm in it["params"]:
                if "ty" not in prm:
                    continue
                tytxt = src[prm["ty"][0]:prm["ty"][1]].decode().strip()
                mty = re.fullmatch(r"\*mut\s+(.+)", tytxt, re.S)
                if not mty:
                    continue
                nm = prm["name"].strip()
                pat = re.compile(r"let\s+" + re.escape(nm) + r"\s*=\s*" + re.escape(nm) + r"\s*\.\s*as_(ref|mut)\(\)\s*\.\s*ok_or\([^;]*\)\s*\?\s*;", re.S)
                hit = None
                for st in it.get("stmts", []):
                    if pat.fullmatch(src[st[0]:st[1]].decode().strip()):
                        hit = st
                        break
                if hit is None:
                    raise AnchorLost(f"{where}: r24: no `let {nm} = {nm}.as_ref()/as_mut().ok_or(..)?;` statement for the pointer parameter `{nm}`")
                edits.append(Edit(hit[0], hit[1], lambda r: ""))
                edits.append(Edit(prm["ty"][0], prm["ty"][1], lambda r, t=mty.group(1): f"&mut {t}"))
                self.log("R24", relfile, src, prm["span"][0], f"{path}: pointer parameter `{nm}: {tytxt}` -> `&mut {mty.group(1)}`; null-check statement dropped")
        r24m_names = []
        if "r24m" in opts and it["body"]:
            for prm in it["params"]:
                if "ty" not in prm:
                    continue
                tytxt = src[prm["ty"][0]:prm["ty"][1]].decode().strip()
                mty = re.fullmatch(r"\*mut\s+(.+)", tytxt, re.S)
                if mty:
                    edits.append(Edit(prm["ty"][0], prm["ty"][1], lambda r, t=mty.group(1): f"&mut {t}"))
                    r24m_names.append(prm["name"].strip())
        # R20: an async fn without a declared return type gets `-> (r: ())` (the installed Verus silently drops the `ensures` of
        # async functions that have no named return value)
        if it.get("is_async") and not it["ret"]:
            pos = it["where"][0] if it.get("where") else sig_e
            edits.append(Edit(pos, pos, lambda r: " -> (r: ()) "))
            self.log("R20", relfile, src, sig_s, f"{path}: async fn without return type given `-> (r: ())`")
        # named return
        if it["ret"]:
            rs, re_ = it["ret"]
            edits.append(Edit(rs, re_, lambda r, rs=rs, re_=re_: f"({retname}: {r.text(rs, re_)})"))
        # contract after signature
        contract = "".join(parts.get("contract", []))
        clause_map = []  # filled when emitting

        if "nobody" in opts and it["trait_def"] and it["body"]:
            # a trait method with a default body, emitted as a bare declaration (the default body is verified separately)
            it = dict(it)
            it["sig_end_for_decl"] = it["body"][0]
            it["body"] = None
            self.log("R5", relfile, src, it["sig"][0], f"{path}: default body not part of the trait declaration in the unit")
        body = it["body"]
        ext_body = "ext_body" in opts
        if body is None and not ext_body and not it["trait_def"]:
            raise Unsupported(f"{where}: function has no body")

        vac_texts = {}
        entry_txt_r23 = ""
        if body and not ext_body:
            bs, be = body
            # R1 / R2: logging
            for m in it["macros"]:
                if m["path"] in TRACING_MACROS and "keepmacros" not in opts:
                    audit_r1(m["args"], f"{relfile}:{line_of(src, m['span'][0])}")
                    rep = "" if m["stmt"] else "()"
                    edits.append(Edit(m["span"][0], m["span"][1], lambda r, rep=rep: rep))
                    self.log("R1", relfile, src, m["span"][0], f"{m['path']}!(..) deleted")
                elif m["path"] == "format" and "r27" in opts:
                    # R27: `format!(..)` (error / log text) -> an opaque String; the arguments must be effect-free (same audit as R1)
                    audit_r1(m["args"], f"{relfile}:{line_of(src, m['span'][0])}")
                    edits.append(Edit(m["span"][0], m["span"][1], lambda r: "crate::format_opaque()"))
                    self.log("R27", relfile, src, m["span"][0], "format!(..) -> opaque String (no property specifies message text)")
                elif m["path"] in ("write", "writeln") and "r28" in opts:
                    # R28: `write!(f, "..", a, b)` -> `{ let _ = &(a); let _ = &(b); crate::fmt_write(f) }`: the arguments are still
                    # evaluated (constructor calls keep their preconditions), the text produced is opaque
                    ts_, te_ = m["tokens"]
                    ttxt = src[ts_:te_].decode()
                    parts_, depth_, cur_, instr_ = [], 0, "", False
                    prev_ = ""
                    for ch in ttxt:
                        if instr_:
                            cur_ += ch
                            if ch == '"' and prev_ != "\\":
                                instr_ = False
                        elif ch == '"':
                            instr_ = True; cur_ += ch
                        elif ch in "([{":
                            depth_ += 1; cur_ += ch
                        elif ch in ")]}":
                            depth_ -= 1; cur_ += ch
                        elif ch == "," and depth_ == 0:
                            parts_.append(cur_.strip()); cur_ = ""
                        else:
                            cur_ += ch
                        prev_ = ch
                    if cur_.strip():
                        parts_.append(cur_.strip())
                    if len(parts_) == 1 and m["path"] == "writeln":
                        parts_.append('""')          # `writeln!(f)`: just the newline
                    if len(parts_) < 2 or not parts_[1].startswith('"'):
                        raise Unsupported(f"{where}: cannot split `{m['path']}!({ttxt[:60]}..)`")
                    evals = ""
                    for a_ in parts_[2:]:
                        a_ = re.sub(r"^[A-Za-z_][A-Za-z0-9_]*\s*=\s*(?!=)", "", a_)
                        evals += f"let _ = &({a_}); "
                    rep_ = "{ " + evals + f"crate::fmt_write({parts_[0]}) }}"
                    edits.append(Edit(m["span"][0], m["span"][1], lambda r, rep_=rep_, semi=m["stmt"]: rep_ + (";" if semi else "")))
                    self.log("R28", relfile, src, m["span"][0], f"{m['path']}!(..) -> arguments evaluated, text opaque (crate::fmt_write)")
                elif m["path"] in SPAN_MACROS and "keepmacros" not in opts:
                    edits.append(Edit(m["span"][0], m["span"][1], lambda r: "()"))
                    self.log("R2", relfile, src, m["span"][0], f"{m['path']}!(..) -> ()")
            for mi, m in enumerate(it["macros"]):
                if m["path"] == "tokio::select" and "r3" in opts:
                    ts, te = m["tokens"]
                    ed = Edit(m["span"][0], m["span"][1], None)

                    had_semi = src[m["span"][0]:m["span"][1]].rstrip().endswith(b";")

                    selk = sum(1 for m2 in it["macros"][:mi] if m2["path"] == "tokio::select")

                    def fsel(r, ed=ed, ts=ts, te=te, stmt=had_semi, selk=selk):
                        inner = r.render_inside(ed, ts, te)     # nested edits (R1, R10, ...) apply inside the arms
                        inner = strip_tracing(inner, f"{relfile}:{line_of(src, ts)}", lambda note: self.log("R1", relfile, src, ts, note))
                        if "r10" in opts:
                            # R10 inside the unparsed macro body: only the simple form `ident?`
                            conv = "e__" if "r3id" in opts else "From::from(e__)"    # r3id: the error types are equal (identity conversion)
                            inner, nsub = re.subn(r"(?<![.\w])([A-Za-z_][A-Za-z0-9_]*)\?(?=\s*[;)\n}])",
                                                  r"(match \1 { Ok(v__) => v__, Err(e__) => { return Err(" + conv + r") } })", inner)
                            if nsub:
                                self.log("R10", relfile, src, ts, f"{nsub} `ident?` inside select! -> match expansion")
                        arms = parse_select(inner)
                        for (pat_, fut_, body_) in arms:
                            if re.match(r"\s*async\b", fut_):
                                raise Unsupported(f"{where}: select! arm awaits an async block (outside R3)")
                        # cancellation: an arm that loses while it was reading a frame leaves the reader in a state allowed by
                        # next_frame's (proved) loop invariant - modelled by `cancelled_next_frame`
                        cancels = []
                        for (pat, fut, body) in arms:
                            mm = re.match(r"(.+?)\.next_frame\(\s*(\w+)\s*,", fut, re.S)
                            cancels.append(f"{mm.group(1)}.cancelled_next_frame({mm.group(2)});" if mm else "")
                        out = "{ "
                        # R21: timer arms are armed at select entry against the function's ghost clock; the arm that wins
                        # moves the clock (timer: to its deadline; other arm: to some instant not after any timer's deadline)
                        timers = {}
                        if "r21" in opts:
                            for ai, (pat, fut, body) in enumerate(arms):
                                tm = re.fullmatch(r"\s*tokio::time::(sleep_until|sleep)\s*\((.*)\)\s*", fut, re.S)
                                if tm:
                                    timers[ai] = f"timer__{selk}_{ai}"
                                    ctor = "timer_until" if tm.group(1) == "sleep_until" else "timer_after"
                                    out += f"let timer__{selk}_{ai} = clk__.{ctor}({tm.group(2)}); "
                                elif re.search(r"\btokio::time::", fut):
                                    raise Unsupported(f"{where}: select! arm uses a tokio::time future the clock model does not cover: `{fut.strip()}`")
                            self.log("R21", relfile, src, ts, f"select! #{selk}: {len(timers)} timer arm(s) armed against the ghost clock at select entry")
                        timer_hint = "".join(parts.get(("timer", selk), []))
                        def irrefutable(p_):
                            return bool(re.fullmatch(r"(mut\s+)?[a-z_][A-Za-z0-9_]*|\(\s*\)|\((\s*(mut\s+)?[a-z_][A-Za-z0-9_]*\s*,?)+\)", p_.strip()))

                        def arm_text(ai, active):
                            pat, fut, body = arms[ai]
                            others = " ".join(cancels[cj] for cj in active if cj != ai and cancels[cj])
                            if ai in timers:
                                th = split_hint(timer_hint) if timer_hint.strip() else ""
                                return f"{{ {others} clk__.fire(&{timers[ai]}); let {pat} = ();{th} {body} }}"
                            if not irrefutable(pat):
                                # an arm whose pattern does not match the value its future produced is disabled and the
                                # select! goes on waiting for the remaining arms (tokio semantics); with none left it panics
                                rest = [cj for cj in active if cj != ai]
                                cont = chain(rest) if rest else "{ crate::shims_nondet::select_all_disabled() }"
                                won = ""
                                if "r21" in opts:
                                    won = " ".join(f"clk__.won_against(&{timers[t]});" for t in active if t in timers) if any(t in timers for t in active) else "clk__.elapse();"
                                self.log("R3", relfile, src, ts, f"select! #{selk} arm {ai}: refutable pattern `{pat}` -> match; on a mismatch the arm is disabled and the remaining arms race on")
                                return f"{{ let sel_v__{ai} = {fut}.await; {won} match sel_v__{ai} {{ {pat} => {{ {others} {body} }}, _ => {cont} }} }}"
                            if "r21" in opts:
                                won = " ".join(f"clk__.won_against(&{timers[t]});" for t in active if t in timers) if any(t in timers for t in active) else "clk__.elapse();"
                                return f"{{ {others} let {pat} = {fut}.await; {won} {body} }}"
                            # `//@arm K|` / `//@armend K|` (K = 10 * select ordinal + arm ordinal): hints right after the arm's
                            # binding and after its body (the latter only for arms of unit type)
                            ah = "".join(parts.get(("arm", selk * 10 + ai), []))
                            aeh = "".join(parts.get(("armend", selk * 10 + ai), []))
                            ah = split_hint(ah) if ah.strip() else ""
                            if aeh.strip():
                                return f"{{ {others} let {pat} = {fut}.await; {ah} {{ {body} }}; {split_hint(aeh)} }}"
                            return f"{{ {others} let {pat} = {fut}.await; {ah} {body} }}"

                        def chain(active, top=False):
                            t_ = "{ " if len(active) > 1 and not top else ""
                            for n_, ai in enumerate(active):
                                t_ += ("if crate::shims_nondet::nondet() " if n_ < len(active) - 1 else "") + arm_text(ai, active)
                                if n_ < len(active) - 1:
                                    t_ += " else "
                            return t_ + (" }" if len(active) > 1 and not top else "")

                        out += chain(list(range(len(arms))), top=True)
                        out += " }"
                        return out + (";" if stmt and not out.endswith(";") else "")
                    ed.fn = fsel
                    edits.append(ed)
                    self.log("R3", relfile, src, m["span"][0], "tokio::select! -> nondeterministic choice of one arm; losing next_frame futures modelled by cancelled_next_frame")
            for ins in it["instruments"]:
                if "keepmacros" in opts:
                    break
                rs0, re0 = ins["receiver"]
                ed = Edit(ins["span"][0], ins["span"][1], None)
                ed.fn = (lambda r, ed=ed, rs0=rs0, re0=re0: r.render_inside(ed, rs0, re0))
                edits.append(ed)
                self.log("R2", relfile, src, ins["span"][0], ".instrument(..) dropped")
            # R10: `?`
            if "r10" in opts:
                sel = opts["r10"]
                want = None if sel is True else {int(x) for x in sel.split(",")}
                optmode = "r10opt" in opts
                idset = {int(x) for x in opts.get("r10id", "").split(",") if x != ""} if isinstance(opts.get("r10id"), str) else set()
                for k, t in enumerate(it["tries"]):
                    if want is not None and k not in want:
                        continue
                    if t["in_closure"]:
                        continue
                    os_, oe_ = t["operand"]
                    hint = "".join(parts.get(("tryexit", k), []))
                    ed = Edit(t["span"][0], t["span"][1], None)

                    ident = k in idset

                    def f(r, ed=ed, os_=os_, oe_=oe_, hint=hint, optmode=optmode, ident=ident):
                        inner = r.render_inside(ed, os_, oe_)
                        h = f" proof {{ {hint} }}" if hint.strip() else ""
                        if ident:
                            # identity conversion (`impl<T> From<T> for T`): only type-checks when the error types are equal
                            return f"(match {inner} {{ Ok(v__) => v__, Err(e__) => {{{h} return Err(e__) }} }})"
                        if optmode:
                            return f"(match {inner} {{ Some(v__) => v__, None => {{{h} return None }} }})"
                        return f"(match {inner} {{ Ok(v__) => v__, Err(e__) => {{{h} return Err(From::from(e__)) }} }})"
                    ed.fn = f
                    edits.append(ed)
                    self.log("R10", relfile, src, t["span"][0], "`?` -> match expansion")
            # loops: invariants, R4
            r4 = opts.get("r4")
            r4set = None
            if r4 is not None:
                r4set = None if r4 is True else {int(x) for x in r4.split(",")}
            for k, lp in enumerate(it["loops"]):
                inv = "".join(parts.get(("loop", k), []))
                ls_, le_ = lp["span"]
                lbs, lbe = lp["body"]
                start_hint = "".join(parts.get(("loopstart", k), []))
                end_hint = "".join(parts.get(("loopend", k), []))
                after = "".join(parts.get(("afterloop", k), []))
                vac = ""
                if self.vacuity and "novac" not in opts:
                    vid = f"{path}#loop{k}"
                    vac = (f" if crate::vac_choice({len(self.vac_ids)}) {{ assert(false); /*VAC:{vid}*/ }} " if "loop_isolation(false)" in opts.get("attr", "") else f" assert(false); /*VAC:{vid}*/ ")
                    self.vac_ids.append(vid)
                    self.vac_files[vid] = relfile
                r4n = opts.get("r4n")
                if lp["kind"] == "for" and r4n is not None and (r4n is True or k in {int(x) for x in r4n.split(",")}):
                    # R4 (native form): Verus's own `for x in it: E invariant ..` loop over a vstd-specified iterator (slices): only the
                    # ghost iterator name and the invariant are added
                    is_, ie = lp["iter"]
                    edits.append(Edit(is_, is_, lambda r, k=k: f"it__{k}: "))
                    edits.append(Edit(le_, le_, lambda r: ";", prio=-2))
                    self.log("R4", relfile, src, ls_, "`for P in E` -> Verus-native `for P in it__k: E invariant ..` (no desugaring)")
                if lp["kind"] == "for" and r4 is not None and (r4set is None or k in r4set):
                    ps, pe = lp["pat"]
                    is_, ie = lp["iter"]
                    ed = Edit(ls_, le_, None)

                    def f(r, ed=ed, k=k, ps=ps, pe=pe, is_=is_, ie=ie, lbs=lbs, lbe=lbe, inv=inv, start_hint=start_hint, end_hint=end_hint, after=after, vac=vac):
                        pat = r.text(ps, pe)
                        itx = r.render_inside(ed, is_, ie)
                        bodytxt = r.render_inside(ed, lbs + 1, lbe - 1)
                        sh = split_hint(start_hint) if start_hint.strip() else ""
                        eh = f" proof {{ {end_hint} }}" if end_hint.strip() else ""
                        vc = f" proof {{ {vac} }}" if vac else ""
                        af = split_hint(after) if after.strip() else ""
                        # statement position: the iterator binding and the hints after the loop stay in the enclosing scope
                        return (f"let mut it__{k} = {itx}; loop\n{inv} {{{vc}{sh} match it__{k}.next() {{ Some({pat}) => {{{bodytxt}{eh} }}, None => break, }} }};{af}")
                    ed.fn = f
                    edits.append(ed)
                    self.log("R4", relfile, src, ls_, "`for` -> loop { match it.next() }")
                else:
                    if inv.strip():
                        edits.append(Edit(lbs, lbs, lambda r, inv=inv: "\n" + inv))
                    if start_hint.strip() or vac:
                        txt = (f" proof {{ {vac} }} " if vac else "") + split_hint(start_hint)
                        edits.append(Edit(lbs + 1, lbs + 1, lambda r, txt=txt: txt))
                    if end_hint.strip():
                        edits.append(Edit(lbe - 1, lbe - 1, lambda r, end_hint=end_hint: f" ; proof {{ {end_hint} }} "))
                    if after.strip():
                        edits.append(Edit(le_, le_, lambda r, after=after: ";" + split_hint(after)))
                    before = "".join(parts.get(("beforeloop", k), []))
                    if before.strip():
                        edits.append(Edit(ls_, ls_, lambda r, before=before: split_hint(before)))
            # R21: ghost clock. Every `.await` outside select! lets an arbitrary amount of time pass
            if "r21" in opts:
                nsel_ = sum(1 for m2 in it["macros"] if m2["path"] == "tokio::select")
                tmo_j = 0
                for aw in it.get("awaits", []):
                    as_, ae_ = aw["span"]; ab_s, ab_e = aw["base"]
                    ed = Edit(as_, ae_, None)
                    base_src = src[ab_s:ab_e].decode()
                    if re.match(r"\s*tokio::time::timeout\s*\(", base_src):
                        # `tokio::time::timeout(D, F).await`: a race between a timer armed here and F, like a two-armed select!
                        site = nsel_ + tmo_j
                        tmo_j += 1
                        body_src = src[bs:be].decode()
                        # a future stored in a local first (`let f = CALL; .. timeout(d, f).await`): async fn futures are lazy, so the
                        # `let` is removed and CALL is awaited in place (no await lies between the two in the accepted shape)
                        inlined = {}
                        mfut = re.search(r",\s*(\w+)\s*,?\s*\)\s*$", base_src)
                        if mfut:
                            lets = list(re.finditer(r"let\s+(?:mut\s+)?" + re.escape(mfut.group(1)) + r"\s*=\s*(.+?);", src[bs:as_].decode(), re.S))
                            if lets and ".await" not in src[bs + lets[-1].end():as_].decode():
                                ls0 = bs + len(src[bs:as_].decode()[:lets[-1].start()].encode())
                                le0 = bs + len(src[bs:as_].decode()[:lets[-1].end()].encode())
                                edits.append(Edit(ls0, le0, lambda r: ""))
                                inlined[mfut.group(1)] = lets[-1].group(1)
                                self.log("R21", relfile, src, ls0, f"{path}: lazily evaluated future `{mfut.group(1)}` inlined at its await inside tokio::time::timeout")

                        def ftmo(r, ed=ed, ab_s=ab_s, ab_e=ab_e, site=site, body_src=body_src, inlined=inlined):
                            t = r.render_inside(ed, ab_s, ab_e).strip()
                            inner = t[t.index("(") + 1:]
                            depth_, cut, endp = 0, None, None
                            for i_, ch in enumerate(inner):
                                if ch in "([{":
                                    depth_ += 1
                                elif ch in ")]}":
                                    if depth_ == 0:
                                        endp = i_
                                        break
                                    depth_ -= 1
                                elif ch == "," and depth_ == 0 and cut is None:
                                    cut = i_
                            if cut is None or endp is None or inner[endp + 1:].strip():
                                raise Unsupported(f"{where}: cannot parse `{t[:80]}`")
                            dur, fut = inner[:cut].strip(), inner[cut + 1:endp].strip().rstrip(",").strip()
                            cancel = None
                            callexpr = fut
                            pre_drop = ""
                            if fut in inlined:
                                fut = inlined[fut].strip()
                                callexpr = fut
                            elif re.fullmatch(r"\w+", fut):
                                md = re.search(r"let\s+(?:mut\s+)?" + re.escape(fut) + r"\s*=\s*(.+?);", body_src, re.S)
                                if not md:
                                    raise Unsupported(f"{where}: tokio::time::timeout over `{fut}`: no `let {fut} = ..;` found")
                                callexpr = md.group(1)
                                pre_drop = f"drop({fut}); "
                            mc = re.match(r"(.+?)\.next_frame\(\s*(\w+)\s*,", callexpr, re.S)
                            mg = re.fullmatch(r"(.+)\.(\w+)\(\s*\)", callexpr.strip(), re.S)
                            if mc:
                                cancel = f"{pre_drop}{mc.group(1).strip()}.cancelled_next_frame({mc.group(2)});"
                            elif mg:
                                # a method without arguments: its cancellation contract is the companion `cancelled_<method>` of the unit
                                # (the method's own loop invariant); a unit without that companion does not compile (undecided)
                                cancel = f"{pre_drop}{mg.group(1).strip()}.cancelled_{mg.group(2)}();"
                            else:
                                raise Unsupported(f"{where}: tokio::time::timeout over a future the clock model has no cancellation contract for: `{callexpr[:80]}`")
                            th = "".join(parts.get(("timer", site), []))
                            th = split_hint(th) if th.strip() else ""
                            return ("{ let timer__t" + str(site) + " = clk__.timer_after(" + dur + "); if crate::shims_nondet::nondet() { " + cancel
                                    + " clk__.fire(&timer__t" + str(site) + ");" + th + " Err(crate::shims::tokio::time::error::Elapsed::new()) } else { let aw__ = "
                                    + fut + ".await; clk__.won_against(&timer__t" + str(site) + "); Ok(aw__) } }")
                        ed.fn = ftmo
                        self.log("R21", relfile, src, as_, f"{path}: tokio::time::timeout(..).await -> race between a timer armed here (timer site {site}) and the future")
                    else:
                        ed.fn = (lambda r, ed=ed, ab_s=ab_s, ab_e=ab_e: "{ let aw__ = " + r.render_inside(ed, ab_s, ab_e) + ".await; clk__.elapse(); aw__ }")
                    edits.append(ed)
                self.log("R21", relfile, src, bs, f"{path}: ghost clock `clk__` declared at entry; {len(it.get('awaits', []))} await(s) followed by clk__.elapse(); Instant::now() -> clk__.now()")
            # entry
            entry = "".join(parts.get("entry", []))
            vac = ""
            if self.vacuity and "novac" not in opts:
                vid = f"{path}#entry"
                vac = (f" if crate::vac_choice({len(self.vac_ids)}) {{ assert(false); /*VAC:{vid}*/ }} " if "loop_isolation(false)" in opts.get("attr", "") else f" assert(false); /*VAC:{vid}*/ ")
                self.vac_ids.append(vid)
                self.vac_files[vid] = relfile
            if entry.strip() or vac or r19 or "r21" in opts:
                txt = "".join(f" let mut {nm} = {nm}; " for nm in r19)
                if "r21" in opts:
                    txt += " let mut clk__ = crate::shims::tokio::time::Clock::start(); "
                if vac:
                    txt += f" proof {{ {vac} }} "
                if entry.strip():
                    txt += split_hint(entry)
                edits.append(Edit(bs + 1, bs + 1, lambda r, txt=txt: txt, prio=-1))
                entry_txt_r23 = txt
            # exits
            # exits: `return` expressions and the leaf tail expressions (the value-producing ends of the body's
            # match / if / block structure), in source order
            exits = [x["span"] for x in it["returns"] if not x["in_closure"]]
            exits += [x for x in it.get("leaf_tails", []) if x not in exits]
            if it.get("tail") is None and it["macros"]:
                # a trailing `tokio::select! { .. }` without semicolon is the function's tail expression
                lm = max(it["macros"], key=lambda m2: m2["span"][1])
                if lm["path"] == "tokio::select" and src[lm["span"][1]:be - 1].strip() == b"" and not src[lm["span"][0]:lm["span"][1]].rstrip().endswith(b";"):
                    exits.append(lm["span"])
            exits.sort()
            if ("exit", -1) in parts and not exits:
                raise AnchorLost(f"{where}: `exit *` hint but the function has no exit the extractor can see")
            for m_, sp_ in enumerate(exits):
                hint = "".join(parts.get(("exit", -1), [])) + "".join(parts.get(("exit", m_), []))
                if not hint.strip():
                    continue
                ed = Edit(sp_[0], sp_[1], None, prio=-1)
                if "r__" in hint:
                    # the hint talks about the value being returned: bind it first
                    def fex(r, ed=ed, sp_=sp_, hint=hint):
                        t = r.render_inside(ed, sp_[0], sp_[1])
                        if re.match(r"return\b", t):
                            return "{ let r__ = " + (t[6:].strip() or "()") + "; proof { " + hint + " } return r__; }"
                        return "{ let r__ = " + t + "; proof { " + hint + " } r__ }"
                    ed.fn = fex
                else:
                    ed.fn = (lambda r, ed=ed, sp_=sp_, hint=hint: "{ proof { " + hint + " } " + r.render_inside(ed, sp_[0], sp_[1]) + " }")
                edits.append(ed)
            # R18: `let x = loop { .. break v; .. };` -> `let x; loop { .. { x = v; break; } .. };` (Verus has no value-carrying break)
            for ll in it.get("let_loops", []):
                if not re.fullmatch(r"[A-Za-z_][A-Za-z0-9_]*", ll["name"]):
                    raise Unsupported(f"{where}: `let <pattern> = loop` with a non-identifier pattern")
                nm = ll["name"]
                ty = dict(x.split(":", 1) for x in opts.get("r18ty", "").split(",") if ":" in x).get(nm)
                edits.append(Edit(ll["pat"][1], ll["loop"][0], lambda r, ty=ty: (f": {ty}; " if ty else "; ")))
                self.log("R18", relfile, src, ll["stmt"][0], f"`let {nm} = loop {{ .. break v; }}` -> deferred initialisation + plain break")
                for vb in it.get("value_breaks", []):
                    if vb["loop"] == ll["loop"]:
                        ed = Edit(vb["span"][0], vb["span"][1], None)
                        ed.fn = (lambda r, ed=ed, vb=vb, nm=nm: "{ " + nm + " = " + r.render_inside(ed, vb["value"][0], vb["value"][1]) + "; break; }")
                        edits.append(ed)
            # R17: nested items are hoisted (emitted through their own directive) and removed from the body
            for ns, ne in it.get("nested_items", []):
                edits.append(Edit(ns, ne, lambda r: ""))
                self.log("R17", relfile, src, ns, f"{path}: nested item hoisted to module level")
            # R16: closure headers annotated with types and a contract
            for ci, cl in enumerate(it.get("closures", [])):
                hdr = "".join(parts.get(("closure", ci), []))
                if not hdr.strip():
                    continue
                cs, ce = cl["span"]
                cbs, cbe = cl["body"]
                ed = Edit(cs, ce, None)

                def fcl(r, ed=ed, cbs=cbs, cbe=cbe, hdr=hdr, blk=cl["body_is_block"]):
                    b = r.render_inside(ed, cbs, cbe)
                    return hdr.strip() + " " + (b if blk else "{ " + b + " }")
                ed.fn = fcl
                edits.append(ed)
                self.log("R16", relfile, src, cs, f"{path}: closure {ci} given a typed header and a contract")
            # R22: `async move { .. }` blocks are hoisted into associated async fns (the installed Verus has no generator types);
            # the template gives the hoisted function's header (the captured variables with their types) and contract, the body is
            # the block's own text. A capture list that does not match the block does not compile (reported as undecided).
            hoisted = []
            for k, ab in enumerate(it.get("async_blocks", [])):
                hdr_lines = parts.get(("async", k), [])
                if not hdr_lines:
                    continue
                hdr = "".join(hdr_lines)
                mh = re.match(r"\s*pub async fn (\w+)\s*\((.*?)\)\s*->", hdr, re.S)
                if not mh:
                    raise Unsupported(f"{where}: malformed `//@async {k}|` header")
                hname = mh.group(1)
                prms, depth_, cur = [], 0, ""
                for ch in mh.group(2):
                    if ch in "<([":
                        depth_ += 1
                    elif ch in ">)]":
                        depth_ -= 1
                    if ch == "," and depth_ == 0:
                        prms.append(cur); cur = ""
                    else:
                        cur += ch
                if cur.strip():
                    prms.append(cur)
                names, muts = [], []
                for prm in prms:
                    nm = prm.split(":", 1)[0].strip()
                    if nm.startswith("mut "):
                        nm = nm[4:].strip(); muts.append(nm)
                    names.append(nm)
                hdr = re.sub(r"\bmut\s+(\w+)\s*:", r"\1:", hdr, count=0) if muts else hdr
                as_, ae_ = ab["span"]; kbs, kbe = ab["block"]
                blk_txt = src[kbs:kbe].decode()
                for nm in names:
                    if not re.search(r"\b" + re.escape(nm) + r"\b", blk_txt):
                        raise AnchorLost(f"{where}: async block {k} no longer uses captured variable `{nm}`")
                endh = "".join(parts.get(("asyncend", k), []))
                ed = Edit(as_, ae_, None)
                slot = {}

                def fab(r, ed=ed, kbs=kbs, kbe=kbe, hname=hname, names=names, slot=slot):
                    slot["body"] = r.render_inside(ed, kbs + 1, kbe - 1)
                    return f"Self::{hname}({', '.join(names)})"
                ed.fn = fab
                edits.append(ed)
                hoisted.append((k, hname, hdr, muts, endh, slot, hdr_lines))
                self.log("R22", relfile, src, as_, f"{path}: async block {k} hoisted into `{hname}` (captures: {', '.join(names)})")
            for key in parts:
                if isinstance(key, tuple):
                    kind, k = key
                    nsel = sum(1 for m2 in it["macros"] if m2["path"] == "tokio::select")
                    lim = {"loop": len(it["loops"]), "loopstart": len(it["loops"]), "loopend": len(it["loops"]),
                           "afterloop": len(it["loops"]), "beforeloop": len(it["loops"]),
                           "timer": nsel + sum(1 for aw in it.get("awaits", []) if re.match(rb"\s*tokio::time::timeout\s*\(", src[aw["base"][0]:aw["base"][1]])),
                           "async": len(it.get("async_blocks", [])), "asyncend": len(it.get("async_blocks", [])),
                           "exit": len(exits), "tryexit": len(it["tries"]), "arm": nsel * 10, "armend": nsel * 10,
                           "closure": len(it.get("closures", []))}[kind]
                    if k >= lim:
                        raise AnchorLost(f"{where}: template refers to {kind} {k} but the function has only {lim}")
                    # shape guard: ordinal hints are only placed when the function still has as many positions of that kind as it
                    # had when the hints were written (units/shapes.json); otherwise a hint could land on a different exit / loop /
                    # `?` and fail for a reason that has nothing to do with the property -> undecided instead
                    if k >= 0:
                        grp = {"loop": "loops", "loopstart": "loops", "loopend": "loops", "afterloop": "loops", "beforeloop": "loops",
                               "timer": "timers", "arm": "timers", "armend": "timers", "async": "asyncs", "asyncend": "asyncs", "exit": "exits", "tryexit": "tries", "closure": "closures"}[kind]
                        want = SHAPES.get(f"{relfile}::{path}", {}).get(grp)
                        if want is not None and want != lim:
                            raise AnchorLost(f"{where}: the function now has {lim} {grp} where the hints were written for {want}: ordinal hints cannot be placed reliably")
                        self.shape_seen = getattr(self, "shape_seen", {})
                        self.shape_seen.setdefault(f"{relfile}::{path}", {})[grp] = lim

        # shape guard, `break`: the facts known on the path to a `break` do not survive the loop (only the invariant does), whereas a
        # `return` at the same place is checked against the postcondition with the whole path. A refactoring that turns one into the
        # other (`return e` inside the loop -> `let x = loop { .. break e; }; x`) is behaviour-preserving but changes what the proof
        # written for the function can establish: if the number of `break`s differs from the pinned tree the function is undecided
        if body and not ext_body:
            code_b_ = re.sub(r'//[^\n]*|/\*.*?\*/|"(?:\\.|[^"\\])*"', " ", src[it["body"][0]:it["body"][1]].decode(), flags=re.S)
            nbreak_ = len(re.findall(r"\bbreak\b", code_b_))
            self.shape_seen = getattr(self, "shape_seen", {})
            self.shape_seen.setdefault(f"{relfile}::{path}", {})["breaks"] = nbreak_
            want_b_ = SHAPES.get(f"{relfile}::{path}", {}).get("breaks")
            if want_b_ is not None and want_b_ != nbreak_:
                raise AnchorLost(f"{where}: the function now has {nbreak_} `break`(s) where the proof was written for {want_b_}: what holds after its loops may differ")
        cedits = cfg_node_edits(src, it.get("cfg_nodes", []), lambda pos, note: self.log("R7", relfile, src, pos, note))
        edits = [x for x in edits if not any(c.s <= x.s and x.e <= c.e for c in cedits)] + cedits
        r = Renderer(src, edits)
        attr = opts.get("attr", "")
        head = ""
        if attr:
            head += attr + "\n"
        if ext_body:
            head += "#[verifier::external_body]\n"
            self.trusted.append(f"assumed contract (external_body): {relfile} :: {path}")
        sig_text = r.render(s, it["body"][0] if it["body"] else it.get("sig_end_for_decl", sig_e)).rstrip()
        sig_text = re.sub(r"\n[ \t]*\n+", "\n", sig_text).lstrip("\n")
        for a_, b_ in opts.get("subs", []):
            if a_ not in sig_text:
                raise AnchorLost(f"{where}: signature no longer contains `{a_}`")
            sig_text = sig_text.replace(a_, b_)
            self.log("R15" if "dyn " in a_ or "<S:" in b_ else "R5", relfile, src, sig_s, f"signature of {path}: `{a_}` -> `{b_}`")
        if "inherent" in opts:
            self.log("R5", relfile, src, sig_s, f"trait method {path} emitted as an inherent method")
        r23k = None
        if "r23" in opts:
            # R23: only the tail of the body (statements k..end) is put under contract, as a function whose parameters are the
            # bindings the dropped statements produced (header given by the template); the dropped statements are logged
            r23k = int(opts["r23"])
            stmts = it.get("stmts", [])
            if not body or r23k >= len(stmts) or not parts.get("suffix"):
                raise AnchorLost(f"{where}: r23={r23k} but the body has {len(stmts)} statements / no //@suffix| header")
            sig_text = "".join(parts["suffix"]).rstrip()
            for di in range(r23k):
                self.log("R23", relfile, src, stmts[di][0], f"{path}: statement {di} dropped: `{src[stmts[di][0]:stmts[di][1]].decode().split(chr(10))[0][:90]}`")
            self.log("R23", relfile, src, stmts[r23k][0], f"{path}: statements {r23k}..{len(stmts) - 1} emitted as a function with the template's header")
        origin_sig = {"kind": "sig", "file": relfile, "fn": fname, "line": line_of(src, sig_s), "tags": tags}
        self.emit(head + sig_text + "\n", origin_sig)
        # contract lines: one segment per template line so that failures map to a clause
        for i, (ctext, corigin) in enumerate(parts.get("contract_lines", [])):
            ctags = re.findall(r"\[(C\d+)\]", ctext)
            self.emit(ctext, {"kind": "clause", "fn": fname, "file": relfile, "idx": i, "tags": sorted(set(tags + ctags)) if ctags else tags,
                              "tpl": corigin, "text": ctext.strip()})
        if ext_body:
            self.emit("{ unimplemented!() }\n", origin_sig)
        elif it["body"] is None:
            self.emit(";\n", origin_sig)
        else:
            bs, be = it["body"]
            btxt = r.render(bs, be)
            if r23k is not None:
                btxt = "{" + entry_txt_r23 + r.render(it["stmts"][r23k][0], be - 1) + "}"
            for (ctor, argty, retty) in opts.get("etas", []):
                # R26: a datatype constructor used as a function value is eta-expanded into a closure with the obvious contract
                btxt, n_eta = re.subn(r"(?<![\w:])" + re.escape(ctor) + r"\b(?!\s*[(:{])",
                                      f"(|x__: {argty}| -> (res__: {retty}) ensures res__ == {ctor}(x__) {{ {ctor}(x__) }})", btxt)
                n_eta_total = locals().get("n_eta_total", 0) + n_eta
                if n_eta == 0:
                    continue
                self.log("R26", relfile, src, bs, f"{path}: constructor `{ctor}` used as a function value -> closure |x| {ctor}(x) ({n_eta}x)")
            if opts.get("etas") and locals().get("n_eta_total", 0) == 0:
                raise AnchorLost(f"{where}: eta: none of the listed constructors is used as a function value any more")
            if "r24m" in opts:
                # R24 (match form): the body is `match p.as_mut() { None => A, Some(p) => B }` for a pointer parameter p: the parameter
                # becomes `p: &mut T` and the body becomes `B` (dropped: the None arm, i.e. the behaviour for a null pointer)
                b0 = btxt.strip()
                if entry_txt_r23 and b0.startswith("{" + entry_txt_r23):
                    b0 = "{" + b0[1 + len(entry_txt_r23):]
                mm = re.fullmatch(r"\{\s*match\s+(\w+)\s*\.\s*as_(?:mut|ref)\(\)\s*\{\s*None\s*=>\s*(.*?),\s*Some\(\s*(\w+)\s*\)\s*=>\s*(.*?),?\s*\}\s*\}", b0, re.S)
                if not mm:
                    # the arms in the other order: `match p.as_mut() { Some(p) => B, None => A }` (A a single path / literal)
                    m2 = re.fullmatch(r"\{\s*match\s+(\w+)\s*\.\s*as_(?:mut|ref)\(\)\s*\{\s*Some\(\s*(\w+)\s*\)\s*=>\s*(.*),\s*None\s*=>\s*([\w:]+(?:\([\w:]*\))?)\s*,?\s*\}\s*\}", b0, re.S)
                    if m2:
                        class _M:
                            def __init__(s_, g): s_.g = g
                            def group(s_, i): return s_.g[i]
                        mm = _M({1: m2.group(1), 2: m2.group(4), 3: m2.group(2), 4: m2.group(3)})
                if not mm or mm.group(1) != mm.group(3) or mm.group(1) not in r24m_names:
                    raise AnchorLost(f"{where}: r24m: the body is not `match p.as_mut() {{ None => .., Some(p) => .. }}` for a pointer parameter")
                # the None arm must be a single expression without a top-level comma (otherwise the split above is wrong)
                depth_ = 0
                for ch in mm.group(2):
                    depth_ += ch in "([{"; depth_ -= ch in ")]}"
                if depth_ != 0:
                    raise AnchorLost(f"{where}: r24m: cannot split the match arms")
                self.log("R24", relfile, src, bs, f"{path}: body `match {mm.group(1)}.as_mut() {{ None => {mm.group(2).strip()}, Some({mm.group(1)}) => B }}` -> `B`; the None arm (null pointer) is dropped")
                btxt = "{ " + entry_txt_r23 + mm.group(4).strip() + " }"
            if "r21" in opts:
                btxt = re.sub(r"\b(?:tokio::time::)?Instant::now\(\)", "clk__.now()", btxt)
            for a_, b_ in opts.get("bsubs", []):
                # R30: a call of a std function whose signature is outside the Verus subset (e.g. a `dyn` bound) is routed to a shim
                # of the same arity declared in the template
                if a_ not in btxt:
                    raise AnchorLost(f"{where}: body no longer contains `{a_}`")
                btxt = btxt.replace(a_, b_)
                self.log("R30", relfile, src, bs, f"{path}: `{a_}` -> `{b_}` (shim with an assumed contract)")
            if "r29" in opts:
                # R29: a boxed trait-object callback (`Box<dyn FnOnce..>`, outside the Verus subset) is an opaque shim value:
                # `Box::new(f)` -> `DynBox__::new(f)` (a type alias of the module for its shim), the call `cb(args)` of the named binding -> `cb.invoke(args)`
                btxt, n1 = re.subn(r"(?<![\w:])Box::new\(", "DynBox__::new(", btxt)
                n2 = 0
                if isinstance(opts["r29"], str):
                    for nm in opts["r29"].split(","):
                        btxt, k_ = re.subn(r"(?<![\w.:])" + re.escape(nm) + r"\(", nm + ".invoke(", btxt)
                        n2 += k_
                if n1 + n2 == 0:
                    raise AnchorLost(f"{where}: r29: the body neither boxes nor calls a callback any more")
                self.log("R29", relfile, src, bs, f"{path}: boxed callback as an opaque shim value ({n1}x Box::new -> DynBox__::new, {n2}x call -> .invoke)")
            self.emit(btxt + "\n", {"kind": "body", "file": relfile, "fn": fname, "line": line_of(src, bs), "tags": tags,
                                    "src_first_line": line_of(src, bs)})
        if body and not ext_body:
            for (k, hname, hdr, muts, endh, slot, hdr_lines) in hoisted:
                hpath = f"{path}#async{k}"
                org = {"kind": "sig", "file": relfile, "fn": hpath, "line": line_of(src, it["async_blocks"][k]["span"][0]), "tags": tags}
                first = True
                for hl in hdr_lines:
                    hl2 = re.sub(r"\bmut\s+(\w+)\s*:", r"\1:", hl) if muts else hl
                    if first or not hl.strip() or hl.strip().startswith("pub async fn"):
                        self.emit(hl2, org)
                    else:
                        ctags = re.findall(r"\[(C\d+)\]", hl)
                        self.emit(hl2, {"kind": "clause", "fn": hpath, "file": relfile, "idx": 0, "tags": sorted(set(tags + ctags)) if ctags else tags,
                                        "tpl": tpl_origin, "text": hl.strip()})
                    first = False
                pre = "".join(f" let mut {nm} = {nm}; " for nm in muts)
                if self.vacuity and "novac" not in opts:
                    vid = f"{hpath}#entry"
                    pre += f" proof {{ assert(false); /*VAC:{vid}*/ }} "
                    self.vac_ids.append(vid)
                    self.vac_files[vid] = relfile
                tail = split_hint(endh) if endh.strip() else ""
                self.emit("{" + pre + slot.get("body", "") + tail + "}\n",
                          {"kind": "body", "file": relfile, "fn": hpath, "line": line_of(src, it["async_blocks"][k]["block"][0]), "tags": tags,
                           "src_first_line": line_of(src, it["async_blocks"][k]["block"][0])})
                self.functions.append({"file": relfile, "path": hpath, "tags": tags, "ext_body": False,
                                       "sha256": hashlib.sha256(src[it["async_blocks"][k]["span"][0]:it["async_blocks"][k]["span"][1]]).hexdigest(),
                                       "src_line": line_of(src, it["async_blocks"][k]["span"][0]), "emitted_as": hname, "decl": False})
        # library-call baseline: the names called in the body (source text). A name that was not called on the pinned tree
        # (units/shapes.json, key "calls") and that the unit does not define is a library function whose specification strength is
        # unknown to the proofs written for this function: a failing obligation there is undecided, not a violation (verdict.py)
        body_code_ = re.sub(r'//[^\n]*|/\*.*?\*/|"(?:\\.|[^"\\])*"', " ", src[it["body"][0]:it["body"][1]].decode(), flags=re.S) if it["body"] else ""
        calls_now = sorted(set(re.findall(r"(?<![\w!])([A-Za-z_]\w*)\s*(?:::\s*<[^>()]*>\s*)?\(", body_code_))
                           - {"if", "while", "match", "for", "return", "loop", "Some", "Ok", "Err", "None", "Self", "self"}) if it["body"] else []
        calls_now = [c_ for c_ in calls_now if not c_[0].isupper()]      # tuple structs / enum variants are constructors, not library calls
        key_ = f"{relfile}::{path}"
        self.calls_seen = getattr(self, "calls_seen", {})
        self.calls_seen[key_] = calls_now
        base_calls = SHAPES.get(key_, {}).get("calls")
        new_calls = sorted(set(calls_now) - set(base_calls)) if base_calls is not None else []
        sha_ = hashlib.sha256(src[s:e]).hexdigest()
        if ext_body and it["body"] and not relfile.startswith("@"):
            # an ASSUMED contract was justified for the body the function had on the pinned tree (review, Kani). If the body has changed
            # since, and no Kani harness targets the function, the assumption is no longer backed by anything: the properties that tag
            # it are undecided (never "held" on the strength of a stale assumption)
            self.assumed_seen = getattr(self, "assumed_seen", {})
            self.assumed_seen[key_] = sha_
            base_sha = SHAPES.get(key_, {}).get("assumed_sha")
            if base_sha is not None and base_sha != sha_ and path not in KANI_TARGETS and "ext_body" in opts and (relfile, path) not in self.demote:
                self.lost = getattr(self, "lost", [])
                if not any(l["file"] == relfile and l["path"] == path for l in self.lost):
                    self.lost.append({"file": relfile, "path": path, "tags": tags,
                                      "why": f"{relfile}::{path}: its contract is ASSUMED (not verified) and its text has changed since the assumption was made on the pinned tree"})
        self.functions.append({
            "file": relfile, "path": path, "tags": tags, "ext_body": ext_body,
            "sha256": sha_,
            "src_line": line_of(src, sig_s),
            "emitted_as": opts.get("name"),
            "decl": it["body"] is None and not ext_body,
            "new_calls": new_calls,
            "unchanged": SHAPES.get(key_, {}).get("sha") == sha_,
        })
        self.fn_sha_seen = getattr(self, "fn_sha_seen", {})
        self.fn_sha_seen[key_] = sha_

    # ------------------------------------------------------------------
    def process(self, tplpath, depth=0):
        if depth > 8:
            raise Unsupported("include depth")
        lines = open(tplpath).read().split("\n")
        rel = os.path.relpath(tplpath, VERIF)
        i = 0
        n = len(lines)
        while i < n:
            ln = lines[i]
            st = ln.strip()
            if not st.startswith("//@"):
                org = {"kind": "tpl", "tpl": f"{rel}:{i + 1}"}
                if self.vacuity and depth == 0 and st == "verus! {" and not getattr(self, "_vac_decl", False):
                    # used only by the vacuity run: every `assert(false)` probe sits under its own arbitrary condition, so that a
                    # probe that fails (as it must) does not make the code after it unreachable for the next probe
                    self._vac_decl = True
                    self.emit(ln + "\n", org)
                    self.emit("pub uninterp spec fn vac_choice(i: int) -> bool;\n", org)
                    i += 1
                    continue
                m = re.search(r"\bproof fn\s+(\w+)", ln)
                if m and "broadcast use" not in ln:
                    tags = []
                    for back in range(0, 4):
                        if i - back >= 0:
                            tags += re.findall(r"\[(C\d+)\]", lines[i - back])
                            if back > 0 and not lines[i - back].strip().startswith("//"):
                                break
                    org["lemma"] = m.group(1)
                    org["tags"] = sorted(set(tags))
                    self.lemmas.append({"name": m.group(1), "tags": sorted(set(tags)), "tpl": f"{rel}:{i + 1}"})
                self.emit(ln + "\n", org)
                i += 1
                continue
            d = st[3:]
            origin = f"{rel}:{i + 1}"
            if d.startswith("set "):
                self.flags.add(d[4:].strip())
                i += 1
            elif d.startswith("include-if "):
                flag, path_ = d[11:].strip().split(None, 1)
                if flag in self.flags:
                    self.process(os.path.join(VERIF, "units", path_.strip()), depth + 1)
                i += 1
            elif d.startswith("include "):
                inc = os.path.join(VERIF, "units", d[8:].strip())
                self.process(inc, depth + 1)
                i += 1
            elif d.startswith("trusted "):
                self.trusted.append(d[8:].strip())
                i += 1
            elif d.startswith("bounded "):
                self.bounded.append(d[8:].strip())
                i += 1
            elif d.startswith("reviewed "):
                # `//@reviewed <file> | <fn path> | tags=Cxx,..`: a function the claims of these properties rest on but that no contract
                # reaches (text glue, parsing). It is NOT decided; the only thing checked is that its text is still the one that was
                # read when the claim was written (units/shapes.json). If it has changed, those properties are undecided.
                fields = [f.strip() for f in d[9:].split("|")]
                rfile, rpath = fields[0], fields[1]
                rtags = [t for t in (fields[2][5:] if len(fields) > 2 and fields[2].startswith("tags=") else "").split(",") if t]
                key_ = f"{rfile}::{rpath}"
                try:
                    rsrc, rit = find_item(rfile, "fn", rpath)
                    rsha = hashlib.sha256(rsrc[rit["span"][0]:rit["span"][1]]).hexdigest()
                    self.sources[rfile] = hashlib.sha256(rsrc).hexdigest()
                except AnchorLost as ex_:
                    rsha = None
                self.reviewed_seen = getattr(self, "reviewed_seen", {})
                if rsha:
                    self.reviewed_seen[key_] = rsha
                base = SHAPES.get(key_, {}).get("reviewed_sha")
                self.notdecided.append(f"{rfile} :: {rpath} (not under contract; only guarded against change)")
                if rsha is None or (base is not None and base != rsha):
                    self.lost = getattr(self, "lost", [])
                    self.lost.append({"file": rfile, "path": rpath, "tags": rtags,
                                      "why": f"{key_}: not under contract (only reviewed) and its text " + ("is gone" if rsha is None else "has changed since it was reviewed on the pinned tree")})
                i += 1
            elif d.startswith("notdecided "):
                self.notdecided.append(d[11:].strip())
                i += 1
            elif d.startswith("item ") or d.startswith("fn "):
                isfn = d.startswith("fn ")
                fields = [f.strip() for f in d[(3 if isfn else 5):].split("|")]
                relfile, path = fields[0], fields[1]
                opts = {}
                for f in fields[2:]:
                    if f.startswith("attr="):
                        opts["attr"] = f[5:]
                    elif f.startswith("execconst"):
                        opts["execconst"] = f[10:] if f.startswith("execconst=") else ""
                    elif f.startswith("sub="):
                        opts.setdefault("subs", []).append(tuple(f[4:].split("=>", 1)))
                    elif f.startswith("bsub="):
                        opts.setdefault("bsubs", []).append(tuple(f[5:].split("=>", 1)))
                    elif f.startswith("eta="):
                        opts.setdefault("etas", []).append(tuple(x.strip() for x in f[4:].split(">")))
                    else:
                        for o in f.split():
                            if "=" in o:
                                k, v = o.split("=", 1)
                                opts[k] = v
                            else:
                                opts[o] = True
                i += 1
                parts = {}
                while i < n:
                    st2 = lines[i].strip()
                    m = re.match(r"//@(\||suffix\||loop\s+\d+\||entry\||exit\s+(?:\d+|\*)\||tryexit\s+\d+\||loopstart\s+\d+\||loopend\s+\d+\||afterloop\s+\d+\||beforeloop\s+\d+\||timer\s+\d+\||arm\s+\d+\||armend\s+\d+\||async\s+\d+\||asyncend\s+\d+\||closure\s+\d+\|)(.*)$", st2)
                    if not m:
                        break
                    kind = m.group(1)[:-1].strip()
                    text = m.group(2)
                    if kind == "":
                        parts.setdefault("contract", []).append(text + "\n")
                        parts.setdefault("contract_lines", []).append((text + "\n", f"{rel}:{i + 1}"))
                    elif kind == "entry":
                        parts.setdefault("entry", []).append(text + "\n")
                    elif kind == "suffix":
                        parts.setdefault("suffix", []).append(text + "\n")
                    else:
                        kk, num = kind.split()
                        parts.setdefault((kk, -1 if num == "*" else int(num)), []).append(text + "\n")
                    i += 1
                if isfn:
                    nseg_ = len(self.segs)
                    nvac_, nrw_, ntr_ = len(self.vac_ids), len(self.rewrites), len(self.trusted)
                    if str(self.demote.get((relfile, path), "")).startswith("DROP:"):
                        self.lost = getattr(self, "lost", [])
                        self.lost.append({"file": relfile, "path": path, "tags": [t for t in opts.get("tags", "").split(",") if t],
                                          "why": f"{relfile}::{path}: signature not accepted by the verifier after the change ({self.demote[(relfile, path)][5:]}); left out"})
                        continue
                    if (relfile, path) in self.demote and "ext_body" not in opts:
                        # demotion: the body of this function no longer compiles under the verifier (a construct outside its subset,
                        # or a type error caused by a rewrite that no longer fits). It is emitted with its contract ASSUMED so that the
                        # rest of the unit is still decided; every property that tags it is undecided (listed under `lost`)
                        opts = dict(opts, ext_body=True)
                        self.lost = getattr(self, "lost", [])
                        self.lost.append({"file": relfile, "path": path, "tags": [t for t in opts.get("tags", "").split(",") if t],
                                          "why": f"{relfile}::{path}: body not accepted by the verifier after the change ({self.demote[(relfile, path)]}); contract assumed for the other functions"})
                    try:
                        self.do_fn(relfile, path, opts, parts, origin)
                    except AnchorLost as ex_:
                        # the function (or a structural position its hints refer to) no longer exists: the unit is built without it.
                        # Properties that tag it become undecided; the other properties of the unit are still decided (code that
                        # calls the missing function does not compile, which is reported as undecided as well)
                        del self.segs[nseg_:]
                        del self.vac_ids[nvac_:]
                        del self.rewrites[nrw_:]
                        del self.trusted[ntr_:]
                        self.lost = getattr(self, "lost", [])
                        self.lost.append({"file": relfile, "path": path, "tags": [t for t in opts.get("tags", "").split(",") if t], "why": str(ex_)})
                        # if the function itself still exists (only a position inside its body was lost) it is kept as an ASSUMED
                        # contract, so that its callers - and the properties that do not tag it - are still decided
                        if "ext_body" not in opts:
                            try:
                                self.do_fn(relfile, path, dict(opts, ext_body=True),
                                           {k: v for k, v in parts.items() if not isinstance(k, tuple) and k != "entry"}, origin)
                            except (AnchorLost, Unsupported):
                                del self.segs[nseg_:]
                                del self.vac_ids[nvac_:]
                                del self.rewrites[nrw_:]
                                del self.trusted[ntr_:]
                else:
                    self.do_item(relfile, path, opts, origin)
            elif d.startswith("#") or d.strip() == "":
                i += 1
            else:
                raise Unsupported(f"{origin}: unknown directive `{st}`")

    # R25: a function that the code under contract calls but the template does not name (a helper added by a change) is pulled in
    # WITHOUT a contract: its body is verified for the implicit obligations, its callers learn nothing about its result
    def _pull_opts(self, relfile, pth, tags):
        o = {"tags": tags}
        if (relfile, pth) in self.demote:
            o["ext_body"] = True
            self.lost = getattr(self, "lost", [])
            self.lost.append({"file": relfile, "path": pth, "tags": [t for t in tags.split(",") if t],
                              "why": f"{relfile}::{pth} (pulled in, R25): body not accepted by the verifier ({self.demote[(relfile, pth)]}); nothing is assumed about its result"})
        return o

    def pull(self, pulls):
        done = []
        for (ty, fn) in pulls:
            cands = []
            for relfile in list(self.sources):
                if relfile.startswith("@"):
                    continue
                try:
                    _, _, items = spans_of(relfile)
                except Exception:
                    continue
                impls = [x for x in items if x.get("kind") == "impl"]
                for x in items:
                    if x.get("kind") != "fn" or not cfg_on(x.get("cfg", [])):
                        continue
                    pth = x["path"]
                    if not (pth == fn or pth.endswith("::" + fn)):
                        continue
                    if any(f["file"] == relfile and f["path"] == pth for f in self.functions):
                        continue
                    if str(self.demote.get((relfile, pth), "")).startswith("DROP:"):
                        continue
                    cont = next((im["span"] for im in impls if im["span"][0] <= x["span"][0] and x["span"][1] <= im["span"][1]), None)
                    if ty:
                        key = pth.rsplit("::", 1)[0] if "::" in pth else ""
                        base = re.sub(r"<.*", "", key.split(" for ")[-1]).split("::")[-1].strip()
                        if base != ty:
                            continue
                    cands.append((relfile, pth, x, cont, items))
            if len(cands) != 1:
                continue
            relfile, pth, x, cont, items = cands[0]
            impls = [im for im in items if im.get("kind") == "impl"]
            neigh = None
            for f in self.functions:
                if f["file"] != relfile or "segs" not in f:
                    continue
                try:
                    _, fit = find_item(relfile, "fn", f["path"].split("#")[0])
                except Exception:
                    continue
                fcont = next((im["span"] for im in impls if im["span"][0] <= fit["span"][0] and fit["span"][1] <= im["span"][1]), None)
                if fcont == cont and not x.get("trait_impl") and not fit.get("trait_impl") and (neigh is None or f["segs"][1] > neigh["segs"][1]):
                    neigh = f
            has_sibling = any(f["file"] == relfile and "segs" in f and not x.get("trait_impl") and
                              next((im["span"] for im in impls if im["span"][0] <= find_item(relfile, "fn", f["path"].split("#")[0])[1]["span"][0]
                                    and find_item(relfile, "fn", f["path"].split("#")[0])[1]["span"][1] <= im["span"][1]), None) == cont
                              for f in self.functions if not f["path"].startswith("trait "))
            if cont is not None and (x.get("trait_impl") or not has_sibling):
                # a trait impl method (e.g. `impl Default for T`): the whole impl wrapper is emitted right after the item of the self type
                imrec = next(im for im in impls if im["span"] == cont)
                src0 = spans_of(relfile)[0]
                key = pth.rsplit("::", 1)[0]
                tyname = re.sub(r"<.*", "", key.split(" for ")[-1]).split("::")[-1].strip()
                at = next((i + 1 for i, (t_, o_) in enumerate(self.segs)
                           if isinstance(o_, dict) and o_.get("kind") == "item" and o_.get("file") == relfile and o_.get("path", "").split("::")[-1] == tyname), None)
                others = [y for y in items if y.get("kind") == "fn" and cont[0] <= y["span"][0] and y["span"][1] <= cont[1]]
                if at is None or (x.get("trait_impl") and len(others) != 1):
                    continue
                before = len(self.segs)
                hdr = src0[imrec["header"][0]:imrec["header"][1]].decode()
                self.emit(hdr.strip() + " {\n", {"kind": "tpl", "tpl": "auto-pull"})
                self.do_fn(relfile, pth, self._pull_opts(relfile, pth, ""), {}, "auto-pull")
                self.emit("}\n", {"kind": "tpl", "tpl": "auto-pull"})
                new = self.segs[before:]
                del self.segs[before:]
                self.segs[at:at] = new
                n = len(new)
                for f in self.functions:
                    if "segs" in f:
                        if f["file"] == relfile and f["path"] == pth:
                            f["segs"] = [at + 1, at + n - 1]
                        elif f["segs"][0] >= at:
                            f["segs"] = [f["segs"][0] + n, f["segs"][1] + n]
                self.log("R25", relfile, src0, x["span"][0], f"{pth}: not named by the unit template, pulled in (with its impl header) without a contract")
                done.append((ty, fn))
                continue
            if neigh is None:
                # no place to put it (e.g. a free function in a file from which only methods are under contract): it is rendered only to be
                # inlined at its call sites (R31); if it cannot be inlined the callers do not compile and are demoted
                if x.get("trait_impl") or (relfile, pth) in self.demote:
                    continue
                before = len(self.segs)
                nfun = len(self.functions)
                nvac0, nrw0 = len(self.vac_ids), len(self.rewrites)
                try:
                    self.do_fn(relfile, pth, {"tags": "", "novac": True}, {}, "auto-pull")
                except (AnchorLost, Unsupported):
                    del self.segs[before:]
                    del self.functions[nfun:]
                    del self.vac_ids[nvac0:]
                    del self.rewrites[nrw0:]
                    continue
                del self.vac_ids[nvac0:]
                sig_ = next((t for t, o in self.segs[before:] if isinstance(o, dict) and o.get("kind") == "sig"), None)
                body_ = next((t for t, o in self.segs[before:] if isinstance(o, dict) and o.get("kind") == "body"), None)
                del self.segs[before:]
                del self.functions[nfun:]
                if sig_ and body_:
                    self.inline_only = getattr(self, "inline_only", [])
                    self.inline_only.append({"fn": fn, "file": relfile, "path": pth, "sig": sig_, "body": body_})
                    done.append((ty, fn))
                continue
            before = len(self.segs)
            self.do_fn(relfile, pth, self._pull_opts(relfile, pth, neigh.get("opts_tags", "")), {}, "auto-pull")
            new = self.segs[before:]
            del self.segs[before:]
            at = neigh["segs"][1]
            self.segs[at:at] = new
            n = len(new)
            for f in self.functions:
                if "segs" in f and f is not neigh:
                    if f["file"] == relfile and f["path"] == pth:
                        f["segs"] = [at, at + n]
                    elif f["segs"][0] >= at:
                        f["segs"] = [f["segs"][0] + n, f["segs"][1] + n]
            src = spans_of(relfile)[0]
            self.log("R25", relfile, src, x["span"][0], f"{pth}: not named by the unit template, pulled in without a contract (called by code under contract)")
            done.append((ty, fn))
        return done

    def finish(self):
        text = "".join(t for t, _ in self.segs)
        starts = []
        origins = []
        line = 1
        for t, o in self.segs:
            starts.append(line)
            origins.append(o)
            line += t.count("\n")
        return text, {"unit": self.name, "line_starts": starts, "origins": origins, "rewrites": self.rewrites,
                      "functions": self.functions, "items": self.items, "trusted": self.trusted,
                      "bounded": self.bounded, "notdecided": self.notdecided, "sources": self.sources,
                      "vac_ids": self.vac_ids, "vac_files": self.vac_files, "lemmas": self.lemmas, "lost": getattr(self, "lost", []), "shape_seen": getattr(self, "shape_seen", {})}


def origin_of(meta, line):
    i = bisect.bisect_right(meta["line_starts"], line) - 1
    if i < 0:
        return None
    o = dict(meta["origins"][i])
    o["offset"] = line - meta["line_starts"][i]
    return o


def _split_top(text):
    """split at top-level commas (parentheses, brackets, braces and angle brackets of types are balanced)"""
    out, depth, cur = [], 0, ""
    for i, ch in enumerate(text):
        if ch in "([{":
            depth += 1
        elif ch in ")]}":
            depth -= 1
        elif ch == "<" and re.search(r"[\w>]\s*$", cur) and not re.search(r"\s$", cur):
            depth += 1
        elif ch == ">" and depth > 0 and not cur.endswith("-") and not cur.endswith("="):
            depth -= 1
        if ch == "," and depth == 0:
            out.append(cur.strip()); cur = ""
        else:
            cur += ch
    if cur.strip():
        out.append(cur.strip())
    return out


def inline_pulled(u, pulled):
    """R31: a helper that a change introduced and R25 pulled in without a contract is INLINED at its call sites when it is simple
    enough for that to be a purely textual, meaning-preserving step: a non-async, non-generic function whose body has no `return`, `?`,
    loop or await, called with a plain receiver (`self`, `self.a.b`, `x`).  The arguments are bound first (typed `let`), `self` in the
    body is replaced by the receiver.  Then the callers are verified against what the helper really does - an "extract function"
    refactoring verifies as before, a breaking change hidden behind a helper fails its caller's contract.  Helpers that do not qualify
    stay contract-less (their callers' failures are `needs contract`, undecided)."""
    only = {e["fn"]: e for e in getattr(u, "inline_only", [])}
    alltxt = "".join(t_ for t_, _ in u.segs if isinstance(t_, str))
    for (ty, fn) in pulled:
        # call sites are recognised by the method NAME: when the unit has another function of that name (`reset`, `new`, ...)
        # a textual match could inline the helper into a call of the other one - such a helper is never inlined
        if len(re.findall(r"\bfn\s+" + re.escape(fn) + r"\b", alltxt)) > (0 if fn in only else 1):
            continue
        if fn in only:
            frec = {"file": only[fn]["file"], "path": only[fn]["path"], "src_line": 0}
            sig, body = only[fn]["sig"], only[fn]["body"]
        else:
            def _base(p_):
                k_ = p_.split("#")[0].rsplit("::", 1)[0] if "::" in p_ else ""
                return re.sub(r"<.*", "", k_.split(" for ")[-1]).split("::")[-1].strip()
            frec = next((f for f in u.functions if "segs" in f and f["path"].split("#")[0].split("::")[-1] == fn and f.get("ext_body") is False
                         and (not ty or _base(f["path"]) == ty)), None)
            if frec is None:
                continue
            a, b = frec["segs"]
            sig = next((t for t, o in u.segs[a:b] if isinstance(o, dict) and o.get("kind") == "sig"), None)
            body = next((t for t, o in u.segs[a:b] if isinstance(o, dict) and o.get("kind") == "body"), None)
            if sig is None or body is None:
                continue
        code = re.sub(r'//[^\n]*|/\*.*?\*/|"(?:\\.|[^"\\])*"', " ", body, flags=re.S)
        class _MS:
            def __init__(s_, g): s_.g = g
            def group(s_, i): return s_.g
        msig = None
        m0 = re.search(r"\bfn\s+" + re.escape(fn) + r"\s*\(", sig)
        if m0:
            d_, j_ = 1, m0.end()
            while j_ < len(sig) and d_ > 0:
                d_ += sig[j_] in "([{"; d_ -= sig[j_] in ")]}"; j_ += 1
            if d_ == 0:
                msig = _MS(sig[m0.end():j_ - 1])
        if (not msig or "async fn" in sig or re.search(r"\bfn\s+" + re.escape(fn) + r"\s*<", sig) or " where " in sig
                or re.search(r"\breturn\b|\?\s*[;)\n.,}]|\.await\b|\bloop\b|\bwhile\b|\bfor\b|\bassert\s*\(false\)", code)):
            continue
        params = _split_top(msig.group(1))
        has_self = bool(params) and re.fullmatch(r"&?\s*(?:'\w+\s+)?(?:mut\s+)?self", params[0]) is not None
        if has_self:
            params = params[1:]
        names, types = [], []
        ok = True
        for p_ in params:
            mp = re.fullmatch(r"((?:mut\s+)?\w+)\s*:\s*(.+)", p_, re.S)
            if not mp or "impl " in mp.group(2):
                ok = False
                break
            names.append(mp.group(1)); types.append(mp.group(2).strip())
        if not ok:
            continue
        n_inl = 0
        for f2 in u.functions:
            if "segs" not in f2 or f2 is frec:
                continue
            for si in range(f2["segs"][0], f2["segs"][1]):
                t, o = u.segs[si]
                if not (isinstance(o, dict) and o.get("kind") == "body"):
                    continue
                out, pos = "", 0
                pat = (r"((?:self|[a-z_]\w*)(?:\.\w+)*)\s*\.\s*" if has_self else r"(?<![\w.:])(?:Self\s*::\s*|self\s*::\s*" + (("|" + re.escape(ty) + r"\s*::\s*") if ty else "") + r")?()") + re.escape(fn) + r"\s*\("
                for mc in re.finditer(pat, t):
                    if mc.start() < pos:
                        continue
                    if not has_self and re.search(r"\bfn\s+$", t[:mc.start()]):
                        continue
                    # balanced argument list
                    d, j = 1, mc.end()
                    while j < len(t) and d > 0:
                        d += t[j] in "([{"; d -= t[j] in ")]}"; j += 1
                    if d != 0:
                        continue
                    args = _split_top(t[mc.end():j - 1])
                    if len(args) != len(names):
                        continue
                    recv = mc.group(1)
                    # `self` of the helper is a reference (unless taken by value): the receiver place is re-borrowed the same way
                    rk_ = "&mut " if re.match(r"&\s*(?:'\w+\s+)?mut\s+self", msig.group(1).strip()) else ("&" if msig.group(1).strip().startswith("&") else "")
                    rtxt_ = f"({rk_}{recv})" if rk_ else recv
                    btxt = re.sub(r"\bself\b", lambda m_: rtxt_, body.strip()) if has_self and recv != "self" else body.strip()
                    if ty and not has_self:
                        btxt = re.sub(r"\bSelf\b", ty, btxt)      # an associated function inlined outside its impl block
                    binds = ""
                    if names:
                        binds = ("let (" + ", ".join(names) + "): (" + ", ".join(types) + ") = (" + ", ".join(args) + "); ") if len(names) > 1 \
                            else f"let {names[0]}: {types[0]} = {args[0]}; "
                    if frec["file"] != f2["file"] and frec["file"].startswith("rodbus/src/"):
                        # a helper of another module: its text names the types of its own module. The arguments are evaluated in
                        # the caller's scope, then the body runs in a block that sees the public items of the helper's module.
                        hmod = "crate::" + re.sub(r"(::mod)?$", "", frec["file"][len("rodbus/src/"):-3].replace("/", "::"))
                        pre_ = "".join(f"let inl_a__{k_} = {a_}; " for k_, a_ in enumerate(args))
                        if names:
                            binds = ("let (" + ", ".join(names) + "): (" + ", ".join(types) + ") = (" + ", ".join(f"inl_a__{k_}" for k_ in range(len(args))) + "); ") if len(names) > 1 \
                                else f"let {names[0]}: {types[0]} = inl_a__0; "
                        out += t[pos:mc.start()] + "{ " + pre_ + "{ #[allow(unused_imports)] use " + hmod + "::*; " + binds + btxt + " } }"
                    else:
                        out += t[pos:mc.start()] + "{ " + binds + btxt + " }"
                    pos = j
                    n_inl += 1
                if pos:
                    u.segs[si] = (out + t[pos:], o)
                    f2["has_inlined"] = True
        if n_inl:
            u.rewrites.append({"rule": "R31", "file": frec["file"], "line": frec.get("src_line", 0),
                               "note": f"{frec['path']}: helper without a contract (pulled in by R25) inlined at {n_inl} call site(s)"})
            frec["inlined"] = n_inl


def build(unit, outdir, vacuity=False, pulls=None, demote=None):
    tpl = os.path.join(VERIF, "units", unit, "unit.rs.tpl")
    u = Unit(unit, vacuity=vacuity)
    u.demote = dict(demote or {})
    u.process(tpl)
    pulled = u.pull(pulls) if pulls else []
    inline_pulled(u, pulled)
    # functions under contract that call a pulled (contract-less) function: what they learn about its result is nothing, so a
    # failing obligation in them is "needs a contract", not a violation (verdict.py reports it as undecided)
    pnames = {fn for (_, fn) in pulled}
    for f in u.functions:
        if "segs" in f and pnames:
            body = "".join(t for t, _ in u.segs[f["segs"][0]:f["segs"][1]])
            last = f["path"].split("#")[0].split("::")[-1]
            f["calls_uncontracted"] = sorted(n for n in pnames if n != last and re.search(r"\b" + re.escape(n) + r"\s*\(", body))
    text, meta = u.finish()
    meta["pulled"] = [list(x) for x in pulled]
    base_items = SHAPES.get("@items", {})
    meta["items_changed"] = sorted(f"{i['file']}::{i['path']}" for i in u.items
                                   if not i["file"].startswith("@") and base_items.get(f"{i['file']}::{i['path']}") not in (None, i["sha256"]))
    os.makedirs(outdir, exist_ok=True)
    suffix = "_vac" if vacuity else ""
    out_rs = os.path.join(outdir, f"{unit}{suffix}.rs")
    open(out_rs, "w").write(text)
    json.dump(meta, open(os.path.join(outdir, f"{unit}{suffix}.map.json"), "w"))
    return out_rs, meta


if __name__ == "__main__":
    import argparse
    ap = argparse.ArgumentParser()
    ap.add_argument("unit")
    ap.add_argument("--out", default=os.path.join(VERIF, "build"))
    ap.add_argument("--vacuity", action="store_true")
    a = ap.parse_args()
    try:
        p, meta = build(a.unit, a.out, a.vacuity)
    except AnchorLost as ex:
        print(f"ANCHOR-LOST: {ex}", file=sys.stderr)
        sys.exit(2)
    except Unsupported as ex:
        print(f"UNSUPPORTED: {ex}", file=sys.stderr)
        sys.exit(2)
    print(p)
