#!/usr/bin/env python3
"""Records, for every function that carries ordinal proof hints, how many loops / exits / `?` / closures / timer sites / async blocks
it has in the CURRENT tree (units/shapes.json). Run deliberately, on the pinned tree, after writing hints; the extractor refuses to
place ordinal hints on a function whose counts differ (undecided instead of a misplaced hint)."""
import json, os, sys
sys.path.insert(0, os.path.dirname(os.path.abspath(__file__)))
import extract
extract.SHAPES = {}
VERIF = os.path.dirname(os.path.dirname(os.path.abspath(__file__)))
reg = json.load(open(os.path.join(VERIF, "units", "registry.json")))
shapes = {}
for unit in reg["units"]:
    pre = reg["units"][unit].get("pre")
    if pre:
        os.system(os.path.join(VERIF, pre) + " >/dev/null")
    u = extract.Unit(unit)
    u.process(os.path.join(VERIF, "units", unit, "unit.rs.tpl"))
    for k, v in getattr(u, "shape_seen", {}).items():
        shapes.setdefault(k, {}).update(v)
    for k, v in getattr(u, "fn_sha_seen", {}).items():
        if not k.startswith("@"):
            shapes.setdefault(k, {})["sha"] = v
    for i in u.items:
        if not i["file"].startswith("@"):
            shapes.setdefault("@items", {})[f"{i['file']}::{i['path']}"] = i["sha256"]
    for k, v in getattr(u, "reviewed_seen", {}).items():
        shapes.setdefault(k, {})["reviewed_sha"] = v
    for k, v in getattr(u, "assumed_seen", {}).items():
        shapes.setdefault(k, {})["assumed_sha"] = v
    for k, v in getattr(u, "calls_seen", {}).items():
        if not k.startswith("@"):
            shapes.setdefault(k, {})["calls"] = sorted(set(shapes.get(k, {}).get("calls", [])) | set(v))
json.dump(shapes, open(os.path.join(VERIF, "units", "shapes.json"), "w"), indent=1, sort_keys=True)
print(sum(1 for v in shapes.values() if len(v) > ("calls" in v)), "functions with ordinal hints;", sum(1 for v in shapes.values() if "calls" in v), "with a call baseline")
