#!/usr/bin/env python3
"""Regression over the seeded property-breaking changes: every seed under /verif/seeded is applied to a scratch copy of /repo
(never to /repo itself) and the quick checks of the properties it breaks are run against that copy.
usage: tools/seed_matrix.py [-j N] [seed-id-prefix ...]   -> writes seeded/RESULTS.md and prints one line per seed"""
import concurrent.futures
import glob
import json
import os
import shutil
import subprocess
import sys
import tempfile

VERIF = os.path.dirname(os.path.dirname(os.path.abspath(__file__)))
REPO = os.environ.get("VERIF_REPO", "/repo")


def run_seed(d):
    meta = json.load(open(os.path.join(d, "meta.json")))
    sid = meta["id"]
    work = tempfile.mkdtemp(prefix="seedrun-", dir="/var/tmp")
    try:
        subprocess.run(["rsync", "-a", "--exclude", "target", "--exclude", ".git", REPO + "/", work + "/repo/"], check=True)
        p = subprocess.run(["patch", "-p1", "-s", "-i", os.path.join(d, "patch.diff")], cwd=work + "/repo", capture_output=True, text=True)
        if p.returncode != 0:
            return sid, meta, [("-", "patch does not apply: " + (p.stdout + p.stderr).strip()[:200], 3)]
        rows = []
        for prop in meta["breaks"]:
            env = dict(os.environ, VERIF_CACHE="1", VERIF_REPO=work + "/repo", VERIF_BUILD=work + "/build", VERIF_OUT=work + "/out",
                       VERIF_FFI_TARGET=work + "/ffi-target")
            q = subprocess.run([os.path.join(VERIF, "check"), prop, "quick"], capture_output=True, text=True, env=env)
            lines = [l for l in (q.stdout + q.stderr).split("\n") if l.strip()]
            first = next((l.strip() for l in lines if l.strip().startswith("obligation:")), None) \
                or next((l.strip() for l in lines if l.startswith("UNDECIDED")), None) or (lines[-1] if lines else "")
            rows.append((prop, first[:260], q.returncode))
        return sid, meta, rows
    finally:
        shutil.rmtree(work, ignore_errors=True)


def main():
    args = sys.argv[1:]
    jobs = 3
    if args and args[0] == "-j":
        jobs = int(args[1])
        args = args[2:]
    dirs = sorted(glob.glob(os.path.join(VERIF, "seeded", "S*")))
    if args:
        dirs = [d for d in dirs if any(os.path.basename(d).startswith(a) for a in args)]
    results = []
    with concurrent.futures.ThreadPoolExecutor(max_workers=jobs) as ex:
        for sid, meta, rows in ex.map(run_seed, dirs):
            results.append((sid, meta, rows))
            verdict = "VIOLATION" if any(rc == 1 for _, _, rc in rows) else ("undecided" if any(rc == 2 for _, _, rc in rows) else "MISSED")
            print(f"{sid}: {verdict}  " + "; ".join(f"{p} rc={rc}" for p, _, rc in rows), flush=True)
    if args:
        return      # a partial run does not rewrite the table
    out = ["# Seeded changes run against the current checks", "",
           "Produced by `tools/seed_matrix.py` (each change applied to a scratch copy of /repo; quick checks of the properties it breaks).",
           "rc 1 = VIOLATION reported, rc 2 = undecided (tool limit, never counted as \"held\"), rc 0 = missed.", "",
           "| Seed | Property | rc | First reported obligation |", "|---|---|---|---|"]
    for sid, meta, rows in sorted(results):
        for prop, first, rc in rows:
            out.append(f"| {sid} | {prop} | {rc} | `{first.replace('|', '/')}` |")
    open(os.path.join(VERIF, "seeded", "RESULTS.md"), "w").write("\n".join(out) + "\n")


if __name__ == "__main__":
    main()
