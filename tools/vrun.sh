#!/bin/bash
# dev helper: extract + verus + pretty errors
u=$1; shift
cd /verif && python3 tools/extract.py $u || { echo "EXTRACTION FAILED"; exit 2; }
verus build/$u.rs --output-json --time --multiple-errors 5 "$@" -- --error-format=json 2>build/$u.err >build/$u.out
python3 - "$u" <<'PY'
import json,sys
u=sys.argv[1]
for l in open(f'/verif/build/{u}.err'):
    try: d=json.loads(l)
    except Exception: print(l,end=''); continue
    print(d['rendered'])
try:
    o=json.load(open(f'/verif/build/{u}.out'))
    print(o['verification-results'])
    for m in o['times-ms'].get('smt',{}).get('smt-run-module-times',[]):
        for f in m.get('function-breakdown',[]):
            if f['time']>1500 or not f['success']: print('  ',f['function'],f['time'],'ms',f['success'])
    print('total ms',o['times-ms']['total'])
except Exception as e: print('no json',e)
PY
