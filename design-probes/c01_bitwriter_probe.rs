use vstd::prelude::*;
verus! {

#[derive(Clone, Copy, PartialEq, Eq)]
pub enum ExceptionCode { IllegalFunction, IllegalDataAddress, Unknown(u8) }
pub enum InternalError { BadByteCount(usize), InsufficientWriteSpace(usize, usize) }
pub enum RequestError { Exception(ExceptionCode), Internal(InternalError) }

impl vstd::std_specs::convert::FromSpecImpl<ExceptionCode> for RequestError {
    open spec fn obeys_from_spec() -> bool { true }
    open spec fn from_spec(err: ExceptionCode) -> Self { RequestError::Exception(err) }
}
impl From<ExceptionCode> for RequestError { fn from(err: ExceptionCode) -> Self { RequestError::Exception(err) } }
impl vstd::std_specs::convert::FromSpecImpl<InternalError> for RequestError {
    open spec fn obeys_from_spec() -> bool { true }
    open spec fn from_spec(err: InternalError) -> Self { RequestError::Internal(err) }
}
impl From<InternalError> for RequestError { fn from(err: InternalError) -> Self { RequestError::Internal(err) } }
pub struct WriteError { pub remaining: usize, pub written: usize }
impl vstd::std_specs::convert::FromSpecImpl<WriteError> for RequestError {
    open spec fn obeys_from_spec() -> bool { true }
    open spec fn from_spec(err: WriteError) -> Self { RequestError::Internal(InternalError::InsufficientWriteSpace(err.written, err.remaining)) }
}
impl From<WriteError> for RequestError { fn from(err: WriteError) -> Self { RequestError::Internal(InternalError::InsufficientWriteSpace(err.written, err.remaining)) } }

// shim: scursor::WriteCursor
#[verifier::external_body]
pub struct WriteCursor<'a> { dest: &'a mut [u8], pos: usize }
impl<'a> WriteCursor<'a> {
    pub uninterp spec fn cap(&self) -> nat;
    pub uninterp spec fn written(&self) -> Seq<u8>;
    #[verifier::external_body]
    pub fn write_u8(&mut self, v: u8) -> (r: Result<(), WriteError>)
        ensures final(self).cap() == old(self).cap(),
            r is Ok <==> old(self).written().len() < old(self).cap(),
            r is Ok ==> final(self).written() == old(self).written().push(v),
            r is Err ==> final(self).written() == old(self).written(),
    { unimplemented!() }
}

#[derive(Clone, Copy)]
pub struct AddressRange { pub start: u16, pub count: u16 }
pub open spec fn valid_range(r: AddressRange) -> bool { r.count != 0 && r.start as int + r.count as int <= 65536 }

pub struct AddressIterator { pub current: u16, pub remain: u16 }
impl AddressIterator {
    pub fn new(current: u16, remain: u16) -> (r: Self) ensures r.current == current, r.remain == remain { Self { current, remain } }
    pub fn next(&mut self) -> (r: Option<u16>)
        ensures
            old(self).remain == 0 ==> r is None && *final(self) == *old(self),
            old(self).remain > 0 ==> r == Some(old(self).current) && final(self).remain == old(self).remain - 1
               && final(self).current as int == (old(self).current as int + 1) % 65536,
    {
        match self.remain.checked_sub(1) {
            Some(x) => {
                let ret = self.current;
                self.current = self.current.wrapping_add(1);   // (tree after the planned fix for F1)
                self.remain = x;
                Some(ret)
            }
            None => None,
        }
    }
}

pub fn calc_bytes_for_bits(num_bits: usize) -> (r: Result<u8, InternalError>)
    ensures r is Ok <==> (num_bits + 7) / 8 <= 255, r is Ok ==> r->Ok_0 as int == (num_bits + 7) / 8
{
    let div_8 = num_bits / 8;
    let count = if num_bits % 8 == 0 { div_8 } else { div_8 + 1 };
    if count <= 255 { Ok(count as u8) } else { Err(InternalError::BadByteCount(count)) }
}

pub struct BitWriter<T> where T: Fn(u16) -> Result<bool, ExceptionCode> {
    pub range: AddressRange,
    pub getter: T,
}

pub open spec fn bit(b: u8, k: int) -> bool { (b >> (k as u8)) & 1u8 == 1u8 }

pub proof fn lemma_set_bit(acc: u8, n: u8)
    requires n < 8, (acc as int) < pow2_8(n as int)
    ensures
        forall|k: u8| k < n ==> #[trigger] bit((acc | (1u8 << n)), k as int) == bit(acc, k as int),
        bit((acc | (1u8 << n)), n as int),
        !bit(acc, n as int),
        ((acc | (1u8 << n)) as int) < pow2_8(n as int + 1),
        (acc as int) < pow2_8(n as int + 1),
        forall|k: u8| n <= k < 8 ==> !#[trigger] bit(acc, k as int),
{
    assert(pow2_8(n as int) == (1u16 << (n as u16)) as int) by { lemma_pow2_8(n); }
    assert(pow2_8(n as int + 1) == (1u16 << ((n + 1) as u16)) as int) by { lemma_pow2_8((n + 1) as u8); }
    assert(forall|k: u8| k < n ==> ((acc | (1u8 << n)) >> k) & 1u8 == (acc >> k) & 1u8) by (bit_vector) requires n < 8;
    assert(((acc | (1u8 << n)) >> n) & 1u8 == 1u8) by (bit_vector) requires n < 8;
    assert(forall|k: u8| n <= k < 8 ==> (acc >> k) & 1u8 == 0u8) by (bit_vector) requires n < 8, (acc as u16) < (1u16 << (n as u16));
    assert(((acc | (1u8 << n)) as u16) < (1u16 << ((n + 1) as u16))) by (bit_vector) requires n < 8, (acc as u16) < (1u16 << (n as u16));
    assert((acc as u16) < (1u16 << ((n + 1) as u16))) by (bit_vector) requires n < 8, (acc as u16) < (1u16 << (n as u16));
}

pub proof fn lemma_zero_bits()
    ensures forall|k: u8| k < 8 ==> !#[trigger] bit(0u8, k as int)
{
    assert(forall|k: u8| k < 8 ==> (0u8 >> k) & 1u8 == 0u8) by (bit_vector);
}
pub open spec fn pow2_8(n: int) -> int {
    if n <= 0 { 1 } else if n == 1 { 2 } else if n == 2 { 4 } else if n == 3 { 8 } else if n == 4 { 16 } else if n == 5 { 32 } else if n == 6 { 64 } else if n == 7 { 128 } else { 256 }
}
pub proof fn lemma_pow2_8(n: u8) requires n <= 8 ensures pow2_8(n as int) == (1u16 << (n as u16)) as int {
    assert((1u16 << 0u16) == 1 && (1u16 << 1u16) == 2 && (1u16 << 2u16) == 4 && (1u16 << 3u16) == 8 && (1u16 << 4u16) == 16 && (1u16 << 5u16) == 32 && (1u16 << 6u16) == 64 && (1u16 << 7u16) == 128 && (1u16 << 8u16) == 256) by (bit_vector);
}


pub open spec fn reported<T: Fn(u16) -> Result<bool, ExceptionCode>>(g: T, start: u16, i: int, b: bool) -> bool {
    g.ensures(((start + i) as u16,), Ok(b))
}
pub open spec fn refused<T: Fn(u16) -> Result<bool, ExceptionCode>>(g: T, start: u16, i: int, e: ExceptionCode) -> bool {
    g.ensures(((start + i) as u16,), Err(e))
}
// value of output bit i: in a flushed byte or still in the accumulator
pub open spec fn out_bit(w: Seq<u8>, base: int, j: int, acc: u8, i: int) -> bool {
    if i / 8 < j { bit(w[base + 1 + i / 8], i % 8) } else { bit(acc, i % 8) }
}

impl<T> BitWriter<T> where T: Fn(u16) -> Result<bool, ExceptionCode> {
    pub fn serialize(&self, cursor: &mut WriteCursor) -> (r: Result<(), RequestError>)
        requires valid_range(self.range), self.range.count <= 2000,
            // the getter may be consulted for addresses inside the range only
            forall|a: u16| self.range.start <= a && (a as int) < self.range.start + self.range.count ==> self.getter.requires((a,)),
        ensures
            final(cursor).cap() == old(cursor).cap(),
            r is Ok ==> {
                let w = final(cursor).written();
                let base = old(cursor).written().len() as int;
                let n = self.range.count as int;
                &&& w.len() == base + 1 + (n + 7) / 8
                &&& (forall|k: int| 0 <= k < base ==> w[k] == old(cursor).written()[k])
                &&& w[base] as int == (n + 7) / 8
                &&& (forall|i: int| 0 <= i < n ==> #[trigger] reported(self.getter, self.range.start, i, bit(w[base + 1 + i / 8], i % 8)))
                &&& (n % 8 != 0 ==> forall|k: u8| n % 8 <= k < 8 ==> !#[trigger] bit(w[w.len() - 1], k as int))
            },
            r matches Err(RequestError::Exception(e)) ==>
                exists|i: int| 0 <= i < self.range.count && #[trigger] refused(self.getter, self.range.start, i, e),
    {
        proof { lemma_zero_bits(); }
        let range = self.range;
        // write the number of bytes that follow
        let num_bytes = match (calc_bytes_for_bits(range.count as usize)) { Ok(v) => v, Err(e) => return Err(From::from(e)) };
        match (cursor.write_u8(num_bytes)) { Ok(v) => v, Err(e) => return Err(From::from(e)) };

        let mut acc = 0;
        let mut num_bits: usize = 0;

        // iterate over all the addresses, accumulating bits in the byte
        let mut it = AddressIterator::new(self.range.start, self.range.count);
        loop
            invariant
                valid_range(self.range), self.range.count <= 2000,
                forall|a: u16| self.range.start <= a && (a as int) < self.range.start + self.range.count ==> self.getter.requires((a,)),
                cursor.cap() == old(cursor).cap(),
                it.remain <= self.range.count,
                it.remain > 0 ==> it.current == self.range.start + (self.range.count - it.remain),
                num_bits == (self.range.count - it.remain) % 8,
                (acc as int) < pow2_8(num_bits as int),
                cursor.written().len() == old(cursor).written().len() + 1 + (self.range.count - it.remain) / 8,
                forall|k: int| 0 <= k < old(cursor).written().len() ==> cursor.written()[k] == old(cursor).written()[k],
                cursor.written()[old(cursor).written().len() as int] as int == (self.range.count as int + 7) / 8,
                forall|i: int| 0 <= i < self.range.count - it.remain ==>
                    #[trigger] reported(self.getter, self.range.start, i,
                        out_bit(cursor.written(), old(cursor).written().len() as int, (self.range.count - it.remain) / 8, acc, i)),
                forall|k: u8| num_bits <= k < 8 ==> !#[trigger] bit(acc, k as int),
            ensures it.remain == 0,
            decreases it.remain
        {
          let ghost w0 = cursor.written();
          let ghost acc0 = acc;
          let ghost done0 = self.range.count - it.remain;
          match it.next() { None => break, Some(address) => {
            proof { lemma_set_bit(acc, num_bits as u8); }
            if match ((self.getter)(address)) { Ok(v) => v, Err(e) => { proof { assert(refused(self.getter, self.range.start, done0 as int, e)); } return Err(From::from(e)) } } {
                // merge the bit into the byte
                acc |= 1 << num_bits;
            }
            num_bits += 1;
            if num_bits == 8 {
                // flush the byte
                match (cursor.write_u8(acc)) { Ok(v) => v, Err(e) => return Err(From::from(e)) };
                acc = 0;
                num_bits = 0;
            }
            proof {
                let base = old(cursor).written().len() as int;
                let j0 = done0 / 8;
                let n0 = done0 % 8;
                let done1 = done0 + 1;
                let j1 = done1 / 8;
                let w1 = cursor.written();
                // the byte that now carries bits [8*j0, 8*j0+n0]
                let cur = if n0 == 7 { w1[base + 1 + j0] } else { acc };
                if n0 < 7 { lemma_set_bit(acc, (n0 + 1) as u8); } else { lemma_zero_bits(); }
                assert forall|i: int| 0 <= i < done1 implies
                    #[trigger] reported(self.getter, self.range.start, i, out_bit(w1, base, j1, acc, i)) by {
                    if i < done0 {
                        assert(reported(self.getter, self.range.start, i, out_bit(w0, base, j0, acc0, i)));
                        if i / 8 < j0 {
                            assert(w1[base + 1 + i / 8] == w0[base + 1 + i / 8]);
                        } else {
                            assert(i / 8 == j0 && i % 8 < n0);
                            assert(bit(cur, i % 8) == bit(acc0, i % 8));
                        }
                    } else {
                        assert(i == done0 && i / 8 == j0 && i % 8 == n0);
                    }
                }
            }
          }}
        }

        let ghost w_loop = cursor.written();
        let ghost acc_loop = acc;
        // write any partial bytes
        if num_bits > 0 {
            match (cursor.write_u8(acc)) { Ok(v) => v, Err(e) => return Err(From::from(e)) };
        }

        proof {
            let base = old(cursor).written().len() as int;
            let n = self.range.count as int;
            let w = cursor.written();
            assert forall|i: int| 0 <= i < n implies
                #[trigger] reported(self.getter, self.range.start, i, bit(w[base + 1 + i / 8], i % 8)) by {
                assert(reported(self.getter, self.range.start, i, out_bit(w_loop, base, n / 8, acc_loop, i)));
                if i / 8 < n / 8 { assert(w[base + 1 + i / 8] == w_loop[base + 1 + i / 8]); }
            }
        }
        Ok(())
    }
}

} // verus!
fn main() {}
