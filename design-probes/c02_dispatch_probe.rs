use vstd::prelude::*;
verus! {

#[derive(Clone, Copy, PartialEq, Eq)]
pub enum ExceptionCode { IllegalFunction, IllegalDataValue, Other(u8) }
pub enum RequestError { Io(u8), Internal }

#[derive(Clone, Copy, PartialEq, Eq)]
pub struct UnitId { pub value: u8 }
#[derive(Clone, Copy, PartialEq, Eq)]
pub enum FrameDestination { UnitId(UnitId), Broadcast }
#[derive(Clone, Copy)]
pub struct FrameHeader { pub destination: FrameDestination, pub tx_id: Option<u16> }

#[derive(Clone, Copy, PartialEq, Eq)]
pub struct Indexed<T> { pub index: u16, pub value: T }

#[derive(Clone, Copy, PartialEq, Eq)]
pub enum Call { WriteSingleCoil(Indexed<bool>), WriteSingleRegister(Indexed<u16>) }

pub trait RequestHandler {
    spec fn log(&self) -> Seq<Call>;
    fn write_single_coil(&mut self, value: Indexed<bool>) -> (r: Result<(), ExceptionCode>)
        ensures final(self).log() == old(self).log().push(Call::WriteSingleCoil(value));
    fn write_single_register(&mut self, value: Indexed<u16>) -> (r: Result<(), ExceptionCode>)
        ensures final(self).log() == old(self).log().push(Call::WriteSingleRegister(value));
}

// ---- shims for Arc<Mutex<Box<T>>> : call-site text `h.lock().unwrap().as_mut()` is unchanged ----
#[verifier::external_body] pub struct HandlerCell<#[verifier::reject_recursive_types] T> { p: core::marker::PhantomData<T> }
#[verifier::external_body] pub struct Locked<#[verifier::reject_recursive_types] T> { p: core::marker::PhantomData<T> }
#[verifier::external_body] pub struct Guard<#[verifier::reject_recursive_types] T> { p: core::marker::PhantomData<T> }
impl<T: RequestHandler> HandlerCell<T> {
    pub uninterp spec fn log(&self) -> Seq<Call>;
    #[verifier::external_body]
    pub fn lock(&mut self) -> (r: &mut Locked<T>)
        ensures r.log() == old(self).log(), final(self).log() == final(r).log() { unimplemented!() }
}
impl<T: RequestHandler> Locked<T> {
    pub uninterp spec fn log(&self) -> Seq<Call>;
    #[verifier::external_body]
    pub fn unwrap(&mut self) -> (r: &mut Guard<T>)
        ensures r.log() == old(self).log(), final(self).log() == final(r).log() { unimplemented!() }
}
impl<T: RequestHandler> Guard<T> {
    pub uninterp spec fn log(&self) -> Seq<Call>;
    #[verifier::external_body]
    pub fn as_mut(&mut self) -> (r: &mut dyn RequestHandler)
        ensures r.log() == old(self).log(), final(self).log() == final(r).log() { unimplemented!() }
}

pub struct ServerHandlerMap<T> { pub ghost logs: Map<u8, Seq<Call>>, pub p: core::marker::PhantomData<T> }
impl<T: RequestHandler> ServerHandlerMap<T> {
    #[verifier::external_body]
    pub fn get(&mut self, id: UnitId) -> (r: Option<&mut HandlerCell<T>>)
        ensures
            r is None <==> !old(self).logs.contains_key(id.value),
            r is None ==> final(self).logs == old(self).logs,
            r is Some ==> r->Some_0.log() == old(self).logs[id.value]
                && final(self).logs == old(self).logs.insert(id.value, final(r->Some_0).log()),
    { unimplemented!() }
}

pub enum Request { WriteSingleCoil(Indexed<bool>), WriteSingleRegister(Indexed<u16>) }

pub open spec fn call_of(r: Request) -> Call {
    match r { Request::WriteSingleCoil(x) => Call::WriteSingleCoil(x), Request::WriteSingleRegister(x) => Call::WriteSingleRegister(x) }
}

impl Request {
    pub fn get_reply(&self, handler: &mut dyn RequestHandler) -> (r: Result<u8, RequestError>)
        ensures final(handler).log() == old(handler).log().push(call_of(*self))
    {
        match self {
            Request::WriteSingleCoil(request) => {
                let result = handler.write_single_coil(*request);
                Ok(0)
            }
            Request::WriteSingleRegister(request) => {
                let result = handler.write_single_register(*request);
                Ok(1)
            }
        }
    }
}

pub struct SessionTask<T: RequestHandler> { pub handlers: ServerHandlerMap<T> }

impl<T: RequestHandler> SessionTask<T> {
    pub fn dispatch(&mut self, unit_id: UnitId, request: Request) -> (r: Result<(), RequestError>)
        ensures
            !old(self).handlers.logs.contains_key(unit_id.value) ==> final(self).handlers.logs == old(self).handlers.logs,
            old(self).handlers.logs.contains_key(unit_id.value) ==>
                final(self).handlers.logs == old(self).handlers.logs.insert(unit_id.value, old(self).handlers.logs[unit_id.value].push(call_of(request))),
    {
        let handler = match self.handlers.get(unit_id) {
            None => {
                return Ok(());
            }
            Some(handler) => handler,
        };
        let reply = match (request.get_reply(
            handler.lock().unwrap().as_mut(),
        )) { Ok(v) => v, Err(e) => return Err(e) };
        Ok(())
    }
}

} // verus!
fn main() {}
