use vstd::prelude::*;
verus! {

// ---------- errors (verbatim subset) ----------
pub enum InternalError { InsufficientBytesForRead(usize, usize) }
pub enum FrameParseError { MbapLengthZero, FrameLengthTooBig(usize, usize), UnknownProtocolId(u16) }
pub enum RequestError { BadFrame(FrameParseError), Internal(InternalError), Io(u8) }

impl vstd::std_specs::convert::FromSpecImpl<InternalError> for RequestError {
    open spec fn obeys_from_spec() -> bool { true }
    open spec fn from_spec(err: InternalError) -> Self { RequestError::Internal(err) }
}
impl From<InternalError> for RequestError { fn from(err: InternalError) -> Self { RequestError::Internal(err) } }
impl vstd::std_specs::convert::FromSpecImpl<FrameParseError> for RequestError {
    open spec fn obeys_from_spec() -> bool { true }
    open spec fn from_spec(err: FrameParseError) -> Self { RequestError::BadFrame(err) }
}
impl From<FrameParseError> for RequestError { fn from(err: FrameParseError) -> Self { RequestError::BadFrame(err) } }
pub struct IoError { pub kind: u8 }
impl vstd::std_specs::convert::FromSpecImpl<IoError> for RequestError {
    open spec fn obeys_from_spec() -> bool { true }
    open spec fn from_spec(err: IoError) -> Self { RequestError::Io(err.kind) }
}
impl From<IoError> for RequestError { fn from(err: IoError) -> Self { RequestError::Io(err.kind) } }

pub const MAX_FRAME_LENGTH: usize = 260;
pub const MAX_ADU_LENGTH: usize = 253;
pub const HEADER_LENGTH: usize = 7;
pub const MAX_LENGTH_FIELD: usize = 254;

// ---------- environment: ghost wire ----------
pub struct PhysLayer { pub ghost pending: Seq<u8> }
impl PhysLayer {
    #[verifier::external_body]
    pub async fn read(&mut self, buffer: &mut [u8]) -> (r: Result<usize, IoError>)
        requires old(buffer)@.len() > 0,   // a zero-length read would be indistinguishable from EOF
        ensures
            final(buffer)@.len() == old(buffer)@.len(),
            r is Ok ==> r->Ok_0 <= old(buffer)@.len()
                && r->Ok_0 <= old(self).pending.len()
                && (forall|i: int| 0 <= i < r->Ok_0 ==> #[trigger] final(buffer)@[i] == old(self).pending[i])
                && final(self).pending == old(self).pending.subrange(r->Ok_0 as int, old(self).pending.len() as int),
            r is Err ==> final(self).pending == old(self).pending,
    { unimplemented!() }
}

pub mod lemmas {
use vstd::prelude::*;
pub broadcast proof fn lemma_add_assoc(a: Seq<u8>, b: Seq<u8>, c: Seq<u8>)
    ensures #[trigger] ((a + b) + c) == a + (b + c)
{
    assert(((a + b) + c) =~= a + (b + c));
}
}

pub proof fn lemma_stream_conserved(a0: Seq<u8>, p0: Seq<u8>, a1: Seq<u8>, p1: Seq<u8>, k: int)
    requires 0 <= k <= p0.len(), a1.len() == a0.len() + k,
        forall|i: int| 0 <= i < a0.len() ==> #[trigger] a1[i] == a0[i],
        forall|i: int| 0 <= i < k ==> #[trigger] a1[a0.len() + i] == p0[i],
        p1 == p0.subrange(k, p0.len() as int),
    ensures a1 + p1 =~= a0 + p0
{
    assert forall|j: int| 0 <= j < (a1 + p1).len() implies (a1 + p1)[j] == (a0 + p0)[j] by {
        if j < a0.len() { } else if j < a1.len() { assert(a1[a0.len() + (j - a0.len())] == p0[j - a0.len()]); } else { }
    }
}
// ---------- ReadBuffer (verbatim bodies) ----------
pub struct ReadBuffer {
    pub buffer: [u8; MAX_FRAME_LENGTH],
    pub begin: usize,
    pub end: usize,
}

impl ReadBuffer {
    pub closed spec fn wf(&self) -> bool { self.begin <= self.end <= MAX_FRAME_LENGTH }
    pub closed spec fn view(&self) -> Seq<u8> { self.buffer@.subrange(self.begin as int, self.end as int) }

    pub proof fn lemma_len(&self) requires self.wf() ensures self@.len() <= 260 {}

    pub fn len(&self) -> (r: usize) requires self.wf() ensures r == self@.len(), r <= 260 {
        self.end - self.begin
    }
    pub fn is_empty(&self) -> (r: bool) requires self.wf() ensures r == (self@.len() == 0) {
        self.begin == self.end
    }
    pub fn read(&mut self, count: usize) -> (r: Result<&[u8], InternalError>)
        requires old(self).wf()
        ensures final(self).wf(),
            r is Ok <==> count <= old(self)@.len(),
            r is Ok ==> r->Ok_0@ == old(self)@.subrange(0, count as int) && final(self)@ == old(self)@.subrange(count as int, old(self)@.len() as int),
            r is Err ==> final(self)@ == old(self)@,
    {
        if self.len() < count {
            return Err(InternalError::InsufficientBytesForRead(count, self.len()));
        }

        match self.buffer.get(self.begin..(self.begin + count)) {
            Some(ret) => {
                self.begin += count;
                Ok(ret)
            }
            None => Err(InternalError::InsufficientBytesForRead(count, self.len())),
        }
    }
    pub fn read_u8(&mut self) -> (r: Result<u8, InternalError>)
        requires old(self).wf()
        ensures final(self).wf(),
            r is Ok <==> old(self)@.len() > 0,
            r is Ok ==> r->Ok_0 == old(self)@[0] && final(self)@ == old(self)@.subrange(1, old(self)@.len() as int),
            r is Err ==> final(self)@ == old(self)@,
    {
        if self.is_empty() {
            return Err(InternalError::InsufficientBytesForRead(1, 0));
        }
        match self.buffer.get(self.begin) {
            Some(ret) => {
                self.begin += 1;
                Ok(*ret)
            }
            None => Err(InternalError::InsufficientBytesForRead(1, 0)),
        }
    }
    pub fn read_u16_be(&mut self) -> (r: Result<u16, InternalError>)
        requires old(self).wf()
        ensures final(self).wf(),
            r is Ok <==> old(self)@.len() >= 2,
            r is Ok ==> r->Ok_0 as int == old(self)@[0] as int * 256 + old(self)@[1] as int && final(self)@ == old(self)@.subrange(2, old(self)@.len() as int),
    {
        let b1 = self.read_u8()? as u16;
        let b2 = self.read_u8()? as u16;
        assert((b1 << 8) | b2 == b1 * 256 + b2) by (bit_vector) requires b1 < 256, b2 < 256;
        Ok((b1 << 8) | b2)
    }

    pub async fn read_some(
        &mut self,
        io: &mut PhysLayer,
    ) -> (r: Result<usize, IoError>)
        requires old(self).wf(), old(self)@.len() < 260,
        ensures final(self).wf(),
            r is Ok ==> r->Ok_0 >= 1,
            r is Ok ==> final(self)@.len() == old(self)@.len() + r->Ok_0,
            r is Ok ==> (forall|i: int| 0 <= i < old(self)@.len() ==> #[trigger] final(self)@[i] == old(self)@[i]),
            r is Ok ==> (forall|i: int| 0 <= i < r->Ok_0 ==> #[trigger] final(self)@[old(self)@.len() + i] == old(io).pending[i]),
            r is Ok ==> r->Ok_0 <= old(io).pending.len() && final(io).pending == old(io).pending.subrange(r->Ok_0 as int, old(io).pending.len() as int),
            final(self)@ + final(io).pending =~= old(self)@ + old(io).pending,
            r is Err ==> final(self)@ + final(io).pending =~= old(self)@ + old(io).pending,
    {
        // before we read any data, check to see if the buffer is empty and adjust the indices
        // this allows use to make the biggest read possible, and avoids subsequent buffer shifting later
        if self.is_empty() {
            self.begin = 0;
            self.end = 0;
        }

        // if we've reached capacity, but still need more data we have to shift
        if self.end == self.buffer.len() {
            let length = self.len();
            self.buffer.copy_within(self.begin..self.end, 0);
            self.begin = 0;
            self.end = length;
        }

        let count = io.read(&mut self.buffer[self.end..]).await?;

        if count == 0 {
            return Err(IoError { kind: 0 });
        }
        self.end += count;
        proof { lemma_stream_conserved(old(self)@, old(io).pending, self@, io.pending, count as int); }
        Ok(count)
    }
}


// ---------- frame types (verbatim subset) ----------
#[derive(Clone, Copy)]
pub struct UnitId { pub value: u8 }
impl UnitId { pub fn new(value: u8) -> (r: Self) ensures r.value == value { Self { value } } }

#[derive(PartialEq, Copy, Clone)]
pub struct TxId { pub value: u16 }
impl TxId {
    pub closed spec fn v(&self) -> u16 { self.value }
    pub fn new(value: u16) -> (r: Self) ensures r.v() == value { TxId { value } }
}

#[derive(Copy, Clone)]
pub enum FrameDestination { UnitId(UnitId), Broadcast }

#[derive(Copy, Clone)]
pub struct FrameHeader {
    pub destination: FrameDestination,
    pub tx_id: Option<TxId>,
}
impl FrameHeader {
    pub fn new_tcp_header(unit_id: UnitId, tx_id: TxId) -> (r: Self)
        ensures r.destination == FrameDestination::UnitId(unit_id), r.tx_id == Some(tx_id)
    {
        FrameHeader { destination: FrameDestination::UnitId(unit_id), tx_id: Some(tx_id) }
    }
}

pub struct Frame {
    pub header: FrameHeader,
    pub length: usize,
    pub pdu: [u8; MAX_ADU_LENGTH],
}

impl Frame {
    pub closed spec fn wf(&self) -> bool { self.length <= MAX_ADU_LENGTH }
    pub closed spec fn spec_payload(&self) -> Seq<u8> { self.pdu@.subrange(0, self.length as int) }

    pub fn new(header: FrameHeader) -> (r: Frame)
        ensures r.header == header, r.wf(), r.spec_payload().len() == 0
    {
        Frame { header, length: 0, pdu: [0; MAX_ADU_LENGTH] }
    }

    pub fn set(&mut self, src: &[u8]) -> (r: bool)
        ensures r == (src@.len() <= 253),
            final(self).header == old(self).header,
            r ==> final(self).wf() && final(self).spec_payload().len() == src@.len()
                && (forall|i: int| 0 <= i < src@.len() ==> #[trigger] final(self).spec_payload()[i] == src@[i]),
            !r ==> *final(self) == *old(self),
    {
        if src.len() > self.pdu.len() {
            return false;
        }

        self.pdu[0..src.len()].copy_from_slice(src);
        self.length = src.len();
        true
    }

    pub fn payload(&self) -> (r: &[u8]) requires self.wf() ensures r@ == self.spec_payload() {
        &self.pdu[0..self.length]
    }
}

// ---------- MBAP spec ----------
pub open spec fn be16(s: Seq<u8>, i: int) -> int { s[i] as int * 256 + s[i + 1] as int }

pub enum MbapNext {
    NeedMore,
    Bad(FrameParseError),
    Frame { tx: int, unit: u8, pdu: Seq<u8>, rest: Seq<u8> },
}

pub open spec fn mbap_next(s: Seq<u8>) -> MbapNext {
    if s.len() < 7 { MbapNext::NeedMore }
    else if be16(s, 2) != 0 { MbapNext::Bad(FrameParseError::UnknownProtocolId(be16(s, 2) as u16)) }
    else if be16(s, 4) > 254 { MbapNext::Bad(FrameParseError::FrameLengthTooBig(be16(s, 4) as usize, 254)) }
    else if be16(s, 4) == 0 { MbapNext::Bad(FrameParseError::MbapLengthZero) }
    else if s.len() < 6 + be16(s, 4) { MbapNext::NeedMore }
    else { MbapNext::Frame { tx: be16(s, 0), unit: s[6], pdu: s.subrange(7, 6 + be16(s, 4)), rest: s.subrange(6 + be16(s, 4), s.len() as int) } }
}

#[derive(Clone, Copy)]
pub struct MbapHeader {
    pub tx_id: TxId,
    pub len_field: u16,
    pub unit_id: UnitId,
}

#[derive(Clone, Copy)]
pub enum ParseState {
    Begin,
    // header and the ADU length
    Header(MbapHeader, usize),
}

pub struct MbapParser {
    pub state: ParseState,
}

pub open spec fn enc_header(tx: u16, len: u16, unit: u8) -> Seq<u8> {
    seq![(tx / 256) as u8, (tx % 256) as u8, 0u8, 0u8, (len / 256) as u8, (len % 256) as u8, unit]
}

impl MbapParser {
    pub closed spec fn wf(&self) -> bool {
        match self.state {
            ParseState::Begin => true,
            ParseState::Header(h, n) => 1 <= h.len_field <= 254 && n == h.len_field - 1,
        }
    }
    // the bytes this parser has taken out of the buffer but not yet turned into a frame
    pub closed spec fn held(&self) -> Seq<u8> {
        match self.state {
            ParseState::Begin => Seq::<u8>::empty(),
            ParseState::Header(h, n) => enc_header(h.tx_id.v(), h.len_field, h.unit_id.value),
        }
    }
    pub closed spec fn is_begin(&self) -> bool { self.state is Begin }

    pub fn new() -> (r: Self) ensures r.wf(), r.is_begin() {
        Self { state: ParseState::Begin }
    }

    fn parse_header(cursor: &mut ReadBuffer) -> (r: Result<(MbapHeader, usize), RequestError>)
        requires old(cursor).wf(), old(cursor)@.len() >= 7
        ensures final(cursor).wf(),
            r is Ok <==> (be16(old(cursor)@, 2) == 0 && 1 <= be16(old(cursor)@, 4) <= 254),
            r is Ok ==> r->Ok_0.1 == be16(old(cursor)@, 4) - 1
                && r->Ok_0.0.len_field == be16(old(cursor)@, 4)
                && r->Ok_0.0.tx_id.v() == be16(old(cursor)@, 0)
                && r->Ok_0.0.unit_id.value == old(cursor)@[6]
                && final(cursor)@ == old(cursor)@.subrange(7, old(cursor)@.len() as int),
            r is Err ==> (mbap_next(old(cursor)@) matches MbapNext::Bad(e) && r->Err_0 == RequestError::BadFrame(e)),
    {
        let tx_id = TxId::new(cursor.read_u16_be()?);
        let protocol_id = cursor.read_u16_be()?;
        let len_field = cursor.read_u16_be()?;
        let length = len_field as usize;
        let unit_id = UnitId::new(cursor.read_u8()?);

        if protocol_id != 0 {
            return Err(FrameParseError::UnknownProtocolId(protocol_id).into());
        }

        if length > MAX_LENGTH_FIELD {
            return Err(
                FrameParseError::FrameLengthTooBig(length, MAX_LENGTH_FIELD).into(),
            );
        }

        // The ADU length is the function code + body
        // It must be > 0 b/c the 1-byte unit identifier counts towards length field
        let adu_length = match (length
            .checked_sub(1)
            .ok_or(FrameParseError::MbapLengthZero)) { Ok(v) => v, Err(e) => return Err(From::from(e)) };

        Ok((
            MbapHeader {
                tx_id,
                len_field,
                unit_id,
            },
            adu_length,
        ))
    }

    fn parse_body(
        header: &MbapHeader,
        adu_length: usize,
        cursor: &mut ReadBuffer,
    ) -> (r: Result<Frame, RequestError>)
        requires old(cursor).wf(), adu_length <= 253, old(cursor)@.len() >= adu_length
        ensures final(cursor).wf(), r is Ok,
            r->Ok_0.wf(),
            r->Ok_0.header.tx_id == Some(header.tx_id),
            r->Ok_0.header.destination == FrameDestination::UnitId(header.unit_id),
            r->Ok_0.spec_payload() =~= old(cursor)@.subrange(0, adu_length as int),
            final(cursor)@ == old(cursor)@.subrange(adu_length as int, old(cursor)@.len() as int),
    {
        let mut frame = Frame::new(FrameHeader::new_tcp_header(header.unit_id, header.tx_id));
        frame.set(cursor.read(adu_length)?);
        Ok(frame)
    }

    pub fn parse(
        &mut self,
        cursor: &mut ReadBuffer,
    ) -> (r: Result<Option<Frame>, RequestError>)
        requires old(self).wf(), old(cursor).wf()
        ensures final(cursor).wf(), final(self).wf(),
            // functional in the logical stream  held ++ buffered
            match mbap_next(old(self).held() + old(cursor)@) {
                MbapNext::NeedMore => r == Ok::<Option<Frame>, RequestError>(None)
                    && final(self).held() + final(cursor)@ =~= old(self).held() + old(cursor)@
                    && final(cursor)@.len() < 260,
                MbapNext::Bad(e) => r == Err::<Option<Frame>, RequestError>(RequestError::BadFrame(e)),
                MbapNext::Frame { tx, unit, pdu, rest } => r is Ok && r->Ok_0 is Some
                    && r->Ok_0->Some_0.wf()
                    && r->Ok_0->Some_0.spec_payload() =~= pdu
                    && r->Ok_0->Some_0.header.tx_id is Some && r->Ok_0->Some_0.header.tx_id->Some_0.v() == tx
                    && r->Ok_0->Some_0.header.destination == FrameDestination::UnitId(UnitId { value: unit })
                    && final(self).is_begin()
                    && final(cursor)@ =~= rest,
            },
    {
        loop
            invariant self.wf(), cursor.wf(),
                self.held() + cursor@ =~= old(self).held() + old(cursor)@,
            decreases (if self.state is Begin { 1int } else { 0int }),
        {
            match self.state {
                ParseState::Header(header, adu_length) => {
                    if cursor.len() < adu_length {
                        return Ok(None);
                    }

                    let frame = Self::parse_body(&header, adu_length, cursor)?;
                    self.state = ParseState::Begin;

                    return Ok(Some(frame));
                }
                ParseState::Begin => {
                    if cursor.len() < HEADER_LENGTH {
                        return Ok(None);
                    }

                    let (header, adu_len) = Self::parse_header(cursor)?;
                    self.state = ParseState::Header(header, adu_len);
                }
            }
        }
    }

    pub fn reset(&mut self) ensures final(self).is_begin(), final(self).wf() {
        self.state = ParseState::Begin;
    }
}


// ---------- prefix stability (pure lemma) ----------
pub proof fn lemma_mbap_prefix_stable(s: Seq<u8>, t: Seq<u8>)
    ensures
        mbap_next(s) matches MbapNext::Bad(e) ==> mbap_next(s + t) == MbapNext::Bad(e),
        mbap_next(s) matches MbapNext::Frame { tx, unit, pdu, rest } ==>
            mbap_next(s + t) == (MbapNext::Frame { tx, unit, pdu, rest: rest + t }),
{
    if s.len() >= 7 {
        assert(forall|i: int| 0 <= i < s.len() ==> (s + t)[i] == s[i]);
        if mbap_next(s) is Frame {
            let n = 6 + be16(s, 4);
            assert((s + t).subrange(7, n) =~= s.subrange(7, n));
            assert((s + t).subrange(n, (s + t).len() as int) =~= s.subrange(n, s.len() as int) + t);
        }
    }
}

pub enum FrameParser { Tcp(MbapParser) }

impl FrameParser {
    pub open spec fn wf(&self) -> bool { match self { FrameParser::Tcp(x) => x.wf() } }
    pub open spec fn held(&self) -> Seq<u8> { match self { FrameParser::Tcp(x) => x.held() } }
    pub open spec fn is_begin(&self) -> bool { match self { FrameParser::Tcp(x) => x.is_begin() } }

    pub fn parse(&mut self, cursor: &mut ReadBuffer) -> (r: Result<Option<Frame>, RequestError>)
        requires old(self).wf(), old(cursor).wf()
        ensures final(cursor).wf(), final(self).wf(),
            match mbap_next(old(self).held() + old(cursor)@) {
                MbapNext::NeedMore => r == Ok::<Option<Frame>, RequestError>(None)
                    && final(self).held() + final(cursor)@ =~= old(self).held() + old(cursor)@
                    && final(cursor)@.len() < 260,
                MbapNext::Bad(e) => r == Err::<Option<Frame>, RequestError>(RequestError::BadFrame(e)),
                MbapNext::Frame { tx, unit, pdu, rest } => r is Ok && r->Ok_0 is Some
                    && r->Ok_0->Some_0.wf()
                    && r->Ok_0->Some_0.spec_payload() =~= pdu
                    && r->Ok_0->Some_0.header.tx_id is Some && r->Ok_0->Some_0.header.tx_id->Some_0.v() == tx
                    && r->Ok_0->Some_0.header.destination == FrameDestination::UnitId(UnitId { value: unit })
                    && final(self).is_begin()
                    && final(cursor)@ =~= rest,
            },
    {
        match self {
            FrameParser::Tcp(x) => x.parse(cursor),
        }
    }

    pub fn reset(&mut self) ensures final(self).wf(), final(self).is_begin() {
        match self {
            FrameParser::Tcp(x) => x.reset(),
        }
    }
}

pub struct FramedReader {
    pub parser: FrameParser,
    pub buffer: ReadBuffer,
}

impl FramedReader {
    pub open spec fn wf(&self) -> bool { self.parser.wf() && self.buffer.wf() }
    pub open spec fn logical(&self) -> Seq<u8> { self.parser.held() + self.buffer@ }

    #[verifier::exec_allows_no_decreases_clause]
    pub async fn next_frame(
        &mut self,
        io: &mut PhysLayer,
    ) -> (r: Result<Frame, RequestError>)
        requires old(self).wf()
        ensures final(self).wf(),
            r is Ok ==> (mbap_next(old(self).logical() + old(io).pending) matches MbapNext::Frame { tx, unit, pdu, rest }
                && r->Ok_0.wf() && r->Ok_0.spec_payload() =~= pdu
                && r->Ok_0.header.tx_id is Some && r->Ok_0.header.tx_id->Some_0.v() == tx
                && r->Ok_0.header.destination == FrameDestination::UnitId(UnitId { value: unit })
                && final(self).logical() + final(io).pending =~= rest),
            r matches Err(RequestError::BadFrame(e)) ==> mbap_next(old(self).logical() + old(io).pending) == MbapNext::Bad(e),
            r matches Err(RequestError::Io(k)) ==> final(self).logical() + final(io).pending =~= old(self).logical() + old(io).pending,
            !(r matches Err(RequestError::Internal(_))),
    {
        loop
            invariant self.wf(),
                self.logical() + io.pending =~= old(self).logical() + old(io).pending,
        {
            broadcast use crate::lemmas::lemma_add_assoc;
            proof { lemma_mbap_prefix_stable(self.logical(), io.pending); }
            match self.parser.parse(&mut self.buffer) {
                Ok(Some(frame)) => return Ok(frame),
                Ok(None) => {
                    match self.buffer.read_some(io).await { Ok(v) => v, Err(e) => return Err(From::from(e)) };
                }
                Err(err) => {
                    self.parser.reset();
                    return Err(err);
                }
            }
        }
    }
}

} // verus!
fn main() {}
