//@append rodbus/src/server/address_filter.rs
// Kani harnesses for the address filter (C16)
#[cfg(kani)]
pub(crate) mod verif_kani {
    use super::*;
    use std::net::{IpAddr, Ipv4Addr, Ipv6Addr};

    fn any_wildcard() -> WildcardIPv4 {
        WildcardIPv4 { b3: kani::any(), b2: kani::any(), b1: kani::any(), b0: kani::any() }
    }

    /// complete: every IPv4 address x every wildcard: a field matches iff it is '*' or equal to the octet
    #[kani::proof]
    pub(crate) fn k_wildcard_matches_v4() {
        let wc = any_wildcard();
        let o: [u8; 4] = kani::any();
        let addr = IpAddr::V4(Ipv4Addr::new(o[0], o[1], o[2], o[3]));
        let f = |w: Option<u8>, b: u8| match w { None => true, Some(x) => x == b };
        let expect = f(wc.b3, o[0]) && f(wc.b2, o[1]) && f(wc.b1, o[2]) && f(wc.b0, o[3]);
        assert!(wc.matches(addr) == expect);
        assert!(AddressFilter::WildcardIpv4(wc).matches(addr) == expect);
    }

    /// complete: an IPv6 peer never matches a wildcard; `Any` matches everything; `Exact` is equality
    #[kani::proof]
    pub(crate) fn k_filter_other_variants() {
        let wc = any_wildcard();
        let s: [u16; 8] = kani::any();
        let v6 = IpAddr::V6(Ipv6Addr::new(s[0], s[1], s[2], s[3], s[4], s[5], s[6], s[7]));
        assert!(!wc.matches(v6));
        assert!(AddressFilter::Any.matches(v6));
        let o: [u8; 4] = kani::any();
        let p: [u8; 4] = kani::any();
        let a = IpAddr::V4(Ipv4Addr::new(o[0], o[1], o[2], o[3]));
        let b = IpAddr::V4(Ipv4Addr::new(p[0], p[1], p[2], p[3]));
        assert!(AddressFilter::Any.matches(a));
        assert!(AddressFilter::Exact(a).matches(b) == (o == p));
        assert!(!AddressFilter::Exact(a).matches(v6));
    }

    // every field is acceptable: isolates the structure of the parser (how many fields it demands) from number parsing
    fn get_byte_any_field(_value: &str) -> Result<Option<u8>, BadIpv4Wildcard> { Ok(None) }

    /// bounded: all byte strings of '.' and 'x' up to 4 bytes ("..." has four empty fields, "...." five), with `get_byte` stubbed to accept every field: the parser accepts
    /// exactly the strings with four fields (three separators)
    #[kani::proof]
    #[kani::unwind(6)]
    #[kani::stub(get_byte, get_byte_any_field)]
    pub(crate) fn k_wildcard_field_count() {
        const N: usize = 4;
        let pick: [bool; N] = kani::any();
        let len: usize = kani::any();
        kani::assume(len <= N);
        let mut bytes = [b'x'; N];
        let mut dots = 0usize;
        let mut i = 0;
        while i < N { if pick[i] { bytes[i] = b'.'; if i < len { dots += 1; } } i += 1; }
        let s = match std::str::from_utf8(&bytes[..len]) { Ok(s) => s, Err(_) => return };
        let got: Result<WildcardIPv4, BadIpv4Wildcard> = s.parse();
        assert!(got.is_ok() == (dots == 3));
    }
}
