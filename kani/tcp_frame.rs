//@append rodbus/src/tcp/frame.rs
// Kani harnesses for rodbus/src/tcp/frame.rs on the real code (real ReadBuffer)
#[cfg(kani)]
pub(crate) mod verif_kani {
    use super::*;
    use crate::common::frame::FrameDestination;

    /// complete for the header decision: every 7-byte MBAP header followed by 3 body bytes (all 2^80 inputs).
    /// The parser accepts exactly protocol id 0 with 1 <= length <= 254; the ADU it waits for / delivers has length - 1 bytes,
    /// taken from right behind the header, with the transaction id and unit id of the header.
    #[kani::proof]
    #[kani::unwind(6)]
    pub(crate) fn k_mbap_header() {
        let bytes: [u8; 10] = kani::any();
        let mut buffer = ReadBuffer::new();
        buffer.verif_fill(&bytes);
        let mut parser = MbapParser::new();
        let r = parser.parse(&mut buffer, FrameDecodeLevel::Nothing);
        let pid = ((bytes[2] as u16) << 8) | bytes[3] as u16;
        let len = ((bytes[4] as usize) << 8) | bytes[5] as usize;
        if pid != 0 || len == 0 || len > 254 {
            assert!(r.is_err());
        } else if len - 1 > 3 {
            // more body bytes are needed than were supplied: the parser waits
            assert!(matches!(r, Ok(None)));
        } else {
            match r {
                Ok(Some(frame)) => {
                    assert!(frame.payload().len() == len - 1);
                    if len >= 2 { assert!(frame.payload()[0] == bytes[7]); }
                    if len >= 4 { assert!(frame.payload()[2] == bytes[9]); }
                    assert!(frame.header.tx_id == Some(TxId::new(((bytes[0] as u16) << 8) | bytes[1] as u16)));
                    match frame.header.destination {
                        FrameDestination::UnitId(u) => assert!(u.value == bytes[6]),
                        FrameDestination::Broadcast => panic!("MBAP never yields a broadcast destination"),
                    }
                }
                _ => panic!("a complete frame must be delivered"),
            }
        }
    }
}
