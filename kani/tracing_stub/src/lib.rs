//! no-op stand-in for the `tracing` crate, used only inside Kani scratch workspaces
//! (any path that reaches a real `tracing::…!` macro makes Kani 0.68 ICE).
//! The macros evaluate nothing and ignore their tokens.
#[macro_export]
macro_rules! __noop { ($($t:tt)*) => { () } }
#[macro_export]
macro_rules! info { ($($t:tt)*) => { $crate::__noop!($($t)*) } }
#[macro_export]
macro_rules! warn { ($($t:tt)*) => { $crate::__noop!($($t)*) } }
#[macro_export]
macro_rules! error { ($($t:tt)*) => { $crate::__noop!($($t)*) } }
#[macro_export]
macro_rules! debug { ($($t:tt)*) => { $crate::__noop!($($t)*) } }
#[macro_export]
macro_rules! trace { ($($t:tt)*) => { $crate::__noop!($($t)*) } }
#[macro_export]
macro_rules! info_span { ($($t:tt)*) => { $crate::Span } }

#[derive(Clone, Copy)]
pub struct Span;

pub trait Instrument: Sized {
    fn instrument(self, _span: Span) -> Self { self }
}
impl<T: Sized> Instrument for T {}
