//@append rodbus/src/serial/frame.rs
// Kani harnesses for rodbus/src/serial/frame.rs on the real code (real ReadBuffer, real crc crate)
#[cfg(kani)]
pub(crate) mod verif_kani {
    use super::*;

    /// bounded (all 2^64 frames of 8 bytes = every request with a fixed 4-byte body, FC 1..=6): a frame is produced only if the
    /// little-endian trailer equals the CRC-16/MODBUS of address + PDU, and then it carries exactly that PDU and destination
    #[kani::proof]
    #[kani::unwind(10)]
    pub(crate) fn k_rtu_request_crc() {
        let bytes: [u8; 8] = kani::any();
        kani::assume(bytes[1] >= 1 && bytes[1] <= 6);
        let mut buffer = ReadBuffer::new();
        buffer.verif_fill(&bytes);
        let mut parser = RtuParser::new_request_parser();
        let r = parser.parse(&mut buffer, FrameDecodeLevel::Nothing);
        let crc = CRC.checksum(&bytes[..6]);
        let trailer = bytes[6] as u16 | ((bytes[7] as u16) << 8);
        match r {
            Ok(Some(frame)) => {
                assert!(trailer == crc);
                assert!(frame.payload().len() == 5);
                assert!(frame.payload()[0] == bytes[1] && frame.payload()[4] == bytes[5]);
                match frame.header.destination {
                    FrameDestination::Broadcast => assert!(bytes[0] == 0),
                    FrameDestination::UnitId(u) => assert!(u.value == bytes[0] && bytes[0] != 0),
                }
            }
            Ok(None) => panic!("a complete frame must be decided"),
            Err(_) => assert!(trailer != crc),
        }
    }

    /// bounded (quick tier): one fixed request (2A 06 00 10 12 34) with EVERY possible 16-bit trailer: exactly one trailer is accepted
    #[kani::proof]
    #[kani::unwind(10)]
    pub(crate) fn k_rtu_request_crc_trailer() {
        let lo: u8 = kani::any();
        let hi: u8 = kani::any();
        let bytes: [u8; 8] = [0x2A, 0x06, 0x00, 0x10, 0x12, 0x34, lo, hi];
        let mut buffer = ReadBuffer::new();
        buffer.verif_fill(&bytes);
        let mut parser = RtuParser::new_request_parser();
        let r = parser.parse(&mut buffer, FrameDecodeLevel::Nothing);
        let crc = CRC.checksum(&bytes[..6]);
        let trailer = lo as u16 | ((hi as u16) << 8);
        match r {
            Ok(Some(frame)) => { assert!(trailer == crc); assert!(frame.payload().len() == 5); }
            Ok(None) => panic!("a complete frame must be decided"),
            Err(_) => assert!(trailer != crc),
        }
    }
    /// complete for this request shape: a read request formatted for RTU (any valid range, any unit id, every decode level) is
    /// address, function code, start, quantity and the CRC-16/MODBUS of those six bytes, low byte first
    #[kani::proof]
    #[kani::unwind(10)]
    pub(crate) fn k_format_request_rtu() {
        let start: u16 = kani::any();
        let count: u16 = kani::any();
        kani::assume(count >= 1 && start as u32 + count as u32 <= 65536);
        let range = crate::types::AddressRange::try_from(start, count).unwrap();
        let unit: u8 = kani::any();
        let header = FrameHeader::new_rtu_header(FrameDestination::UnitId(UnitId::new(unit)));
        let mut writer = crate::common::frame::FrameWriter::rtu();
        let level = crate::common::frame::verif_kani::any_level();
        let bytes = writer.format_request(header, crate::common::function::FunctionCode::ReadCoils, &range, level).unwrap();
        assert!(bytes.len() == 8);
        assert!(bytes[0] == unit && bytes[1] == 0x01);
        assert!(bytes[2] == (start >> 8) as u8 && bytes[3] == start as u8);
        assert!(bytes[4] == (count >> 8) as u8 && bytes[5] == count as u8);
        let crc = CRC.checksum(&bytes[..6]);
        assert!(bytes[6] == crc as u8 && bytes[7] == (crc >> 8) as u8);
    }
}
