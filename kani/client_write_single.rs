//@append rodbus/src/client/requests/write_single.rs
// Kani harnesses for the client-side decoding of write-single echoes (real scursor; loop-free => complete)
#[cfg(kani)]
pub(crate) mod verif_kani {
    use super::*;

    /// complete (all 2^32 four-byte echo bodies): a coil echo is decoded only when its state word is 0xFF00 (ON) or 0x0000 (OFF) -
    /// every other word is an error -, a register echo always; index and value are the big-endian words of the body
    #[kani::proof]
    pub(crate) fn k_single_write_echo_parse() {
        let body: [u8; 4] = kani::any();
        let index = (body[0] as u16) << 8 | body[1] as u16;
        let word = (body[2] as u16) << 8 | body[3] as u16;
        let mut c1 = ReadCursor::new(&body);
        match <Indexed<bool> as SingleWriteOperation>::parse(&mut c1) {
            Ok(x) => {
                assert!(word == 0xFF00 || word == 0x0000);
                assert!(x.index == index && x.value == (word == 0xFF00));
                assert!(c1.is_empty());
            }
            Err(_) => assert!(word != 0xFF00 && word != 0x0000),
        }
        let mut c2 = ReadCursor::new(&body);
        let y = <Indexed<u16> as SingleWriteOperation>::parse(&mut c2).unwrap();
        assert!(y.index == index && y.value == word && c2.is_empty());
    }
}
