//@append rodbus/src/common/serialize.rs
// Kani harnesses for the slice serializers (Verus uses only their contracts)
#[cfg(kani)]
pub(crate) mod verif_kani {
    use super::*;

    /// bounded: every &[u16] of length 0..=8, buffer of 32 bytes: byte count 2n, then the registers big-endian
    #[kani::proof]
    #[kani::unwind(10)]
    pub(crate) fn k_serialize_u16_slice() {
        let vals: [u16; 8] = kani::any();
        let n: usize = kani::any();
        kani::assume(n <= 8);
        let mut buf = [0u8; 32];
        let pos = {
            let mut cursor = WriteCursor::new(&mut buf);
            let s: &[u16] = &vals[..n];
            s.serialize(&mut cursor).unwrap();
            cursor.position()
        };
        assert!(pos == 1 + 2 * n);
        assert!(buf[0] as usize == 2 * n);
        let i: usize = kani::any();
        kani::assume(i < n);
        assert!(buf[1 + 2 * i] as u16 * 256 + buf[2 + 2 * i] as u16 == vals[i]);
    }

    /// bounded: every &[bool] of length 0..=20: byte count ceil(n/8), coils packed LSB-first, padding bits zero
    #[kani::proof]
    #[kani::unwind(22)]
    pub(crate) fn k_serialize_bool_slice() {
        let vals: [bool; 20] = kani::any();
        let n: usize = kani::any();
        kani::assume(n <= 20);
        let mut buf = [0u8; 8];
        let pos = {
            let mut cursor = WriteCursor::new(&mut buf);
            let s: &[bool] = &vals[..n];
            s.serialize(&mut cursor).unwrap();
            cursor.position()
        };
        let nbytes = (n + 7) / 8;
        assert!(pos == 1 + nbytes);
        assert!(buf[0] as usize == nbytes);
        let i: usize = kani::any();
        kani::assume(i < 8 * nbytes);
        let bit = (buf[1 + i / 8] >> (i % 8)) & 1 == 1;
        if i < n { assert!(bit == vals[i]); } else { assert!(!bit); }
    }

    /// bounded (quick tier): every &[bool] of exactly 17 coils (three data bytes, one partial)
    #[kani::proof]
    #[kani::unwind(19)]
    pub(crate) fn k_serialize_bool_slice_17() {
        let vals: [bool; 17] = kani::any();
        let mut buf = [0u8; 8];
        let pos = {
            let mut cursor = WriteCursor::new(&mut buf);
            let s: &[bool] = &vals[..];
            s.serialize(&mut cursor).unwrap();
            cursor.position()
        };
        assert!(pos == 4);
        assert!(buf[0] == 3);
        let i: usize = kani::any();
        kani::assume(i < 24);
        let bit = (buf[1 + i / 8] >> (i % 8)) & 1 == 1;
        if i < 17 { assert!(bit == vals[i]); } else { assert!(!bit); }
    }
    /// bounded (quick tier): the reply to a bit read of exactly 17 points (three data bytes, one partial), every handler answer pattern,
    /// any start address that keeps the range valid: byte count, then the handler's values packed LSB-first, padding bits zero
    #[kani::proof]
    #[kani::unwind(19)]
    pub(crate) fn k_bit_writer_17() {
        let vals: [bool; 17] = kani::any();
        let start: u16 = kani::any();
        kani::assume(start as u32 + 17 <= 65536);
        let range = crate::types::AddressRange::try_from(start, 17).unwrap().of_read_bits().unwrap();
        let writer = crate::server::response::BitWriter::new(range, |a: u16| Ok(vals[(a - start) as usize]));
        let mut buf = [0u8; 8];
        let pos = {
            let mut cursor = WriteCursor::new(&mut buf);
            writer.serialize(&mut cursor).unwrap();
            cursor.position()
        };
        assert!(pos == 4);
        assert!(buf[0] == 3);
        let i: usize = kani::any();
        kani::assume(i < 24);
        let bit = (buf[1 + i / 8] >> (i % 8)) & 1 == 1;
        if i < 17 { assert!(bit == vals[i]); } else { assert!(!bit); }
    }

    /// bounded (quick tier): the reply to a register read of exactly 3 registers: byte count, then the handler's values big-endian
    #[kani::proof]
    #[kani::unwind(5)]
    pub(crate) fn k_register_writer_3() {
        let vals: [u16; 3] = kani::any();
        let start: u16 = kani::any();
        kani::assume(start as u32 + 3 <= 65536);
        let range = crate::types::AddressRange::try_from(start, 3).unwrap().of_read_registers().unwrap();
        let writer = crate::server::response::RegisterWriter::new(range, |a: u16| Ok(vals[(a - start) as usize]));
        let mut buf = [0u8; 8];
        let pos = {
            let mut cursor = WriteCursor::new(&mut buf);
            writer.serialize(&mut cursor).unwrap();
            cursor.position()
        };
        assert!(pos == 7);
        assert!(buf[0] == 6);
        let i: usize = kani::any();
        kani::assume(i < 3);
        assert!(((buf[1 + 2 * i] as u16) << 8 | buf[2 + 2 * i] as u16) == vals[i]);
    }
}
