//@append rodbus/src/server/task.rs
// Kani harness for the authorization dispatch (real Request::parse, real AuthorizationType)
#[cfg(kani)]
pub(crate) mod verif_kani {
    use super::*;
    use crate::server::handler::{Authorization, AuthorizationHandler};
    use crate::types::AddressRange;

    /// allows exactly one (callback kind, unit id, start-or-index, count) combination and denies everything else
    struct Expect { kind: u8, unit: u8, a: u16, b: u16 }
    impl Expect {
        fn range(&self, kind: u8, unit: UnitId, r: AddressRange) -> Authorization {
            if kind == self.kind && unit.value == self.unit && r.start == self.a && r.count == self.b { Authorization::Allow } else { Authorization::Deny }
        }
        fn index(&self, kind: u8, unit: UnitId, i: u16) -> Authorization {
            if kind == self.kind && unit.value == self.unit && i == self.a { Authorization::Allow } else { Authorization::Deny }
        }
    }
    impl AuthorizationHandler for Expect {
        fn read_coils(&self, u: UnitId, r: AddressRange, _role: &str) -> Authorization { self.range(1, u, r) }
        fn read_discrete_inputs(&self, u: UnitId, r: AddressRange, _role: &str) -> Authorization { self.range(2, u, r) }
        fn read_holding_registers(&self, u: UnitId, r: AddressRange, _role: &str) -> Authorization { self.range(3, u, r) }
        fn read_input_registers(&self, u: UnitId, r: AddressRange, _role: &str) -> Authorization { self.range(4, u, r) }
        fn write_single_coil(&self, u: UnitId, i: u16, _role: &str) -> Authorization { self.index(5, u, i) }
        fn write_single_register(&self, u: UnitId, i: u16, _role: &str) -> Authorization { self.index(6, u, i) }
        fn write_multiple_coils(&self, u: UnitId, r: AddressRange, _role: &str) -> Authorization { self.range(15, u, r) }
        fn write_multiple_registers(&self, u: UnitId, r: AddressRange, _role: &str) -> Authorization { self.range(16, u, r) }
    }

    /// bounded (function codes 1..=6 with every 4-byte body; 15 and 16 with quantity 1): the decision asked of the handler is the
    /// callback of the request's own kind with the frame's unit id and the request's range / index: the handler that allows exactly
    /// that combination allows the request, and a handler that expects any other kind, unit, address or count denies it
    #[kani::proof]
    #[kani::unwind(8)]
    pub(crate) fn k_check_authorization() {
        let fcv: u8 = kani::any();
        kani::assume((fcv >= 1 && fcv <= 6) || fcv == 15 || fcv == 16);
        let fc = FunctionCode::get(fcv).unwrap();
        let body7: [u8; 7] = kani::any();
        let n = if fcv <= 6 { 4 } else if fcv == 15 { 6 } else { 7 };
        let mut body = body7;
        if fcv == 15 { body[2] = 0; body[3] = 1; body[4] = 1; }
        if fcv == 16 { body[2] = 0; body[3] = 1; body[4] = 2; }
        let mut cursor = scursor::ReadCursor::new(&body[..n]);
        let request = match Request::parse(fc, &mut cursor) { Ok(r) => r, Err(_) => return };
        let unit: u8 = kani::any();
        let a = (body[0] as u16) << 8 | body[1] as u16;
        let b = (body[2] as u16) << 8 | body[3] as u16;
        let good = Expect { kind: fcv, unit, a, b };
        assert!(matches!(AuthorizationType::check_authorization(&good, UnitId::new(unit), &request, "role"), Authorization::Allow));
        let other = Expect { kind: kani::any(), unit: kani::any(), a: kani::any(), b: kani::any() };
        let single = fcv == 5 || fcv == 6;
        kani::assume(other.kind != fcv || other.unit != unit || other.a != a || (!single && other.b != b));
        assert!(matches!(AuthorizationType::check_authorization(&other, UnitId::new(unit), &request, "role"), Authorization::Deny));
    }
}
