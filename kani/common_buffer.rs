//@append rodbus/src/common/buffer.rs
// helper for Kani harnesses: fill a ReadBuffer directly (private fields are reachable from inside the file)
#[cfg(kani)]
impl ReadBuffer {
    pub(crate) fn verif_fill(&mut self, bytes: &[u8]) {
        let n = bytes.len();
        self.buffer[..n].copy_from_slice(bytes);
        self.begin = 0;
        self.end = n;
    }
}
