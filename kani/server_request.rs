//@append rodbus/src/server/request.rs
// Kani harnesses for rodbus/src/server/request.rs (real scursor, real parse helpers; loop-free => complete)
#[cfg(kani)]
pub(crate) mod verif_kani {
    use super::*;

    fn be16(b: &[u8], i: usize) -> u32 { (b[i] as u32) * 256 + b[i + 1] as u32 }

    /// reference decoder (executable transcription of the property text): is this body a well-formed, in-limit request?
    fn spec_accepts(fc: FunctionCode, body: &[u8]) -> bool {
        let n = body.len();
        match fc {
            FunctionCode::ReadCoils | FunctionCode::ReadDiscreteInputs => {
                n == 4 && be16(body, 2) != 0 && be16(body, 0) + be16(body, 2) <= 65536 && be16(body, 2) <= 2000
            }
            FunctionCode::ReadHoldingRegisters | FunctionCode::ReadInputRegisters => {
                n == 4 && be16(body, 2) != 0 && be16(body, 0) + be16(body, 2) <= 65536 && be16(body, 2) <= 125
            }
            FunctionCode::WriteSingleCoil => n == 4 && (be16(body, 2) == 0xFF00 || be16(body, 2) == 0),
            FunctionCode::WriteSingleRegister => n == 4,
            FunctionCode::WriteMultipleCoils => {
                n >= 5 && be16(body, 2) != 0 && be16(body, 0) + be16(body, 2) <= 65536 && be16(body, 2) <= 1968
                    && n as u32 == 5 + (be16(body, 2) + 7) / 8
            }
            FunctionCode::WriteMultipleRegisters => {
                n >= 5 && be16(body, 2) != 0 && be16(body, 0) + be16(body, 2) <= 65536 && be16(body, 2) <= 123
                    && n as u32 == 5 + 2 * be16(body, 2)
            }
        }
    }

    fn any_fc() -> FunctionCode {
        let v: u8 = kani::any();
        match FunctionCode::get(v) {
            Some(f) => f,
            None => { kani::assume(false); unreachable!() }
        }
    }

    /// complete: all 8 function codes x every body of 0..=252 symbolic bytes (symbolic length):
    /// parse succeeds iff the reference decoder accepts, and the decoded header fields are those of the body
    #[kani::proof]
    pub(crate) fn k_request_parse() {
        let bytes: [u8; 252] = kani::any();
        let len: usize = kani::any();
        kani::assume(len <= 252);
        let body = &bytes[..len];
        let fc = any_fc();
        let mut cursor = ReadCursor::new(body);
        let r = Request::parse(fc, &mut cursor);
        let expect = spec_accepts(fc, body);
        match r {
            Ok(req) => {
                assert!(expect);
                assert!(req.get_function() == fc);
                match req {
                    Request::ReadCoils(x) | Request::ReadDiscreteInputs(x) => {
                        assert!(x.inner.start as u32 == be16(body, 0) && x.inner.count as u32 == be16(body, 2));
                    }
                    Request::ReadHoldingRegisters(x) | Request::ReadInputRegisters(x) => {
                        assert!(x.inner.start as u32 == be16(body, 0) && x.inner.count as u32 == be16(body, 2));
                    }
                    Request::WriteSingleCoil(x) => {
                        assert!(x.index as u32 == be16(body, 0) && x.value == (be16(body, 2) == 0xFF00));
                    }
                    Request::WriteSingleRegister(x) => {
                        assert!(x.index as u32 == be16(body, 0) && x.value as u32 == be16(body, 2));
                    }
                    Request::WriteMultipleCoils(x) => {
                        assert!(x.range.start as u32 == be16(body, 0) && x.range.count as u32 == be16(body, 2));
                        assert!(x.iterator.len() == x.range.count as usize);
                    }
                    Request::WriteMultipleRegisters(x) => {
                        assert!(x.range.start as u32 == be16(body, 0) && x.range.count as u32 == be16(body, 2));
                        assert!(x.iterator.len() == x.range.count as usize);
                    }
                }
            }
            Err(_) => assert!(!expect),
        }
    }
    /// a handler that records what it is asked to do (two holding registers at 7 and 8, answers an exception elsewhere)
    struct Recorder { regs: [u16; 2], ex: u8, writes: u8, last: Option<Indexed<u16>>, reads: u8 }
    impl RequestHandler for Recorder {
        fn read_holding_register(&self, address: u16) -> Result<u16, ExceptionCode> {
            if address == 7 || address == 8 { Ok(self.regs[(address - 7) as usize]) } else { Err(ExceptionCode::IllegalDataAddress) }
        }
        fn write_single_register(&mut self, value: Indexed<u16>) -> Result<(), ExceptionCode> {
            self.writes += 1;
            self.last = Some(value);
            if self.ex == 0 { Ok(()) } else { Err(ExceptionCode::from(self.ex)) }
        }
    }

    /// bounded end-to-end (one request kind each, every body, every handler answer, every decode level): a parsed write-single-register
    /// request invokes the handler exactly once with the decoded index / value and is answered with the echo, or with the handler's
    /// exception; a read of registers 7..8 is answered with the handler's two values big-endian
    #[kani::proof]
    #[kani::unwind(8)]
    pub(crate) fn k_server_write_single_and_read_registers() {
        let level = crate::common::frame::verif_kani::any_level();
        let tx: u16 = kani::any();
        let unit: u8 = kani::any();
        let header = FrameHeader::new_tcp_header(UnitId::new(unit), crate::common::frame::TxId::new(tx));
        let mut handler = Recorder { regs: kani::any(), ex: kani::any(), writes: 0, last: None, reads: 0 };
        let mut writer = FrameWriter::tcp();
        if kani::any() {
            let body: [u8; 4] = kani::any();
            let mut cursor = ReadCursor::new(&body);
            let request = Request::parse(FunctionCode::WriteSingleRegister, &mut cursor).unwrap();
            let reply = request.get_reply(header, &mut handler, &mut writer, level).unwrap();
            assert!(reply[6] == unit && reply[0] == (tx >> 8) as u8 && reply[1] == tx as u8 && reply[2] == 0 && reply[3] == 0);
            if handler.ex == 0 {
                assert!(reply.len() == 12 && reply[5] == 6 && reply[7] == 0x06);
                assert!(reply[8] == body[0] && reply[9] == body[1] && reply[10] == body[2] && reply[11] == body[3]);
            } else {
                assert!(reply.len() == 9 && reply[5] == 3 && reply[7] == 0x86 && reply[8] == u8::from(ExceptionCode::from(handler.ex)));
            }
            assert!(handler.writes == 1);
            let v = handler.last.unwrap();
            assert!(v.index == ((body[0] as u16) << 8 | body[1] as u16) && v.value == ((body[2] as u16) << 8 | body[3] as u16));
        } else {
            let body: [u8; 4] = [0, 7, 0, 2];
            let mut cursor = ReadCursor::new(&body);
            let request = Request::parse(FunctionCode::ReadHoldingRegisters, &mut cursor).unwrap();
            let reply = request.get_reply(header, &mut handler, &mut writer, level).unwrap();
            assert!(reply.len() == 13 && reply[5] == 7 && reply[6] == unit && reply[7] == 0x03 && reply[8] == 4);
            assert!(reply[9] == (handler.regs[0] >> 8) as u8 && reply[10] == handler.regs[0] as u8);
            assert!(reply[11] == (handler.regs[1] >> 8) as u8 && reply[12] == handler.regs[1] as u8);
            assert!(handler.writes == 0);
        }
    }
}
