//@append rodbus/src/server/request.rs
// Kani harnesses for rodbus/src/server/request.rs (real scursor, real parse helpers; loop-free => complete)
#[cfg(kani)]
pub(crate) mod verif_kani {
    use super::*;

    fn be16(b: &[u8], i: usize) -> u32 { (b[i] as u32) * 256 + b[i + 1] as u32 }

    /// reference decoder (executable transcription of the property text): is this body a well-formed, in-limit request?
    fn spec_accepts(fc: FunctionCode, body: &[u8]) -> bool {
        let n = body.len();
        match fc {
            FunctionCode::ReadCoils | FunctionCode::ReadDiscreteInputs => {
                n == 4 && be16(body, 2) != 0 && be16(body, 0) + be16(body, 2) <= 65536 && be16(body, 2) <= 2000
            }
            FunctionCode::ReadHoldingRegisters | FunctionCode::ReadInputRegisters => {
                n == 4 && be16(body, 2) != 0 && be16(body, 0) + be16(body, 2) <= 65536 && be16(body, 2) <= 125
            }
            FunctionCode::WriteSingleCoil => n == 4 && (be16(body, 2) == 0xFF00 || be16(body, 2) == 0),
            FunctionCode::WriteSingleRegister => n == 4,
            FunctionCode::WriteMultipleCoils => {
                n >= 5 && be16(body, 2) != 0 && be16(body, 0) + be16(body, 2) <= 65536 && be16(body, 2) <= 1968
                    && n as u32 == 5 + (be16(body, 2) + 7) / 8
            }
            FunctionCode::WriteMultipleRegisters => {
                n >= 5 && be16(body, 2) != 0 && be16(body, 0) + be16(body, 2) <= 65536 && be16(body, 2) <= 123
                    && n as u32 == 5 + 2 * be16(body, 2)
            }
        }
    }

    fn any_fc() -> FunctionCode {
        let v: u8 = kani::any();
        match FunctionCode::get(v) {
            Some(f) => f,
            None => { kani::assume(false); unreachable!() }
        }
    }

    /// complete: all 8 function codes x every body of 0..=252 symbolic bytes (symbolic length):
    /// parse succeeds iff the reference decoder accepts, and the decoded header fields are those of the body
    #[kani::proof]
    pub(crate) fn k_request_parse() {
        let bytes: [u8; 252] = kani::any();
        let len: usize = kani::any();
        kani::assume(len <= 252);
        let body = &bytes[..len];
        let fc = any_fc();
        let mut cursor = ReadCursor::new(body);
        let r = Request::parse(fc, &mut cursor);
        let expect = spec_accepts(fc, body);
        match r {
            Ok(req) => {
                assert!(expect);
                assert!(req.get_function() == fc);
                match req {
                    Request::ReadCoils(x) | Request::ReadDiscreteInputs(x) => {
                        assert!(x.inner.start as u32 == be16(body, 0) && x.inner.count as u32 == be16(body, 2));
                    }
                    Request::ReadHoldingRegisters(x) | Request::ReadInputRegisters(x) => {
                        assert!(x.inner.start as u32 == be16(body, 0) && x.inner.count as u32 == be16(body, 2));
                    }
                    Request::WriteSingleCoil(x) => {
                        assert!(x.index as u32 == be16(body, 0) && x.value == (be16(body, 2) == 0xFF00));
                    }
                    Request::WriteSingleRegister(x) => {
                        assert!(x.index as u32 == be16(body, 0) && x.value as u32 == be16(body, 2));
                    }
                    Request::WriteMultipleCoils(x) => {
                        assert!(x.range.start as u32 == be16(body, 0) && x.range.count as u32 == be16(body, 2));
                        assert!(x.iterator.len() == x.range.count as usize);
                    }
                    Request::WriteMultipleRegisters(x) => {
                        assert!(x.range.start as u32 == be16(body, 0) && x.range.count as u32 == be16(body, 2));
                        assert!(x.iterator.len() == x.range.count as usize);
                    }
                }
            }
            Err(_) => assert!(!expect),
        }
    }
}
