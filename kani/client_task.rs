//@append rodbus/src/client/task.rs
// Kani harnesses for rodbus/src/client/task.rs
#[cfg(kani)]
pub(crate) mod verif_kani {
    use super::*;

    fn any_counter() -> TimeoutCounter {
        if kani::any() {
            TimeoutCounter { state: TimeoutCounterState::Disabled }
        } else {
            TimeoutCounter { state: TimeoutCounterState::Enabled { current: kani::any(), max: kani::any() } }
        }
    }

    /// complete: every Option<NonZeroUsize>
    #[kani::proof]
    pub(crate) fn k_timeout_counter_new() {
        let raw: usize = kani::any();
        let m = NonZeroUsize::new(raw);
        let c = TimeoutCounter::new(m);
        match (m, &c.state) {
            (None, TimeoutCounterState::Disabled) => {}
            (Some(n), TimeoutCounterState::Enabled { current, max }) => {
                assert!(*current == 0);
                assert!(*max == n.get());
                assert!(*max >= 1);
            }
            _ => panic!("wrong state"),
        }
    }

    /// complete: every counter state; the contract used by the Verus unit `client_core`
    #[kani::proof]
    pub(crate) fn k_timeout_counter_increment() {
        let mut c = any_counter();
        let before = match &c.state {
            TimeoutCounterState::Disabled => None,
            TimeoutCounterState::Enabled { current, max } => Some((*current, *max)),
        };
        let r = c.increment();
        match (before, &c.state) {
            (None, TimeoutCounterState::Disabled) => assert!(r.is_ok()),
            (Some((cur, max)), TimeoutCounterState::Enabled { current, max: max2 }) => {
                assert!(*max2 == max);
                let expect = if cur == usize::MAX { usize::MAX } else { cur + 1 };
                assert!(*current == expect);
                if expect >= max {
                    assert!(r == Err(SessionError::MaxTimeouts(max)));
                } else {
                    assert!(r.is_ok());
                }
            }
            _ => panic!("state kind changed"),
        }
    }

    /// complete: reset zeroes the count and keeps the limit
    #[kani::proof]
    pub(crate) fn k_timeout_counter_reset() {
        let mut c = any_counter();
        let before = match &c.state {
            TimeoutCounterState::Disabled => None,
            TimeoutCounterState::Enabled { max, .. } => Some(*max),
        };
        c.reset();
        match (before, &c.state) {
            (None, TimeoutCounterState::Disabled) => {}
            (Some(max), TimeoutCounterState::Enabled { current, max: m2 }) => {
                assert!(*current == 0 && *m2 == max);
            }
            _ => panic!("state kind changed"),
        }
    }
}
