//@append rodbus/src/retry.rs
// Kani harnesses for rodbus/src/retry.rs - std::time::Duration is plain integers, so these are complete
#[cfg(kani)]
pub(crate) mod verif_kani {
    use super::*;

    fn any_duration() -> Duration {
        let secs: u64 = kani::any();
        let nanos: u32 = kani::any();
        kani::assume(nanos < 1_000_000_000);
        Duration::new(secs, nanos)
    }

    /// complete: every (min, max, current) with min <= current <= max and 2*max representable:
    /// the value returned is the current delay, the next delay is min(2*current, max) - doubling, capped
    #[kani::proof]
    pub(crate) fn k_doubling_after_failed_connect() {
        let min = any_duration();
        let max = any_duration();
        let current = any_duration();
        kani::assume(min <= current && current <= max);
        kani::assume(max.as_secs() < u64::MAX / 2); // 2 * max fits in a Duration (configuration precondition)
        let mut d = Doubling { min, max, current };
        let r = d.after_failed_connect();
        assert!(r == current);
        let twice = current.checked_mul(2).unwrap();
        assert!(d.current == if twice <= max { twice } else { max });
        assert!(d.min == min && d.max == max);
        assert!(d.min <= d.current && d.current <= d.max);
    }

    /// complete: reset restarts the sequence at min; after_disconnect is min and changes nothing
    #[kani::proof]
    pub(crate) fn k_doubling_reset_and_disconnect() {
        let min = any_duration();
        let max = any_duration();
        let current = any_duration();
        let mut d = Doubling { min, max, current };
        let r = d.after_disconnect();
        assert!(r == min);
        assert!(d.current == current && d.min == min && d.max == max);
        d.reset();
        assert!(d.current == min && d.min == min && d.max == max);
    }

    /// complete: create starts at min
    #[kani::proof]
    pub(crate) fn k_doubling_create() {
        let min = any_duration();
        let max = any_duration();
        let mut b = Doubling::create(min, max);
        assert!(b.after_disconnect() == min);
        kani::assume(min <= max && max.as_secs() < u64::MAX / 2);
        assert!(b.after_failed_connect() == min);
    }
}
