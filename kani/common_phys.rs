//@append rodbus/src/common/phys.rs
// Kani harness for the hex dump shared by the physical-layer and frame-level decoding (logging)
#[cfg(kani)]
pub(crate) mod verif_kani {
    use super::*;
    use std::fmt::Write;

    /// a sink that only counts what is written (no allocation)
    struct Count(usize);
    impl std::fmt::Write for Count {
        fn write_str(&mut self, s: &str) -> std::fmt::Result { self.0 += s.len(); Ok(()) }
    }

    /// bounded: rendering any 19 bytes (one full line of 18 and the start of the next) at the Data level does not panic
    /// (what is written is not specified by any property: only the absence of a panic / formatting error is checked)
    #[kani::proof]
    #[kani::unwind(21)]
    pub(crate) fn k_hex_dump_19() {
        let data: [u8; 19] = kani::any();
        let mut sink = Count(0);
        let r = write!(sink, "{}", PhysDisplay::new(crate::decode::PhysDecodeLevel::Data, &data));
        assert!(r.is_ok());
        assert!(sink.0 > 0);
    }
}
