//@append rodbus/src/types.rs
// Kani harnesses for rodbus/src/types.rs (appended inside the file: private fields are reachable).
#[cfg(kani)]
pub(crate) mod verif_kani {
    use super::*;

    /// complete: all 2^32 (start, count) pairs; oracle = property text
    #[kani::proof]
    pub(crate) fn k_address_range_try_from() {
        let start: u16 = kani::any();
        let count: u16 = kani::any();
        let valid = count != 0 && (start as u32) + (count as u32) <= 65536;
        match AddressRange::try_from(start, count) {
            Ok(r) => {
                assert!(valid);
                assert!(r.start == start && r.count == count);
            }
            Err(_) => assert!(!valid),
        }
    }

    /// complete: every iterator state reachable from a valid range: next() never panics and walks the range
    #[kani::proof]
    pub(crate) fn k_address_iterator_next() {
        let current: u16 = kani::any();
        let remain: u16 = kani::any();
        kani::assume((current as u32) + (remain as u32) <= 65536);
        let mut it = AddressIterator::new(current, remain);
        let r = it.next();
        if remain == 0 {
            assert!(r.is_none());
        } else {
            assert!(r == Some(current));
            assert!(it.remain == remain - 1);
        }
    }

    /// complete within the protocol: any register payload of up to 125 registers (250 bytes), any position
    #[kani::proof]
    pub(crate) fn k_register_iterator_next() {
        let bytes: [u8; 250] = kani::any();
        let start: u16 = kani::any();
        let count: u16 = kani::any();
        let pos: u16 = kani::any();
        kani::assume(count >= 1 && count <= 125 && (start as u32) + (count as u32) <= 65536 && pos <= count);
        let mut it = RegisterIterator { bytes: &bytes[..2 * count as usize], range: AddressRange { start, count }, pos };
        let r = it.next();
        if pos == count {
            assert!(r.is_none());
            assert!(it.pos == pos);
        } else {
            let x = r.unwrap();
            assert!(x.index as u32 == start as u32 + pos as u32);
            let hi = bytes[2 * pos as usize] as u16;
            let lo = bytes[2 * pos as usize + 1] as u16;
            assert!(x.value == hi * 256 + lo);
            assert!(it.pos == pos + 1);
        }
    }
    /// bounded: register payloads of 1..=4 registers; the collected vector has one entry per register, each with the address
    /// start+k and the big-endian value of bytes 2k, 2k+1 (checked at an arbitrary k)
    #[kani::proof]
    #[kani::unwind(6)]
    pub(crate) fn k_register_collect_vec() {
        const N: usize = 4;
        let bytes: [u8; 2 * N] = kani::any();
        let start: u16 = kani::any();
        let count: u16 = kani::any();
        kani::assume(count >= 1 && count as usize <= N && (start as u32) + (count as u32) <= 65536);
        let it = RegisterIterator { bytes: &bytes[..2 * count as usize], range: AddressRange { start, count }, pos: 0 };
        let v = it.collect_vec();
        assert!(v.len() == count as usize);
        let k: usize = kani::any();
        kani::assume(k < count as usize);
        assert!(v[k].index as u32 == start as u32 + k as u32);
        assert!(v[k].value == (bytes[2 * k] as u16) * 256 + bytes[2 * k + 1] as u16);
    }
    /// complete within the protocol: any bit payload of up to 2000 bits (250 bytes), any position: the item is (start + pos, bit pos of the body)
    #[kani::proof]
    pub(crate) fn k_bit_iterator_next() {
        let bytes: [u8; 250] = kani::any();
        let start: u16 = kani::any();
        let count: u16 = kani::any();
        let pos: u16 = kani::any();
        kani::assume(count >= 1 && count <= 2000 && (start as u32) + (count as u32) <= 65536 && pos <= count);
        let nbytes = (count as usize + 7) / 8;
        let mut it = BitIterator { bytes: &bytes[..nbytes], range: AddressRange { start, count }, pos };
        let r = it.next();
        if pos == count {
            assert!(r.is_none());
            assert!(it.pos == pos);
        } else {
            let x = r.unwrap();
            assert!(x.index as u32 == start as u32 + pos as u32);
            assert!(x.value == ((bytes[pos as usize / 8] >> (pos % 8)) & 1 == 1));
            assert!(it.pos == pos + 1);
        }
    }
    /// complete (all 2^32 (start, count) pairs, struct literal as the public fields allow): the read limits of the protocol -
    /// a bit read is accepted iff the range is valid and has at most 2000 points, a register read iff valid and at most 125
    #[kani::proof]
    pub(crate) fn k_address_range_limits() {
        let start: u16 = kani::any();
        let count: u16 = kani::any();
        let valid = count >= 1 && (start as u32) + (count as u32) <= 65536;
        let r = AddressRange { start, count };
        match r.of_read_bits() {
            Ok(x) => { assert!(valid && count <= 2000); assert!(x.get().start == start && x.get().count == count); }
            Err(_) => assert!(!valid || count > 2000),
        }
        match r.of_read_registers() {
            Ok(x) => { assert!(valid && count <= 125); assert!(x.get().start == start && x.get().count == count); }
            Err(_) => assert!(!valid || count > 125),
        }
    }
}
