//@append rodbus/src/common/frame.rs
// Kani harnesses for rodbus/src/common/frame.rs
#[cfg(kani)]
pub(crate) mod verif_kani {
    use super::*;

    /// complete: every FunctionField value
    #[kani::proof]
    pub(crate) fn k_function_field_get_value() {
        let raw: u8 = kani::any();
        let which: u8 = kani::any();
        kani::assume(which < 3);
        let (ff, expect) = if which == 2 {
            (FunctionField::UnknownFunction(raw), raw | 0x80)
        } else {
            match FunctionCode::get(raw) {
                None => { kani::assume(false); unreachable!() }
                Some(fc) => if which == 0 { (FunctionField::Valid(fc), raw) } else { (FunctionField::Exception(fc), raw | 0x80) },
            }
        };
        assert!(ff.get_value() == expect);
    }

    /// complete: all 65536 ids - the id handed out is the old value, the stored value advances by one and wraps after 65535
    #[kani::proof]
    pub(crate) fn k_txid_next() {
        let v: u16 = kani::any();
        let mut t = TxId::new(v);
        let r = t.next();
        assert!(r.to_u16() == v);
        assert!(t.to_u16() == v.wrapping_add(1));
        assert!(t.to_u16() != v);
    }
    pub(crate) fn any_level() -> crate::decode::DecodeLevel {
        use crate::decode::*;
        let app = match kani::any::<u8>() % 4 { 0 => AppDecodeLevel::Nothing, 1 => AppDecodeLevel::FunctionCode, 2 => AppDecodeLevel::DataHeaders, _ => AppDecodeLevel::DataValues };
        let frame = match kani::any::<u8>() % 3 { 0 => FrameDecodeLevel::Nothing, 1 => FrameDecodeLevel::Header, _ => FrameDecodeLevel::Payload };
        let physical = match kani::any::<u8>() % 3 { 0 => PhysDecodeLevel::Nothing, 1 => PhysDecodeLevel::Length, _ => PhysDecodeLevel::Data };
        DecodeLevel { app, frame, physical }
    }

    /// complete for this request shape: a read request (any valid range, any transaction id, any unit id) formatted for TCP at EVERY
    /// decode level is exactly the 12 bytes tx-id, protocol id 0, length 6, unit id, function code, start, quantity
    #[kani::proof]
    #[kani::unwind(8)]
    pub(crate) fn k_format_request_tcp() {
        let start: u16 = kani::any();
        let count: u16 = kani::any();
        kani::assume(count >= 1 && start as u32 + count as u32 <= 65536);
        let range = crate::types::AddressRange::try_from(start, count).unwrap();
        let tx: u16 = kani::any();
        let unit: u8 = kani::any();
        let header = FrameHeader::new_tcp_header(crate::types::UnitId::new(unit), TxId::new(tx));
        let mut writer = FrameWriter::tcp();
        let level = any_level();
        let bytes = writer.format_request(header, FunctionCode::ReadHoldingRegisters, &range, level).unwrap();
        assert!(bytes.len() == 12);
        assert!(bytes[0] == (tx >> 8) as u8 && bytes[1] == tx as u8);
        assert!(bytes[2] == 0 && bytes[3] == 0 && bytes[4] == 0 && bytes[5] == 6);
        assert!(bytes[6] == unit && bytes[7] == 0x03);
        assert!(bytes[8] == (start >> 8) as u8 && bytes[9] == start as u8);
        assert!(bytes[10] == (count >> 8) as u8 && bytes[11] == count as u8);
    }
    /// complete (loop-free, all 8 function codes x all 256 exception bytes x any transaction / unit id x every decode level):
    /// an exception reply over TCP is exactly tx-id, protocol 0, length 3, unit id, function code | 0x80, the exception code
    #[kani::proof]
    #[kani::unwind(8)]
    pub(crate) fn k_format_exception_tcp() {
        let fc = match kani::any::<u8>() % 8 {
            0 => FunctionCode::ReadCoils, 1 => FunctionCode::ReadDiscreteInputs, 2 => FunctionCode::ReadHoldingRegisters,
            3 => FunctionCode::ReadInputRegisters, 4 => FunctionCode::WriteSingleCoil, 5 => FunctionCode::WriteSingleRegister,
            6 => FunctionCode::WriteMultipleCoils, _ => FunctionCode::WriteMultipleRegisters,
        };
        let raw: u8 = kani::any();
        let ex = crate::exception::ExceptionCode::from(raw);
        let tx: u16 = kani::any();
        let unit: u8 = kani::any();
        let header = FrameHeader::new_tcp_header(crate::types::UnitId::new(unit), TxId::new(tx));
        let mut writer = FrameWriter::tcp();
        let level = any_level();
        let bytes = writer.format_ex(header, FunctionField::Exception(fc), ex, level).unwrap();
        assert!(bytes.len() == 9);
        assert!(bytes[0] == (tx >> 8) as u8 && bytes[1] == tx as u8);
        assert!(bytes[2] == 0 && bytes[3] == 0 && bytes[4] == 0 && bytes[5] == 3);
        assert!(bytes[6] == unit && bytes[7] == (fc.get_value() | 0x80));
        assert!(bytes[8] == u8::from(ex));
        // the standard codes are the protocol's numbers; every other byte survives the round trip
        if raw >= 1 && raw <= 6 || raw == 8 || raw == 10 || raw == 11 { assert!(bytes[8] == raw); }
        // function code numbers of the protocol
        assert!(FunctionCode::ReadCoils.get_value() == 1 && FunctionCode::ReadDiscreteInputs.get_value() == 2
            && FunctionCode::ReadHoldingRegisters.get_value() == 3 && FunctionCode::ReadInputRegisters.get_value() == 4
            && FunctionCode::WriteSingleCoil.get_value() == 5 && FunctionCode::WriteSingleRegister.get_value() == 6
            && FunctionCode::WriteMultipleCoils.get_value() == 15 && FunctionCode::WriteMultipleRegisters.get_value() == 16);
    }

}
