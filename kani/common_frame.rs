//@append rodbus/src/common/frame.rs
// Kani harnesses for rodbus/src/common/frame.rs
#[cfg(kani)]
pub(crate) mod verif_kani {
    use super::*;

    /// complete: every FunctionField value
    #[kani::proof]
    pub(crate) fn k_function_field_get_value() {
        let raw: u8 = kani::any();
        let which: u8 = kani::any();
        kani::assume(which < 3);
        let (ff, expect) = if which == 2 {
            (FunctionField::UnknownFunction(raw), raw | 0x80)
        } else {
            match FunctionCode::get(raw) {
                None => { kani::assume(false); unreachable!() }
                Some(fc) => if which == 0 { (FunctionField::Valid(fc), raw) } else { (FunctionField::Exception(fc), raw | 0x80) },
            }
        };
        assert!(ff.get_value() == expect);
    }

    /// complete: all 65536 ids - the id handed out is the old value, the stored value advances by one and wraps after 65535
    #[kani::proof]
    pub(crate) fn k_txid_next() {
        let v: u16 = kani::any();
        let mut t = TxId::new(v);
        let r = t.next();
        assert!(r.to_u16() == v);
        assert!(t.to_u16() == v.wrapping_add(1));
        assert!(t.to_u16() != v);
    }
}
